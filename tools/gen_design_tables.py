#!/usr/bin/env python3
"""Rewrite the generated tables of DESIGN.md (between <!-- BEGIN:x --> / <!-- END:x --> markers) from the committed
self-test patches (selftest/mutants, selftest/equiv) and the seeded changes (seeded/*/meta.json)."""
import json
import os
import re

VERIF = os.path.dirname(os.path.dirname(os.path.abspath(__file__)))


def first_line(path):
    with open(path) as fh:
        return fh.readline().strip()


def changed_files(path):
    out = []
    with open(path) as fh:
        for ln in fh:
            if ln.startswith("+++ b/"):
                out.append(ln[6:].strip())
    return out


def mutants_table():
    rows = ["| property | mutant (selftest/mutants) | file changed | rule that must fire |", "|---|---|---|---|"]
    d = os.path.join(VERIF, "selftest", "mutants")
    for f in sorted(os.listdir(d)):
        if not f.endswith(".patch"):
            continue
        p = os.path.join(d, f)
        exp = first_line(p).replace("# expect:", "").strip()
        rows.append(f"| {f[:3]} | {f[4:-6]} | {', '.join(os.path.basename(x) for x in changed_files(p))} | `{exp}` |")
    return "\n".join(rows)


def equiv_table():
    rows = ["| property | behaviour-preserving refactor (selftest/equiv) | file changed | required verdict |", "|---|---|---|---|"]
    d = os.path.join(VERIF, "selftest", "equiv")
    for f in sorted(os.listdir(d)):
        if f.endswith(".patch"):
            p = os.path.join(d, f)
            rows.append(f"| {f[:3]} | {f[4:-6]} | {', '.join(os.path.basename(x) for x in changed_files(p))} | silent (exit 0) |")
    return "\n".join(rows)


def seeded_table():
    rows = ["| seed | breaks | confirmed (suite green, demo fails only with the change) | caught by (check: rules) |", "|---|---|---|---|"]
    d = os.path.join(VERIF, "seeded")
    for name in sorted(os.listdir(d)):
        mp = os.path.join(d, name, "meta.json")
        if not os.path.exists(mp):
            continue
        m = json.load(open(mp))
        title = ""
        np_ = os.path.join(d, name, "notes.md")
        if os.path.exists(np_):
            title = re.sub(r"^#\s*", "", first_line(np_))
            title = re.sub(r"^Seed \d+\s*(\(C\d+\))?\s*[—:-]*\s*", "", title)
            title = re.sub(r"^C\d+ seed \d+\s*[—:-]*\s*", "", title)
        caught = []
        for pid, r in m["what_we_ran"]["checks"].items():
            if r["rc"] == 1:
                rules = sorted(set(k.split("|")[0] for k in r["violations"]))
                caught.append(f"{pid}: {', '.join(rules)}")
        if not caught:
            caught = ["**not caught** — " + m.get("why_not_caught", "see §7.5")]
        rows.append(f"| {name} | {title[:110]} | {'yes' if m['confirmed'] else 'no'} | {'; '.join(caught)} |")
    return "\n".join(rows)


def refactors_table():
    rows = ["| refactoring | what was restructured | suite | verdict of the 19 checks |", "|---|---|---|---|"]
    d = os.path.join(VERIF, "refactors")
    for name in sorted(os.listdir(d)):
        mp = os.path.join(d, name, "meta.json")
        if not os.path.exists(mp):
            continue
        m = json.load(open(mp))
        title = ""
        np_ = os.path.join(d, name, "notes.md")
        if os.path.exists(np_):
            title = re.sub(r"^#\s*", "", first_line(np_))
            title = re.sub(r"^refac_\d\s*[—:-]*\s*", "", title, flags=re.I)
            title = re.sub(r"^C\d+ refac(toring)?_? ?\d\s*[—:-]*\s*", "", title, flags=re.I)
        al = m.get("alarms", {})
        if al:
            parts = []
            for pid, r in sorted(al.items()):
                rules = sorted(set(k.split("|")[0] for k in r.get("violations", [])))
                parts.append(f"{pid}: {', '.join(rules)}")
            verdict = "**false alarm** — " + "; ".join(parts) + (f" ({m['residual_reason']})" if m.get("residual_reason") else "")
        else:
            once = [x for x in m.get("alarmed_once", [])]
            verdict = "silent" + (f" (after generalising {', '.join(once)})" if once else "")
        su = m.get("suite") or {}
        suite = f"{su.get('passed', '?')} passed" if su else "as reported by the author"
        rows.append(f"| {name} | {title[:120]} | {suite} | {verdict} |")
    return "\n".join(rows)


def main():
    p = os.path.join(VERIF, "DESIGN.md")
    s = open(p).read()
    for key, fn in (("mutants", mutants_table), ("equiv", equiv_table), ("seeded", seeded_table), ("refactors", refactors_table)):
        a, b = f"<!-- BEGIN:{key} -->", f"<!-- END:{key} -->"
        if a in s and b in s:
            i, j = s.index(a) + len(a), s.index(b)
            s = s[:i] + "\n" + fn() + "\n" + s[j:]
    open(p, "w").write(s)


if __name__ == "__main__":
    main()

#!/usr/bin/env python3
"""mkmutant.py NAME EXPECT FILE OLD NEW [--nth N] [--more FILE OLD NEW ...]
Writes selftest/mutants/NAME.patch replacing the N-th (default: only) occurrence of OLD by NEW in /repo/FILE."""
import difflib
import os
import sys

VERIF = os.path.dirname(os.path.dirname(os.path.abspath(__file__)))


def main():
    a = sys.argv[1:]
    name, expect = a[0], a[1]
    rest = a[2:]
    edits = []
    while rest:
        f, old, new = rest[0], rest[1], rest[2]
        rest = rest[3:]
        nth = None
        if rest and rest[0] == "--nth":
            nth = int(rest[1])
            rest = rest[2:]
        if rest and rest[0] == "--more":
            rest = rest[1:]
        edits.append((f, old, new, nth))
    out = [f"# expect: {expect}\n"]
    by_file = {}
    for f, old, new, nth in edits:
        src = by_file.get(f)
        if src is None:
            with open(os.path.join("/repo", f)) as fh:
                src = fh.read()
            by_file[f] = src
        n = src.count(old)
        if n == 0:
            sys.exit(f"{f}: OLD not found: {old!r}")
        if n > 1 and nth is None:
            sys.exit(f"{f}: OLD occurs {n} times; use --nth")
        idx = -1
        for _ in range((nth or 0) + 1):
            idx = src.index(old, idx + 1)
        by_file[f] = src[:idx] + new + src[idx + len(old):]
    for f, new_src in by_file.items():
        with open(os.path.join("/repo", f)) as fh:
            orig = fh.read()
        out.extend(difflib.unified_diff(orig.splitlines(True), new_src.splitlines(True), "a/" + f, "b/" + f))
    p = os.path.join(VERIF, "selftest", "mutants", name + ".patch")
    with open(p, "w") as fh:
        fh.writelines(out)
    print(p)


if __name__ == "__main__":
    main()

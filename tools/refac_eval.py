#!/usr/bin/env python3
"""refac_eval.py Cxx N [--root /tmp/refac] [--as M] [--props a,b] [--no-suite] : a behaviour-preserving refactoring written by an independent sub-agent must
(1) keep the suite green in the author's worktree and (2) leave EVERY check silent.  Stores /verif/refactors/Cxx-N/."""
import json
import os
import re
import shutil
import subprocess
import sys

VERIF = os.path.dirname(os.path.dirname(os.path.abspath(__file__)))
sys.path.insert(0, VERIF)
from hv import selftest  # noqa: E402

ALL = [f"C{n:02d}" for n in range(1, 21) if n != 5]


def sh(cmd, cwd, timeout=1800):
    p = subprocess.run(cmd, cwd=cwd, shell=True, stdout=subprocess.PIPE, stderr=subprocess.STDOUT, text=True, timeout=timeout,
                       env=dict(os.environ, CARGO_NET_OFFLINE="true"))
    return p.returncode, p.stdout


def main():
    pid, n = sys.argv[1], sys.argv[2]
    root = sys.argv[sys.argv.index("--root") + 1] if "--root" in sys.argv else "/tmp/refac"
    props = sys.argv[sys.argv.index("--props") + 1].split(",") if "--props" in sys.argv else ALL
    wt = f"{root}/{pid}"
    patch = os.path.join(wt, f"refac_{n}.patch")
    out_n = sys.argv[sys.argv.index("--as") + 1] if "--as" in sys.argv else n
    out_dir = os.path.join(VERIF, "refactors", f"{pid}-{out_n}")
    if not os.path.exists(patch):
        patch = os.path.join(out_dir, "patch.diff")
    suite = None
    if os.path.isdir(wt) and "--no-suite" not in sys.argv:
        sh("git checkout -- .", wt)
        rc, out = sh(f"git apply --check refac_{n}.patch && git apply refac_{n}.patch", wt)
        if rc != 0:
            print(f"== {pid}-{n}: PATCH DOES NOT APPLY\n{out[-500:]}")
            return 1
        rc, out = sh("cargo test --workspace --offline --no-fail-fast 2>&1", wt)
        failed = sorted(set(re.findall(r"^test (\S+) \.\.\. FAILED", out, re.M)))
        passed = sum(int(x) for x in re.findall(r"test result: \w+\. (\d+) passed", out))
        built = "could not compile" not in out and "error[" not in out
        rc2, out2 = sh("cargo build -p humphrey --features tokio --offline 2>&1 | tail -3", wt)
        sh("git checkout -- .", wt)
        sh(f"rm -rf {wt}/target", wt)
        suite = {"built": built, "passed": passed, "failed": failed, "tokio_build_rc": rc2}
    res = selftest.run_mutant(patch, props)
    alarms = {}
    for p_, rc, viol, stdout in res:
        if rc != 0:
            alarms[p_] = {"rc": rc, "violations": [v["key"] for v in viol][:8], "details": [v.get("detail", "")[:300] for v in viol][:8]}
            if rc not in (0, 1):
                alarms[p_]["tail"] = stdout[-800:]
    print(f"== {pid}-{out_n}: suite={suite} alarms={ {k: v['violations'][:3] for k, v in alarms.items()} }")
    os.makedirs(out_dir, exist_ok=True)
    if os.path.abspath(patch) != os.path.abspath(os.path.join(out_dir, "patch.diff")):
        shutil.copy(patch, os.path.join(out_dir, "patch.diff"))
    md = os.path.join(wt, f"refac_{n}.md")
    if os.path.exists(md):
        shutil.copy(md, os.path.join(out_dir, "notes.md"))
    mp = os.path.join(out_dir, "meta.json")
    meta = {}
    if os.path.exists(mp):
        with open(mp) as fh:
            meta = json.load(fh)
    once = sorted(set(meta.get("alarmed_once", [])) | set(alarms))
    meta.update({"alarmed_once": once, "targets_property": pid, "author": "independent sub-agent given only the property text and a scratch worktree; asked for a behaviour-preserving refactoring",
                 "checks_run": props, "alarms": alarms})
    if suite is not None:
        meta["suite"] = suite
    with open(mp, "w") as fh:
        json.dump(meta, fh, indent=1)
    return 0


if __name__ == "__main__":
    sys.exit(main())

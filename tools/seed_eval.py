#!/usr/bin/env python3
"""seed_eval.py Cxx N [--props C01,C02] : confirm an independently written breaking change and run our checks on it.

1. in the author's worktree /tmp/seed/Cxx: clean -> demo must pass; apply seed_N.patch -> project builds, suite passes
   (except the DNS test), demo must fail; revert.
2. run the property's check(s) on a scratch copy of /repo with the patch (hv.selftest machinery).
3. store /verif/seeded/Cxx-N/{patch.diff, demo/, notes.md, meta.json}.
"""
import json
import os
import re
import shutil
import subprocess
import sys

VERIF = os.path.dirname(os.path.dirname(os.path.abspath(__file__)))
sys.path.insert(0, VERIF)
from hv import selftest  # noqa: E402


def sh(cmd, cwd, timeout=1200):
    p = subprocess.run(cmd, cwd=cwd, shell=True, stdout=subprocess.PIPE, stderr=subprocess.STDOUT, text=True, timeout=timeout,
                       env=dict(os.environ, CARGO_NET_OFFLINE="true"))
    return p.returncode, p.stdout


def suite(wt):
    rc, out = sh("cargo test --workspace --offline --no-fail-fast 2>&1", wt)
    failed = sorted(set(re.findall(r"^test (\S+) \.\.\. FAILED", out, re.M)))
    passed = sum(int(x) for x in re.findall(r"test result: \w+\. (\d+) passed", out))
    built = "could not compile" not in out and "error[" not in out
    return built, passed, failed


def demo(wt, n):
    d = os.path.join(wt, f"seed_{n}_demo")
    if not os.path.isdir(d):
        return None, "no demo dir"
    if os.path.exists(os.path.join(d, "Cargo.toml")):
        has_tests = os.path.isdir(os.path.join(d, "tests")) or "#[test]" in open(os.path.join(d, "src", "lib.rs")).read() if os.path.exists(os.path.join(d, "src", "lib.rs")) else os.path.isdir(os.path.join(d, "tests"))
        cmd = "cargo test --offline 2>&1" if has_tests else "cargo run --offline 2>&1"
        rc, out = sh(cmd, d)
        return rc, out[-1500:]
    subs = sorted(x for x in os.listdir(d) if os.path.exists(os.path.join(d, x, "Cargo.toml")))
    if subs:
        worst, outs = 0, ""
        for x in subs:
            rc, out = sh("cargo test --offline 2>&1", os.path.join(d, x))
            worst = max(worst, rc)
            outs += f"[{x}] rc={rc}\n" + out[-700:]
        return worst, outs[-1800:]
    return None, "no Cargo.toml in demo"


def recheck(name):
    """Re-run the recorded checks on seeded/<name>/patch.diff and refresh meta.json (suite / demo results are kept)."""
    d = os.path.join(VERIF, "seeded", name)
    mp = os.path.join(d, "meta.json")
    with open(mp) as fh:
        meta = json.load(fh)
    props = list(meta["what_we_ran"]["checks"].keys()) or [meta["breaks_property"]]
    res = selftest.run_mutant(os.path.join(d, "patch.diff"), props)
    for p_, rc, viol, stdout in res:
        meta["what_we_ran"]["checks"][p_] = {"rc": rc, "violations": [v["key"] for v in viol][:8]}
        rules = sorted(set(v["key"].split("|")[0] for v in viol))
        print(f"== {name}: check {p_}: rc={rc} {rules}")
        if rc not in (0, 1):
            print(stdout[-1200:])
    with open(mp, "w") as fh:
        json.dump(meta, fh, indent=1)


def main():
    if sys.argv[1] == "--recheck":
        names = sys.argv[2:] or sorted(os.listdir(os.path.join(VERIF, "seeded")))
        for nm in names:
            recheck(nm)
        return 0
    pid, n = sys.argv[1], sys.argv[2]
    props = [pid]
    if "--props" in sys.argv:
        props = sys.argv[sys.argv.index("--props") + 1].split(",")
    root = "/tmp/seed"
    store_n = n
    if "--root" in sys.argv:
        root = sys.argv[sys.argv.index("--root") + 1]
    if "--as" in sys.argv:
        store_n = sys.argv[sys.argv.index("--as") + 1]
    wt = f"{root}/{pid}"
    patch = os.path.join(wt, f"seed_{n}.patch")
    assert os.path.exists(patch), patch
    sh("git checkout -- . ", wt)
    rc0, out0 = demo(wt, n)
    rca, outa = sh(f"git apply --check seed_{n}.patch && git apply seed_{n}.patch", wt)
    if rca != 0:
        print("PATCH DOES NOT APPLY", outa)
        return 1
    built, passed, failed = suite(wt)
    rc1, out1 = demo(wt, n)
    sh("git checkout -- .", wt)
    sh(f"rm -rf {wt}/seed_{n}_demo/target {wt}/seed_{n}_demo/*/target {wt}/seed_demo_target {wt}/target", wt)
    confirmed = built and passed >= 99 and set(failed) <= {"tests::client::test_url_parser"} and rc0 == 0 and rc1 not in (0, None)
    print(f"== {pid}-{store_n}: builds={built} suite_passed={passed} suite_failed={failed} demo_clean_rc={rc0} demo_patched_rc={rc1} -> confirmed={confirmed}")
    if not confirmed:
        print("--- demo clean tail:\n", (out0 or "")[-600:], "\n--- demo patched tail:\n", (out1 or "")[-600:])
    # our checks
    results = {}
    res = selftest.run_mutant(patch, props)
    for p_, rc, viol, stdout in res:
        results[p_] = {"rc": rc, "violations": [v["key"] for v in viol][:8]}
        print(f"   check {p_}: rc={rc} ({len(viol)} violation(s))")
        for v in viol[:5]:
            print("      ", v["key"][:180])
        if rc not in (0, 1):
            print(stdout[-1500:])
    out_dir = os.path.join(VERIF, "seeded", f"{pid}-{store_n}")
    if os.path.isdir(out_dir):
        shutil.rmtree(out_dir)
    os.makedirs(out_dir)
    shutil.copy(patch, os.path.join(out_dir, "patch.diff"))
    md = os.path.join(wt, f"seed_{n}.md")
    if os.path.exists(md):
        shutil.copy(md, os.path.join(out_dir, "notes.md"))
    dd = os.path.join(wt, f"seed_{n}_demo")
    if os.path.isdir(dd):
        shutil.copytree(dd, os.path.join(out_dir, "demo"), ignore=shutil.ignore_patterns("target", "Cargo.lock"))
    meta = {"breaks_property": pid, "author": "independent sub-agent given only the property text and a scratch worktree",
            "confirmed": confirmed,
            "what_we_ran": {"suite": "cargo test --workspace --offline --no-fail-fast (in the author's worktree, patch applied)",
                            "suite_passed": passed, "suite_failed": failed, "demo_clean_rc": rc0, "demo_patched_rc": rc1,
                            "checks": results},
            "needs_to_manifest": "see notes.md"}
    with open(os.path.join(out_dir, "meta.json"), "w") as fh:
        json.dump(meta, fh, indent=1)
    return 0


if __name__ == "__main__":
    sys.exit(main())

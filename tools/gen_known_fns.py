#!/usr/bin/env python3
"""Writes oracles/known_fns.json: every function-like MIR body path of /repo's current tree, over all build configurations.
Run this when the rules are (re-)anchored on a tree; functions not in the list are treated as new helpers and inlined."""
import json
import os
import sys

VERIF = os.path.dirname(os.path.dirname(os.path.abspath(__file__)))
sys.path.insert(0, VERIF)
if os.path.exists(os.path.join(VERIF, "oracles", "known_fns.json")):
    os.rename(os.path.join(VERIF, "oracles", "known_fns.json"), os.path.join(VERIF, "oracles", "known_fns.json.bak"))
from hv import core  # noqa: E402

from hv import inline  # noqa: E402

fns = set()
combs = {}
for cfg in ("A", "B", "C", "D", "E"):
    p = core.load(cfg)
    RAWS = globals().setdefault("RAWS", {})
    RAWS[cfg] = {q: x.raw for q, x in list(p.elab.items()) + list(p.bodies.items())}
    for path, b in list(p.bodies.items()) + list(p.elab.items()):
        if b.kind in ("fn", "method"):
            fns.add(path)
        owner = inline.owner_fn(path)
        for blk in b.raw["blocks"]:
            t = blk["term"]
            if t and t["k"] == "call":
                c = inline.combinator_of(t)
                if c:
                    combs.setdefault(owner, set()).add(c)
                if inline.closure_call_of({q: x.raw for q, x in p.bodies.items()} if False else RAWS[cfg], b.raw, t):
                    combs.setdefault(owner, set()).add(inline.CLOSURE_CALL)
with open(os.path.join(VERIF, "oracles", "known_fns.json"), "w") as fh:
    json.dump({"_comment": "function bodies of the pinned tree (after the fix: commits) and the Option/Result combinators each of them "
                           "(with its closures) already uses; see hv/inline.py", "functions": sorted(fns),
               "combinator_table": sorted(set(inline.COMBINATORS) | {inline.CLOSURE_CALL}),
               "combinators": {k: sorted(v) for k, v in sorted(combs.items())}}, fh, indent=0)
try:
    os.remove(os.path.join(VERIF, "oracles", "known_fns.json.bak"))
except OSError:
    pass
print(len(fns), "functions")

#!/bin/bash
# regression of a property's self-test corpus with the current rules: every mutant and caught seeded change must fire, every
# equivalent edit and independent refactoring must stay silent.  usage: tools/regress.sh C06 [C07 ...]   (runs them in parallel)
cd "$(dirname "$0")/.."
ev=$(mktemp -d)
for pid in "$@"; do
  ( HV_EVIDENCE_DIR=$ev python3 -c "
import sys
from hv import selftest
sys.exit(selftest.run('$pid', None, None))" > $ev/$pid.log 2>&1; echo "[$pid] rc=$?" >> $ev/$pid.log ) &
done
wait
for pid in "$@"; do grep -E "selftest: .*(MISSED|FALSE ALARM|ERROR)|rc=|self-test failed" $ev/$pid.log; grep -c "selftest:" $ev/$pid.log; done
rm -rf $ev

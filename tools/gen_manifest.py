#!/usr/bin/env python3
"""Regenerates MANIFEST.json from the table below (single source of truth for claimed checks)."""
import json
import os

VERIF = os.path.dirname(os.path.dirname(os.path.abspath(__file__)))

LEVEL_NOTE = ("Trusted: rustc (type checking, MIR construction, callee resolution) on the pinned nightly; the std "
              "semantics summarised in hv's transparent-call / panicking-API tables; the transcribed oracle tables. "
              "A pass means every decided structural clause holds on all paths of the analysed functions; it is not "
              "a proof of the whole behavioural property (see 'not_decided' in the evidence and DESIGN.md).")

CLAIMED = {
    "C07": ("DESIGN.md §4 C07",
            "R-TABLE (HIR match tables vs IANA registry), R-FIELDS, R-MUSTPASS and R-DOM over MIR CFGs, R-CALLS denylist over the call graph",
            "Decides, for all paths and all enum variants: StatusCode<->u16<->reason-phrase tables are total, injective, inverse and registered; "
            "header serialisation cannot reorder same-named fields; the Set-Cookie serialiser reads every field; the chunked branch of the "
            "response parser always replaces Transfer-Encoding by the decoded body length; the client follows exactly {301,302,307} and only "
            "under follow_redirects; nothing is appended after the body (known finding). Structural clauses only."),
}

CLAIMED["C02"] = ("DESIGN.md §4 C02",
    "R-TABLE (method / header-name tables), R-CALLS (who-may-read: only read_exact/read_until; no unstable sort), R-FLOW (body length, X-Forwarded-For element provenance) on sync and tokio builds",
    "Decides on both runtimes: Method and HeaderType name tables are inverse bijections with case-insensitive header matching; header storage and "
    "serialisation keep the relative order of same-named fields; the parser reads only through read_exact/read_until (results cannot depend on "
    "segmentation) and sizes the body by the parsed Content-Length; X-Forwarded-For elements are trimmed, origin = last listed, peer appended. "
    "Does not decide that parsed field values equal what the bytes denote.")

CLAIMED["C01"] = ("DESIGN.md §4 C01",
    "R-MUSTPASS / R-DOM over the MIR CFG of both connection loops, R-TABLE (error mapping), R-FLOW (written bytes, Content-Length value, keep-alive flag definitions), R-CALLS (reads, read-ahead buffers), R-SIBLING (threaded vs tokio fact sets)",
    "Decides on all paths of both connection loops: exactly one write per parsed request; 400/408/close error mapping; Connection/Server/Date/"
    "Content-Length, version echo and CORS on every well-formed-request path; keep-alive iff the case-insensitive Connection test; "
    "self-delimiting when kept open; nothing after the body; no read-ahead discarded; segmentation-proof reads; threaded and tokio loops agree. "
    "Known findings: OPTIONS arm skips the fix-up, per-request BufReader, CRLF after body.")

CLAIMED["C04"] = ("DESIGN.md §4 C04",
    "R-CALLS (first-match idiom, order-changing adaptor denylist, append-only registration), R-FLOW (pattern/text argument roles through closure upvars), R-DOM / R-MUSTPASS (precedence on the result), R-SIBLING over the four lookup functions",
    "Decides on get_handler and call_websocket_handler of both runtimes: every selection is a first match over the registration-ordered vector; "
    "wildcard_match / route_matches receive pattern and text in the right roles (path without query, Host header); the host sub-app's handler is used "
    "only when Host, host pattern and route matched, the default only after one of them failed, None/404 only after the default failed; registration only "
    "appends; the four siblings agree. The matcher's own semantics (C05) are not decided.")

CLAIMED["C06"] = ("DESIGN.md §4 C06",
    "R-FLOW taint (request target -> file-system sinks, all calls propagating), R-DOM same-value check-then-use of the `..` test, fmt-template decoding for path construction, R-TABLE (MIME vs registry, INDEX_FILES), on sync and tokio builds",
    "Decides for every file-system call in the handler modules (library serve_*, tokio twins, server static handlers, try_find_path): a request-derived path "
    "is dominated by the `..` test applied to that same, exactly-once-decoded value or goes through try_find_path; paths are built directory-first so they "
    "cannot be re-rooted; the body served is the buffer read from the opened file, Content-Type is from_extension of that path; MIME table agrees with the "
    "registry; directories redirect with 301 + uri/; index file order. Symlinks and OS path quirks are not decided.")

CLAIMED["C08"] = ("DESIGN.md §4 C08",
    "R-LOCK guard typestate on drop-elaborated MIR, R-UNWIND (drop guard on the unwind path), R-DIVERGE (thread bodies without a reachable return) + R-FLOW of JoinHandles, R-MUSTPASS (task call, restart), who-may-call (Sender clone)",
    "Decides on the worker closure, recovery closure, PanicMarker::drop and ThreadPool::{execute,stop,drop}: a received task is called on every path and at "
    "most once per receive; no queue-lock guard is live at the task call; unwinding out of a task drops a PanicMarker that reports its id only when "
    "panicking; every reported id leads to a restarted worker stored at the same index; Err/Shutdown/poison leave the loop; the task Sender is unique; no "
    "join on a thread that cannot return, none while holding a lock the joined thread takes. Interleavings themselves are not explored.")

CLAIMED["C20"] = ("DESIGN.md §4 C20",
    "R-MUSTPASS / R-DOM over the MIR of App::run, run_tls (tls build) and the tokio run coroutine + select closure; R-TABLE (wake-up address); R-CALLS (leak denylist); R-DIVERGE/R-LOCK join rules shared with C08",
    "Decides: the accept loop loads the shutdown flag on every iteration between accept and dispatch, true leaves the loop, false keeps serving, pool.stop() "
    "post-dominates the loop; run() stores the same flag, then connects to the loopback form of its own address (family and port preserved) and joins the "
    "thread owning the listener before returning Ok; the listener is never leaked; dropping the stopped pool joins nothing immortal; tokio: the select's "
    "cancelled() branch leaves the loop with Ok(()). Promptness and in-flight responses are not decided.")

CLAIMED["C19"] = ("DESIGN.md §4 C19",
    "R-DOM (content dominated by the not-listed edge, wrappers summarised from their own MIR), R-TABLE (route-type dispatch), R-FLOW taint by case analysis over Address construction sites (which fields hold the socket peer), R-DOM on the accept loops of the default, tls and tokio builds",
    "Decides: in the file, directory, proxy and redirect handlers every content-producing call is dominated by the not-listed edge of the blacklist membership "
    "test; the dispatcher reaches content only through those handlers; block mode: verify_connection denies under (mode == Block && list.contains(socket peer)), "
    "is installed, and every accept loop dispatches only under its true edge; in every Address construction case the tested fields include the socket peer and "
    "the forwarded-for origin. What the kernel reports as peer address is trusted.")

CLAIMED["C03"] = ("DESIGN.md §4 C03",
    "R-PANIC (panic-site inventory over the call graphs of 16 parser entry points with mechanical discharge: constants/intervals, same-value guard domination incl. assert-wrapper summaries, infallible idioms, reviewed table with re-checked conditions), R-RECUR (depth gate on every call-graph cycle), R-ALLOC (taint from claimed lengths to allocation sizes), R-PROGRESS (every loop cycle consumes input), R-PARTIALREAD",
    "Decides for the HTTP request (threaded + tokio) and response parsers, WebSocket frame/message decoders, JSON parser and configuration parser: every site that "
    "can panic (overflow/bounds/div asserts, panicking std APIs, panic!/assert!) is discharged or reported; every recursion cycle passes a depth gate and MAX_DEPTH <= 1024; "
    "no allocation is sized by an unbounded peer-claimed length; every loop cycle consumes input; the count of a bare read() is used. Known findings: claimed-length "
    "allocations (5 sites), unbounded config recursion. Wall-clock bounds and allocation inside std are not decided.")

CLAIMED["C09"] = ("DESIGN.md §4 C09",
    "R-TABLE (Ok/Err mapping), R-PANIC over the proxy call graph (shared engine with C03), R-MUSTPASS (socket timeouts before use), R-FLOW (forwarded bytes, mutation inventory of the relayed clone), R-LOCK (guard released before the network call), CFG-order rule for the rotation index",
    "Decides: proxy_request maps Ok to the upstream response and Err to 502; no site on the call graphs of proxy_request/proxy_handler can panic (clock-driven logging/date "
    "code cut out and listed); the upstream socket gets read and write timeouts from the caller's timeout before it is written or read; the relayed bytes are the "
    "serialised clone of the client's request whose only mutations are the stripped URI and X-Forwarded-For = origin address; the load-balancer guard is dropped before the "
    "request; round-robin indexes with the pre-increment value and wraps at len. Timing itself is not decided.")

CLAIMED["C10"] = ("DESIGN.md §4 C10",
    "R-TABLE (opcode table vs RFC 6455 §11.8; header bit masks vs encoder shifts; length-form thresholds normalised), R-CALLS (read_exact only, errors mapped), R-DOM (which length form under which range; Text/Binary by the text flag)",
    "Decides: opcode discriminants and TryFrom<u8> equal RFC 6455 and reject reserved opcodes; decoder masks (0x80/0x40/0x20/0x10/0x0F, 0x80/0x7F) pair with encoder shifts (7,6,5,4 / 7); "
    "encoder uses the 7-bit form below 126, 126+u16 BE below 65536, else 127+u64 BE; decoder reads 2 bytes for 126 and 8 for 127 big-endian; blocking decoders read only with "
    "read_exact mapped to an error; unmasking uses key[i % 4]; Message::to_frame picks Text/Binary by the text flag and serialises the frame. The byte-level round trip for all "
    "payloads is not decided.")

CLAIMED["C11"] = ("DESIGN.md §4 C11",
    "R-FLOW provenance of every byte written to a WebsocketStream's inner stream (incl. callers of send_raw), R-DOM (handshake under the key's Some edge; replies under opcode facts), fmt-template decoding for key+GUID, R-SIBLING blocking vs non-blocking receive, R-PARTIALREAD",
    "Decides: everything written on an upgraded connection is Vec<u8>::from(Frame) / Message::to_frame output, never a bare payload; the handshake answers 101 only when "
    "Sec-WebSocket-Key is present, with Accept = base64(sha1(key + RFC 6455 GUID)), and the user handler runs only after it succeeded; in both receive variants Ping -> Pong "
    "with the same payload, Close -> Close + ConnectionClosed, Pong -> nothing; control frames are not collected, fragments are concatenated in order, text/binary comes from the "
    "first fragment; closed is set on ConnectionClosed and Drop sends a Close unless closed; the two receive variants agree; the non-blocking header read uses its count.")

CLAIMED["C12"] = ("DESIGN.md §4 C12",
    "R-MUSTPASS over the MIR CFG of AsyncWebsocketApp::run (message / disconnect / connect dispatch, removal before re-poll, insert of accepted streams, shutdown poll), R-FLOW (closure captures, unicast key, broadcast receiver and data), who-may-dispatch (single pool queue)",
    "Decides on all paths of run(): a received message reaches exactly one dispatch capturing that message and the polled address (or no handler is set); every receive error, "
    "heartbeat timeout and disconnect dispatch passes streams.remove(addr) before that stream can be polled again; every accepted stream is inserted under its own address "
    "with at most one connect dispatch; messages are polled only from entries of streams; unicast uses the addressee's key, broadcast iterates all streams with the serialised "
    "frame; the shutdown receiver is polled every outer iteration, its Ok edge leaves the loop through thread_pool.stop(). Cross-thread execution order is not decided.")

CLAIMED["C13"] = ("DESIGN.md §4 C13",
    "R-TABLE (escape / unescaped / whitespace / literal tables vs RFC 8259; serialiser evaluated as an ordered function over code-point intervals and composed with the parser's table), R-MUSTPASS on the product of the CFG with a finite abstract store (comma between elements), R-DOM same-token gates before f64::from_str and from_str_radix, R-PAIR (depth inc/dec)",
    "Decides: parser escapes, unescaped set, whitespace and literals equal RFC 8259; the serialiser writes only RFC escapes the parser inverts, writes verbatim only "
    "RFC-unescaped characters and \\u-escapes the rest; every element->element path in arrays and objects passes the consumed comma, values follow a consumed colon and a "
    "quoted key; number and \\u tokens reach std's converters only through character-level gates on the same token; depth accounting is paired and bounded; members keep "
    "document order; serialiser writes stored order with the RFC separators. Completeness of the number gate and numeric values are not decided.")

CLAIMED["C14"] = ("DESIGN.md §4 C14",
    "R-MACRO (macro_rules! token-tree lints: bound metavariables transcribed at the same depth, accumulator order, sibling munchers), R-TABLE (Option/Vec conversions), expansion corpus: generated derive / json_map! types and json! literals compiled with the driver and compared structurally (never run)",
    "Decides: no macro arm drops caller tokens, accumulators keep order, array and object munchers accept the same element forms, numeric impls pair up; Option<->Null and "
    "Vec<->Array tables; for every corpus type (quick: 32 types / 40 literals, thorough: 300 / 400 from VERIF_SEED) from_json reads and to_json writes each field under its "
    "declared (renamed) key in declaration order with identical, injective key maps, tuple structs use indices 0..n with the right arity test, enums map declared strings "
    "both ways; every json! literal expands to a constructor tree of the literal's shape. Numeric casts and programs outside the corpus are not decided.")

CLAIMED["C16"] = ("DESIGN.md §4 C16",
    "R-FIELDS/R-SIBLING (key predicates of get and set), R-PAIR (queue mutation <-> size counter on the same path), R-DOM with normalised comparison facts (room before insert, freshness before return, fit before set), R-FLOW (same cached item for body and type; lock guards)",
    "Decides: get and set select on (route, host) of the parameters; pop_front/remove/push_back are each paired with the size update of exactly that item; push_back happens "
    "only under cache_size + value.len() <= cache_limit and after an existing entry for the key was removed; get returns Some(item) only under age(item) <= time limit for the "
    "item the lookup found; the handler calls set only when size_limit >= len, through the write guard, with the bytes it serves, and a hit serves body and type of one cached item. "
    "Operation histories and clock anomalies are not decided.")

CLAIMED["C17"] = ("DESIGN.md §4 C17",
    "R-DOM / R-FLOW (Session::valid established, via Option::filter closure or dominating test, before a token-identified session is confirmed or extended), R-FLOW (token bytes <- OsRng, hex of all 32), R-DOM (one live session; auth route handler under the Ok edge), R-SIBLING (create/verify share the Argon2 constructor and pepper), comparison normalisation (strict expiry)",
    "Decides: every AuthProvider method that looks a user up by token confirms or extends the session only after Session::valid held; tokens are the hex of 32 bytes filled by "
    "OsRng; a new session is stored only when the current one is not valid; sessions are a field of User and removal/invalidate clear them; with_auth_route runs the handler only "
    "under the Ok edge of get_uid_by_token(cookie HumphreyToken) with that uid and answers 401 otherwise; create and verify use create_argon2_instance(pepper) with "
    "self.config.pepper; valid() is the strict now < expiry. Argon2 and token uniqueness are not decided.")

CLAIMED["C18"] = ("DESIGN.md §4 C18",
    "R-TABLE (constants and tables against RFC 3174 / 4648 / 3986 / 9110 oracles; SHA-1 round functions compared by truth table; affine normal forms for offsets), R-SIBLING (Base64 decoder arms share one shift expression), R-DOM (hex-digit gates on both characters before from_str_radix), R-PANIC over the two decoders",
    "Decides: SHA-1 initial values, round constants with their ranges, Ch/Parity/Maj, rotations 1/5/30, big-endian conversions and 0x80 padding; Base64 alphabet, symbol offsets, "
    "masks, shifts and padding; the RFC 3986 unreserved set and %XX form; day/month names, March-first month lengths, epoch and weekday offset, 4/100/400-year day counts, "
    "IMF-fixdate template and field order; every Base64 decoder arm shifts by the same expression; percent_decode tests both characters for hex digits; neither decoder can "
    "panic on malformed input. Bit-exactness of the algorithms for every input is a value property and is not decided.")

CLAIMED["C15"] = ("DESIGN.md §4 C15",
    "R-TABLE (enumerated values, size units, route-kind precedence and types), R-FLOW (error line/file provenance, quoted-value test arguments, defaults), who-may-iterate (no HashMap iteration or non-append mutation feeding host/route lists), R-DOM (node kind by value shape), R-PANIC over the loader (shared engine with C03)",
    "Decides: blacklist mode, load-balancer mode and log level tables with rejection of other values; K/M/G = 1024^k case-insensitively; route kinds are tested in the order "
    "file, directory, proxy, redirect, websocket and each builds its own RouteType from its own key; every ConfigError of the tree parser carries the iterator's current line "
    "(or include's line) and the file, except the documented line 0; hosts and routes are only appended while iterating Vecs in file order, multi-pattern routes expand in "
    "order, trimmed; quoted values are tested with wildcard_match(\"\\\"*\\\"\", value) and node kinds follow the value shape; each optional key has one constant default; "
    "the loader cannot panic. Semantic equality of the loaded configuration is not decided.")

NOT_YET = {}

# clauses added after the independent seeded changes were run against the checks (DESIGN.md §7.5): (extra technique, extra text)
ADDED = {
    "C01": ("", " Also: the keep-alive flag is re-assigned on every path from the parse to its test (no disposition inherited from an earlier request); "
                "the idle timeout is armed only around the one-byte first read and cleared before the rest of the request is read."),
    "C02": ("", " Also: once the stream is wrapped in a BufReader every later read goes through it (no get_mut/into_inner bypass); each X-Forwarded-For "
                "element reaches IpAddr::from_str through trimming only, helpers followed."),
    "C03": ("; abstract execution of the end-of-input scenario of read loops (hv/eofscan)",
            " Also (PROGRESS.eof): every parser loop whose cycle contains an EOF-tolerant read is executed on an abstract store in which the read returned Ok(0) "
            "and the per-cycle buffer is empty; a cycle that comes back to the read with every branch decided is a violation."),
    "C04": ("", " Also: the handler served on a connection is looked up afresh for each request (no handler cached across the loop)."),
    "C06": ("", " Also: the path looked up is request.uri with the route prefix removed exactly once (library: strip_prefix(..).unwrap_or; server: one remove(0) per "
                "pattern character before `*`) and nothing else."),
    "C08": ("", " Also: the recovery thread never returns while the channel is open; no collection of dequeued tasks is alive while a task runs (unwind path)."),
    "C11": ("; R-ARITH quasi-linear decision of the SHA-1 padding arithmetic for every key length",
            " Also: the non-blocking probe restores blocking mode on every return after set_nonblocking succeeded and reads the rest of a frame in blocking mode; "
            "the SHA-1 padding used for Sec-WebSocket-Accept is exact for every input length."),
    "C12": ("", " Also: the poll loop contains no blocking receive / join / wait."),
    "C17": ("", " Also: the Vec<User> database matches users and sessions by whole-string equality of uid / token (predicate closures, helpers and Option::map_or followed)."),
    "C18": ("; R-ARITH (hv/qlin, hv/symx): quasi-linear / piecewise integer expressions extracted from MIR decided for every input by a periodic case split",
            " Also decided for every input: SHA-1 padded length, marker index, bit-count position and value, block-loop bound; HTTP date day number, second of day, "
            "weekday, hour, minute, second as functions of the timestamp."),
    "C19": ("", " Also: every listed X-Forwarded-For element is recorded (trim-only derivation, elements dropped only when IpAddr::from_str rejects them)."),
    "C20": ("", " Also: nothing in the accept cycle blocks other than accept (bounded channels, joins, sleeps are rejected); tokio connection tasks are detached "
                "(no JoinSet / abort handle whose drop would cut responses in flight)."),
}
# clauses added after the second round of seeded changes and the R-BITS / SHA-1 structure work (DESIGN.md §7.2, §7.5)
ADDED2 = {'C01': ('',
         ' Round 2: the body is read exactly when Content-Length is present (one pure test, on every successful path; present -> read, absent -> nothing '
         'read).'),
 'C02': ('',
         " Round 2: same body-iff-Content-Length clause; cookies are the ';'-separated pieces split at their first '=' and trimmed, and get_cookie is the "
         'first of them whose name equals the requested name as a whole string.'),
 'C04': ('', ' Round 2: the matcher and what feeds it compare characters as they are (no case folding / trimming / decoding calls).'),
 'C06': ('', ' Round 2: the value tested for `..` reaches the file-system call through path building only (no decode / rewrite after the test).'),
 'C07': ('',
         ' Also: every Set-Cookie attribute is consulted on every path (no attribute depends on another being absent); between the redirect test and the '
         're-send there is no way out (no hop counter), and the re-send closure branches on the Location value only.'),
 'C09': ('',
         ' Also: a target is selected only for a request that is then relayed to it or answered 502 for it (the rotation advances once per proxied request).'),
 'C11': ('', ' Round 2: the SHA-1 structure and the Base64 encoder used for Sec-WebSocket-Accept are decided by the C18 rules, for every key.'),
 'C12': ('', ' Round 2: sends are write_all on a socket the non-blocking probe always puts back into blocking mode.'),
 'C13': ('',
         " Also: a \\\\u escape's character is char::from_u32(unit), or for a pair char::decode_utf16([first, second]) / the explicit surrogate formula under "
         'proven unit ranges D800..=DBFF and DC00..=DFFF.'),
 'C14': ('', ' Also: Vec<T> conversion in both directions converts every element exactly once (no filtering / skipping / reordering adaptor).'),
 'C15': ('', ' Also: the lines that are counted for error positions are the lines of the file as read (buffer only appended to, never trimmed or rebuilt).'),
 'C16': ('',
         " Also: every operation that changes the queue's contents is one of the accounted ones (pop_front / remove / push_back with its cache_size update); "
         'retain, clear, drain etc. are rejected.'),
 'C17': ('',
         " Round 2: Argon2 is given the whole password argument (reference conversions only); a session's expiry is always now + lifetime (creation and "
         'refresh); the cookie lookup used by authenticated routes is whole-name equality over the parsed cookie list.'),
 'C18': ('; R-BITS bit provenance (hv/bits) for the Base64 encoder; straight-line word-term execution (hv/wordsym) for the SHA-1 structure',
         " Also decided for every input: the Base64 encoder bit by bit with its group slicing; the decoder's grouping, accumulator, shift 18-6i and output "
         'bytes; the whole SHA-1 compression structure by data flow (word load, schedule recurrence, round update, f/K pairing, chaining, digest order).'),
 'C19': ('',
         ' Round 2: nothing between SocketAddr::ip() / IpAddr::from_str and the blacklist comparison rewrites an address (to_ipv4, v4-mapped folding, '
         're-mapping of the parsed list).')}


# clauses added after the refactoring rounds and the third round of seeded changes (DESIGN.md §7.2, §7.5, §7.5b)
ADDED3 = {
 'C01': ('; MIR normalisation (helper inlining, combinator lowering; hv/inline.py)', ' Round 3: no UTF-8-validating read in the request parser (malformed bytes must not look like an I/O failure); '
         'the error map is also read from the MIR; the pool isolation rules of C08 (a panicking handler costs only its own connection, threaded runtime).'),
 'C02': ('; MIR normalisation (hv/inline.py)', " Round 3: the request target is cut at its first '?' and header lines at their first ':' (splitn(2, c) / split_once(c) only)."),
 'C04': ('; MIR normalisation (hv/inline.py)', " Round 3: the path that is matched is the target up to its first '?'; loop and combinator spellings of the three selections are followed."),
 'C06': ('; R-BYTECLASS (hv/byteset.py)', ' Round 3: the index-file loop is left early only with the file found (a missing index.html does not end the search).'),
 'C07': ('', " Round 3: response header lines are cut at their first ':'; every header name the serialiser prints parses back to the same header."),
 'C09': ('', " Round 3: X-Forwarded-For is added on every path to the upstream write; the relayed URI is a copy of request.uri itself; response header lines are cut at their first ':'."),
 'C10': ('; R-BYTECLASS for Opcode::try_from when it is not a match', ''),
 'C12': ('', ' Round 3: when a ping is due every registered stream is pinged (no other condition on the ping).'),
 'C13': ('; R-BYTECLASS over char (hv/byteset.py): escape table, unescaped set, serialiser classes decided for every code point', ''),
 'C14': ('', ' Round 3: primitive IntoJson conversions are unconditional (number -> Number, bool -> Bool, string -> String on every path).'),
 'C15': ('', ' Round 3: string tables are also read from the MIR (match and if-chains alike); the section list is the one list appended to in line order; '
         'no RouteConfig field is taken out of a value an earlier pattern of the same route consumed.'),
 'C16': ('', ' Round 3: every call of set stores the value unless value.len() > cache_limit; size update and queue operation are paired in either order.'),
 'C17': ('; R-BYTECLASS for the per-byte hex encoding of the token', ''),
 'C18': ('; R-BYTECLASS (hv/byteset.py): byte-value sets per block and finite evaluation of byte expressions',
         ' Round 3: percent-encoding (kept = unreserved exactly, escape = % + two upper-case hex digits) and -decoding (literal copy except %, both digits '
         'hexadecimal, value = 16 hi + lo) decided for every byte in any spelling; year / month / day of the HTTP date decided for every timestamp '
         '(400-year reduction symbolically, one 146 097-day cycle exhaustively on the extracted expressions, the month loop by data flow).'),
 'C19': ('; R-TRUTH (hv/booleval.py): truth table of verify_connection over (mode == Block, listed)', ' Round 3: every address of the forwarded chain is tested (not only origin and last hop).'),
 'C20': ('', ' Round 3: tasks queued before the Shutdown message are still run (the pool rules of C08).'),
}


ADDED4 = {
 'C01': ('; abstract end-of-input scenario followed past the loop (hv/eofscan.py)', ' Round 4: at end of input inside the request head the header loop ends in an error (a truncated head is never taken for a complete one).'),
 'C02': ('', ' Round 4: the ordering closure of Headers::iter does not look at the header value (same-named fields keep arrival order); only the last listed X-Forwarded-For address is taken off the forwarded list.'),
 'C03': ('', ' Round 4: no per-token allocation sized by what is left of the input (size_hint / count of the input cursor inside the parser\'s recursion); the end-of-input scenario models iterator predicates over an empty buffer (all / any / first ..).'),
 'C08': ('', ' Round 4: a worker is joined from stop / drop only after the task channel was closed on every path; every start() gives its workers and recovery thread a freshly allocated thread vector.'),
 'C09': ('; abstract end-of-input scenario followed past the loop (hv/eofscan.py)', ' Round 4: when the upstream closes inside the response head the header loop ends in an error (no 200 with half a head).'),
 'C11': ('', ' Round 4: the blocking frame reader is reached only after a data fragment was collected (a Ping / Pong does not switch the non-blocking reader to blocking); the keep-alive timeout is cleared between the timed request read and the WebSocket handler; every read of the blocking decoder is an exact read.'),
 'C12': ('', ' Round 4: the blocking frame reader is reached only mid-message (the poll loop is never parked on one client after a control frame).'),
 'C13': ('; R-SCANNER (hv/charauto.py): the DFA of the number gate extracted from its MIR and compared with the RFC 8259 number grammar; character predicates evaluated per constant-delimited interval',
         ' Round 4: the number gate accepts exactly -?(0|[1-9][0-9]*)(.[0-9]+)?([eE][+-]?[0-9]+)? (language equality with a reference DFA, shortest distinguishing word reported); the token-character predicate contains every literal / number character and none of the characters that may follow a value; no rejection is taken because a length or count is large.'),
 'C15': ('', ' Round 4: every line the tree parser takes from its line iterator goes through clean_up (comments are stripped wherever they stand, including the `server {` line).'),
 'C17': ('', ' Round 4: create_session reads config.default_lifetime and refresh_session reads config.default_refresh_lifetime, and each builder method stores into the field it is named after.'),
 'C19': ('', ' Round 4: the forwarded chain is tested whole (no sub-slice, skip or take between the field and the membership test).'),
 'C20': ('', ' Round 4: the accept loop (threaded and tokio) is left only through the shutdown-flag / cancellation edge, whatever accept() reports; the shutdown path never joins a worker thread.'),
}


ADDED5 = {
 'C02': ('', ' Round 5: received header bytes become text only by UTF-8 decoding (no per-byte cast, no lossy decoder).'),
 'C04': ('', ' Round 5: every route builder appends on every path and no registered entry\'s pattern or handler is rewritten in place.'),
 'C06': ('', ' Round 5: a served file is read whole (read_to_end / read_to_string), never with a single read / read_buf.'),
 'C08': ('', ' Round 5: the shared worker list is never shortened or reordered; the recovery thread joins the dead worker before its slot is given to the replacement.'),
 'C09': ('', ' Round 5: same-named header fields keep their order in the relayed request (the shared header-order rule).'),
 'C10': ('', ' Round 5: no header field is extracted after the two-byte header buffer was reused for the extended length.'),
 'C12': ('', ' Round 5: the poll of a stream does not depend on which handlers are registered.'),
 'C13': ('', ' Round 5: insignificant whitespace — from every token end to the next look at the input a flush_whitespace is passed (directly or as the callee\'s first act).'),
 'C14': ('', ' Round 5: the expansion corpus has fixed members with raw-identifier fields and doc-commented renamed fields / variants (both derives must choose the same key).'),
 'C15': ('', ' Round 5: the Result of every fallible loader step is tested, propagated or mapped-and-collected into a Result (a faulty host / route cannot silently disappear).'),
 'C17': ('', ' Round 5: the stored side of the token comparison is the session\'s own token (no default standing in for a user without a session).'),
 'C19': ('', ' Round 5: header names are matched case-insensitively (the header-name table rule of C02), so X-Forwarded-For is seen under any capitalisation.'),
 'C20': ('', ' Round 5: no reachable panic in the accept cycle (panic-site inventory of the accept closure; reviewed entries re-checked).'),
}


ADDED6 = {
 'C01': ('', ' Round 6: every part of the CORS configuration is consulted on every path that leaves a header unset; end of input inside the head is an error.'),
 'C02': ('', ' Round 6: body bytes are appended as bytes (no text decoding on the way into Vec<u8>); a proxy entry leaves the forwarded chain only as the single last element.'),
 'C04': ('', ' Round 6: whether a request is upgraded to a WebSocket does not depend on the registered HTTP routes.'),
 'C06': ('', ' Round 6: the percent-decoder the handlers use is the C18 decoder rule (two hex digits of either case, value = 16*hi+lo, everything else copied).'),
 'C07': ('', ' Round 6: chunk sizes are parsed as hexadecimal in either case; the head has exactly one CRLF per line and one blank line.'),
 'C08': ('', ' Round 6: a worker\'s id is its index in the worker vector (the recovery thread replaces the slot it was told about).'),
 'C10': ('', ' Round 6: every read of the frame decoder is exact and its failure maps to ReadError only.'),
 'C13': ('', ' Round 6: the Number value is f64::from_str of exactly the scanned token; the serialiser\'s panic-site inventory is empty or reviewed.'),
 'C15': ('', ' Round 6: numeric keys are parsed with the integer type of their documented range.'),
 'C17': ('', ' Round 6: the password is checked only against the user the uid lookup returned; an unknown uid yields false.'),
 'C19': ('', ' Round 6: every line of the blacklist file becomes an entry and every entry is parsed into the enforced list (only blank / comment lines may be left out).'),
 'C20': ('', ' Round 6: the accept cycle makes no blocking socket call; the async accept loop suspends only in the select that also polls the shutdown future.'),
}


ADDED7 = {
 'C01': ('', ' Round 7: the three tokens of the request line are taken exactly (no trimming, no search-and-slice of the target).'),
 'C02': ('', ' Round 7: request-line tokens taken exactly (shared with C01).'),
 'C03': ('', ' Round 7: a str slice bound must be a position in the string that is sliced (not in a case-folded / trimmed copy).'),
 'C04': ('', ' Round 7: which requests count as WebSocket upgrades depends on the Upgrade header alone, in both runtimes.'),
 'C06': ('', ' Round 7: the redirect Location is the whole request target plus "/"; the cache is keyed by the request path as matched (C16 key rule).'),
 'C07': ('', ' Round 7: edits of the header list keep the remaining fields in order; body framing of the response parser depends on the headers only, any HTTP version token is accepted.'),
 'C08': ('', ' Round 7: every execute site is reached only after start() on that pool.'),
 'C09': ('', ' Round 7: response framing by headers / any version (shared with C07); the header-name table is a bijection (shared with C02).'),
 'C10': ('', ' Round 7: the masking key is appended exactly when the mask flag is set.'),
 'C11': ('', ' Round 7: the connection is wrapped as a WebsocketStream only after the handshake returned Ok.'),
 'C12': ('', ' Round 7: every pass walks the stream table anew; a new stream is stored under its own peer address.'),
 'C13': ('', ' Round 7: nothing in the parser folds the case of scanned text.'),
 'C14': ('', ' Round 7: corpus members with the empty key and with fields named like the generated bindings.'),
 'C15': ('', ' Round 7: end of file inside a section is an error in included files too; a host\'s routes are exactly the parsed ones.'),
 'C17': ('', ' Round 7: a renewed expiry is written back on every Ok path of refresh_session.'),
}


ADDED8 = {
 'C02': ('', ' Round 8: every header line read is stored before the next is read (no cap / filter on the fields kept); Request.address is assigned by the parser only.'),
 'C03': ('', ' Round 8: the assumption behind the quoted-value slice — a match of P*S leaves room for both parts — is checked on the matcher (no independent starts_with / ends_with without a length test).'),
 'C06': ('', ' Round 8: the cache stores a value under its own key by remove-then-append (C16 replace / stored rules borrowed), so a served body is the file of the requested path.'),
 'C07': ('', ' Round 8: the end of the chunk list is never an error (empty chunked body); consume(n) only with an amount taken from fill_buf.'),
 'C08': ('', ' Round 8: no panic site between taking a task off the queue and calling it.'),
 'C09': ('', ' Round 8: consume(n) only with an amount taken from fill_buf (shared with C07).'),
 'C10': ('', ' Round 8: every Frame the decoder returns is the aggregate of the parsed header fields, its only errors are ReadError / InvalidOpcode; Frame.payload / Frame.length are not changed after construction; no buffering reader dropped at return and no bare read() larger than the 2 header bytes on the frame path.'),
 'C11': ('', ' Round 8: frame fields frozen, decoder outcomes and no dropped read-ahead (shared with C10).'),
 'C12': ('', ' Round 8: nothing on the poll\'s read path takes bytes off the socket that it does not use (C10 rule); the broadcast send is not inside a short-circuiting adaptor.'),
 'C16': ('', ' Round 8: outside cache.rs the cache is changed through Cache::set only (eviction and insertion are one critical section).'),
 'C14': ('', ' Round 8: the array a tuple struct serialises to is the n-element vector as built; integer FromJson casts the number to its own type (no detour through a narrower integer).'),
 'C15': ('', ' Round 8: matcher assumption behind the quoted-value slice (shared with C03).'),
 'C17': ('', ' Round 8: the user list is searched independently of its order, or no method disturbs the order a binary search relies on; every index / slice site of the auth crate discharges (client-chosen tokens are not sliced by byte position).'),
 'C18': ('', ' Round 8: the encoders\' length arithmetic does not underflow on the empty input.'),
 'C19': ('', ' Round 8: every header line is seen (shared with C02); Request.address is the one derived from this request.'),
 'C20': ('', ' Round 8: the wake-up connect is not retried in a loop between signal and join; worker ids are vector indices (C08 rule; a recovery join of the wrong worker blocks the pool\'s Drop).'),
}


NOT_APPLICABLE = {
    "C05": "Correctness of the wildcard matcher is a language-equivalence fact about a loop with data-dependent backtracking over all "
           "(pattern, text) pairs; no necessary condition visible in the shape of the code separates the current (wrong on '*aab'/'aaab') "
           "matcher from a correct one without executing it, and a shape rule (e.g. 'saves a text position') would fire on correct matchers "
           "of another shape. Its call-site argument roles are decided under C04/C15. See DESIGN.md §4 C05.",
}


def main():
    props = [json.loads(l) for l in open(os.path.join(VERIF, "properties.jsonl"))]
    checks = []
    na = []
    for p in props:
        pid = p["id"]
        if pid in CLAIMED:
            ref, tech, text = CLAIMED[pid]
            if pid in ADDED:
                tech, text = tech + ADDED[pid][0], text + ADDED[pid][1]
            if pid in ADDED2:
                tech, text = tech + ADDED2[pid][0], text + ADDED2[pid][1]
            if pid in ADDED3:
                tech, text = tech + ADDED3[pid][0], text + ADDED3[pid][1]
            if pid in ADDED4:
                tech, text = tech + ADDED4[pid][0], text + ADDED4[pid][1]
            if pid in ADDED5:
                tech, text = tech + ADDED5[pid][0], text + ADDED5[pid][1]
            if pid in ADDED6:
                tech, text = tech + ADDED6[pid][0], text + ADDED6[pid][1]
            if pid in ADDED7:
                tech, text = tech + ADDED7[pid][0], text + ADDED7[pid][1]
            if pid in ADDED8:
                tech, text = tech + ADDED8[pid][0], text + ADDED8[pid][1]
            checks.append({
                "property_id": pid,
                "quick_cmd": f"./check {pid} --tier quick",
                "thorough_cmd": f"./check {pid} --tier thorough",
                "evidence_file": f"/verif/evidence/{pid}.json",
                "replay_cmd_template": f"./check {pid} --replay {{path}}",
                "engine": "hv",
                "level_claimed": {"category": "other", "text": text, "design_ref": ref},
                "level_note": LEVEL_NOTE,
                "technique": "static analysis: " + tech,
            })
        elif pid in NOT_APPLICABLE:
            na.append({"property_id": pid, "reason": NOT_APPLICABLE[pid]})
        else:
            na.append({"property_id": pid, "reason": NOT_YET.get(pid, "check not implemented yet in this revision of /verif (planned in DESIGN.md §4); not claimed until its rule instances are armed and tested")})
    man = {
        "version": 1,
        "setup_cmd": "python3 -m hv.extract A B C D E && python3 -m hv.warm",
        "hooks": {
            "guard": "humphrey_verif",
            "enable": "none needed: the rustc_private driver sees crate-private items; no hook commits exist",
            "baseline_off_cmd": "cd /repo && cargo test --workspace --no-fail-fast --offline",
            "source_commits": [],
            "add_only": True,
        },
        "engines": [
            {"name": "hv-driver", "path": "driver/", "serves_properties": sorted(CLAIMED),
             "kind_free_text": "rustc_private fact extractor (nightly): MIR with resolved callees, drop-elaborated MIR, HIR trees, items, macro token trees; injected as RUSTC_WORKSPACE_WRAPPER under cargo check; nothing is executed"},
            {"name": "hv", "path": "hv/", "serves_properties": sorted(CLAIMED),
             "kind_free_text": "Python rule engine over the extracted facts: table agreement, must-pass-through, dominance (check-then-use), backward slicing/taint, who-may-call, panic-site inventory, lock typestate, macro-arm lints, sibling cross-checks, abstract end-of-input scenario of read loops, quasi-linear integer arithmetic decided for every input, byte / char value-set flow, scanner DFA extraction (finite abstract interpretation of character scanners)"},
        ],
        "checks": checks,
        "not_applicable": na,
        "notes": "Technique family: static analysis only. Every check re-extracts facts from /repo's current working tree (cached by a digest of the sources) and reports file:line, function, rule and instance for each violation. Known genuine defects are listed in known_findings.json.",
    }
    with open(os.path.join(VERIF, "MANIFEST.json"), "w") as fh:
        json.dump(man, fh, indent=1)
    print(f"MANIFEST.json: {len(checks)} checks, {len(na)} not_applicable")


if __name__ == "__main__":
    main()

#!/bin/bash
# run every claimed check (tier = $1, default quick); prints one line per property
tier=${1:-quick}
cd "$(dirname "$0")/.."
rc_all=0
for id in $(python3 -c "import json;print(' '.join(c['property_id'] for c in json.load(open('MANIFEST.json'))['checks']))"); do
  out=$(./check $id --tier $tier 2>&1); rc=$?
  echo "$out" | grep -E "^\[$id\] tier" | head -1
  if [ $rc -ne 0 ]; then echo "   rc=$rc"; echo "$out" | grep -E "violation|VIOLATION|MISSED|FALSE ALARM|error" | head -5; rc_all=1; fi
done
exit $rc_all

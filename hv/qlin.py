"""Quasi-linear integer expressions in one variable (R-ARITH).

An expression built from one variable L >= 0, integer literals, + - , * const, / const (floor) is *quasi-linear*:
there are a period P and a rational slope s with E(L + P) = E(L) + s*P for every L.  P and s are derived symbolically
from the expression tree; two quasi-linear expressions with equal slope that agree on one common period agree for
every L (induction on L), so `forall L. E(L) == R(L)` is decided by a finite case split, not by sampling.
Unsigned overflow is outside the model (stated as an assumption by the callers: L < 2^56).
"""
from fractions import Fraction
from math import gcd

CHECKED = {"AddWithOverflow": "Add", "SubWithOverflow": "Sub", "MulWithOverflow": "Mul"}


class NotQuasiLinear(Exception):
    pass


class Q:
    def __init__(self, fn, period, slope, text):
        self.fn, self.period, self.slope, self.text = fn, period, Fraction(slope), text

    def __call__(self, L):
        return self.fn(L)


def _lcm(a, b):
    return a * b // gcd(a, b)


def const(c):
    return Q(lambda L: c, 1, 0, str(c))


def var(name="L"):
    return Q(lambda L: L, 1, 1, name)


def add(a, b):
    return Q(lambda L: a(L) + b(L), _lcm(a.period, b.period), a.slope + b.slope, f"({a.text} + {b.text})")


def sub(a, b):
    def f(L):
        v = a(L) - b(L)
        if v < 0:
            raise NotQuasiLinear(f"{a.text} - {b.text} is negative at L={L} (would overflow)")
        return v
    return Q(f, _lcm(a.period, b.period), a.slope - b.slope, f"({a.text} - {b.text})")


def mul(a, c):
    return Q(lambda L: a(L) * c, a.period, a.slope * c, f"({a.text} * {c})")


def div(a, c):
    if c <= 0:
        raise NotQuasiLinear("division by a non-positive constant")
    inc = a.slope * a.period            # integer increment of `a` over one of its periods
    if inc.denominator != 1:
        raise NotQuasiLinear("non-integral increment")
    inc = int(inc)
    m = 1 if inc == 0 else c // gcd(abs(inc), c)
    return Q(lambda L: a(L) // c, a.period * m, a.slope / c, f"({a.text} / {c})")


def from_desc(d, is_var, strip=None, name="L"):
    """Build a Q from a core.describe() tree; is_var(d) recognises the variable."""
    if strip:
        d = strip(d)
    if is_var(d):
        return var(name)
    if not isinstance(d, tuple) or not d:
        raise NotQuasiLinear(f"unsupported {d!r}")
    if d[0] == "lit" and isinstance(d[1], int) and not isinstance(d[1], bool):
        return const(d[1])
    if d[0] == "field" and isinstance(d[1], tuple) and d[1][0] == "bin" and d[1][1] in CHECKED and d[2] == 0:
        return from_desc(("bin", CHECKED[d[1][1]], d[1][2], d[1][3]), is_var, strip, name)
    if d[0] == "bin":
        op = d[1]
        if op in CHECKED:
            op = CHECKED[op]
        l = from_desc(d[2], is_var, strip, name)
        r = from_desc(d[3], is_var, strip, name)
        if op == "Add":
            return add(l, r)
        if op == "Sub":
            return sub(l, r)
        if op == "Mul":
            if r.slope == 0 and r.period == 1:
                return mul(l, r(0))
            if l.slope == 0 and l.period == 1:
                return mul(r, l(0))
            raise NotQuasiLinear("product of two non-constants")
        if op == "Div":
            if r.slope == 0 and r.period == 1:
                return div(l, r(0))
            raise NotQuasiLinear("division by a non-constant")
        if op == "Shl" and r.slope == 0 and r.period == 1:
            return mul(l, 1 << r(0))
        if op == "Shr" and r.slope == 0 and r.period == 1:
            return div(l, 1 << r(0))
        if op == "BitAnd" and r.slope == 0 and r.period == 1 and (r(0) + 1) & r(0) == 0 and l.slope.denominator == 1:
            c = r(0) + 1            # x & (2^k - 1) == x - (x / 2^k) * 2^k
            return sub(l, mul(div(l, c), c))
        if op == "Rem" and r.slope == 0 and r.period == 1:
            c = r(0)
            return sub(l, mul(div(l, c), c))
        raise NotQuasiLinear(f"operator {op}")
    raise NotQuasiLinear(f"unsupported node {d[0]}")


def equal_forall(e, ref):
    """(True, None) if e(L) == ref(L) for every L >= 0, else (False, witness L or reason)."""
    if e.slope != ref.slope:
        # slopes differ: they diverge; find the first difference within a few periods
        P = _lcm(e.period, ref.period)
        for L in range(0, 4 * P + 1):
            try:
                if e(L) != ref(L):
                    return False, L
            except NotQuasiLinear as x:
                return False, str(x)
        return False, "slopes differ"
    P = _lcm(e.period, ref.period)
    for L in range(0, P):
        try:
            if e(L) != ref(L):
                return False, L
        except NotQuasiLinear as x:
            return False, str(x)
    return True, None

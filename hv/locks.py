"""R-LOCK: guard typestate on drop-elaborated MIR (forward may-analysis, union at joins)."""
import re

from .core import op_place

GUARD_RX = re.compile(r"(MutexGuard|RwLockReadGuard|RwLockWriteGuard)<")


def is_carrier_ty(ty):
    return bool(GUARD_RX.search(ty)) and not ty.startswith("&") and not ty.startswith("*")


def guard_lock_ty(ty):
    """Protected type T of the first guard mentioned in a carrier type."""
    m = GUARD_RX.search(ty)
    if not m:
        return None
    i = m.end()
    depth = 1
    j = i
    while j < len(ty) and depth:
        if ty[j] == "<":
            depth += 1
        elif ty[j] == ">":
            depth -= 1
        j += 1
    inner = ty[i:j - 1]
    # strip the lifetime argument
    inner = re.sub(r"^'[a-z_0-9]+,\s*", "", inner)
    return inner


def _moved_carriers(op, carriers):
    pl = op_place(op)
    if pl is not None and op.get("k") == "move" and pl["l"] in carriers:
        return {pl["l"]}
    return set()


def analyse(body):
    """Returns dict block -> set of carrier locals live just before the block's terminator."""
    carriers = {l for l, loc in enumerate(body.locals) if is_carrier_ty(loc["ty"])}
    n = len(body.blocks)
    entry = {b: None for b in range(n)}
    entry[0] = frozenset()
    before_term = {}
    work = [0]
    while work:
        b = work.pop()
        st = set(entry[b])
        for s in body.blocks[b]["stmts"]:
            if "pl" not in s:
                continue
            rv = s["rv"]
            ops = []
            if rv["k"] in ("use", "cast", "un", "repeat"):
                ops = [rv["o"]]
            elif rv["k"] == "bin":
                ops = [rv["l"], rv["r"]]
            elif rv["k"] == "agg":
                ops = rv["ops"]
            for o in ops:
                st -= _moved_carriers(o, carriers)
            pl = s["pl"]
            if pl["l"] in carriers and rv["k"] in ("use", "agg", "cast") and not (rv["k"] == "use" and rv["o"].get("k") == "const"):
                st.add(pl["l"])
        before_term[b] = frozenset(st)
        t = body.blocks[b]["term"]
        out = set(st)
        k = t["k"] if t else None
        if k == "call":
            for a in t["args"]:
                out -= _moved_carriers(a, carriers)
            if t["dest"]["l"] in carriers:
                out.add(t["dest"]["l"])
        elif k == "drop":
            if t["pl"]["l"] in carriers and not [e for e in t["pl"]["p"] if e[0] == "f"]:
                out.discard(t["pl"]["l"])
        for s in body.succs(b):
            new = frozenset(out) if entry[s] is None else (entry[s] | out)
            if entry[s] is None or new != entry[s]:
                entry[s] = frozenset(new)
                work.append(s)
    return before_term, carriers


def held_locks(body, block, cache={}):
    key = (body.path, body.config, id(body))
    if key not in cache:
        cache[key] = analyse(body)
    before, carriers = cache[key]
    out = {}
    for l in before.get(block, ()):
        out[l] = guard_lock_ty(body.local_ty(l))
    return out

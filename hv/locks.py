"""R-LOCK: guard typestate on drop-elaborated MIR (forward may-analysis, union at joins)."""
import re

from .core import op_place

GUARD_RX = re.compile(r"(MutexGuard|RwLockReadGuard|RwLockWriteGuard)<")


def is_carrier_ty(ty):
    return bool(GUARD_RX.search(ty)) and not ty.startswith("&") and not ty.startswith("*")


def guard_lock_ty(ty):
    """Protected type T of the first guard mentioned in a carrier type."""
    m = GUARD_RX.search(ty)
    if not m:
        return None
    i = m.end()
    depth = 1
    j = i
    while j < len(ty) and depth:
        if ty[j] == "<":
            depth += 1
        elif ty[j] == ">":
            depth -= 1
        j += 1
    inner = ty[i:j - 1]
    # strip the lifetime argument
    inner = re.sub(r"^'[a-z_0-9]+,\s*", "", inner)
    return inner


def _moved_carriers(op, carriers):
    pl = op_place(op)
    if pl is not None and op.get("k") == "move" and pl["l"] in carriers:
        return {pl["l"]}
    return set()


def analyse(body):
    """Returns dict block -> set of carrier locals that may be live just before the block's terminator.
    The forward analysis runs on the product with the variant tags of hv.absreach (which variant a Result / Option local holds),
    so `match lock() { Ok(g) => .., Err(_) => .. }` followed by the compiler's "drop unless it was the Ok arm" test is followed
    arm by arm instead of being merged."""
    from . import absreach
    carriers = {l for l, loc in enumerate(body.locals) if is_carrier_ty(loc["ty"])}
    store = absreach.Store(body)
    before_term = {}
    seen = set()
    work = [(0, frozenset(), ())]
    while work:
        b, live, tags = work.pop()
        key = (b, live, tags)
        if key in seen:
            continue
        seen.add(key)
        st = set(live)
        for s in body.blocks[b]["stmts"]:
            if "pl" not in s:
                continue
            rv = s["rv"]
            ops = []
            if rv["k"] in ("use", "cast", "un", "repeat"):
                ops = [rv["o"]]
            elif rv["k"] == "bin":
                ops = [rv["l"], rv["r"]]
            elif rv["k"] == "agg":
                ops = rv["ops"]
            for o in ops:
                st -= _moved_carriers(o, carriers)
            pl = s["pl"]
            if pl["l"] in carriers and rv["k"] in ("use", "agg", "cast") and not (rv["k"] == "use" and rv["o"].get("k") == "const"):
                st.add(pl["l"])
        before_term[b] = before_term.get(b, frozenset()) | frozenset(st)
        t = body.blocks[b]["term"]
        out = set(st)
        k = t["k"] if t else None
        if k == "call":
            for a in t["args"]:
                out -= _moved_carriers(a, carriers)
            if t["dest"]["l"] in carriers:
                out.add(t["dest"]["l"])
        elif k == "drop":
            proj = t["pl"]["p"]
            if t["pl"]["l"] in carriers and not [e for e in proj if e[0] == "f"]:
                out.discard(t["pl"]["l"])
            elif t["pl"]["l"] in carriers and any(e[0] == "dc" for e in proj):
                # dropping the payload of the variant the value is in (`Err(poisoned) => ..`): if that payload is what carries
                # the guard, nothing guard-bearing is left in the enum value
                fl = [e for e in proj if e[0] == "f"]
                if fl and len(fl[-1]) > 2 and GUARD_RX.search(str(fl[-1][2])):
                    out.discard(t["pl"]["l"])
        tagd = store.transfer_block(b, dict(tags))
        # keep only variant / discriminant facts: the lock analysis does not need flags or emptiness, and fewer facts = fewer states
        for nx, st2 in absreach.refined_succs(store, b, tagd):
            slim = tuple(sorted((k_, v_) for k_, v_ in st2.items() if k_[0] in ("var", "discr")))
            work.append((nx, frozenset(out), slim))
    return before_term, carriers


def held_locks(body, block, cache={}):
    key = (body.path, body.config, id(body))
    if key not in cache:
        cache[key] = analyse(body)
    before, carriers = cache[key]
    out = {}
    for l in before.get(block, ()):
        out[l] = guard_lock_ty(body.local_ty(l))
    return out

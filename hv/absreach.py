"""B1: reachability on the product of the CFG with a finite abstract store.

Tracked items: boolean user locals whose every assignment is a constant (or a copy/negation of another tracked
boolean), and emptiness of local Vec/VecDeque/String values (new/with_capacity -> empty; push*/insert/extend -> non-empty is
only asserted for push/insert; any other &mut use -> unknown). A switch on a tracked boolean, or on the result of
`is_empty()` of a tracked collection, with a known value follows only the consistent edge. This is an abstract
interpretation over a finite lattice; no solver is involved."""
from collections import deque

from . import core
from .core import op_local


def _root(body, l, depth=0):
    """(local, negated) following single-def copies / Not / refs."""
    neg = False
    for _ in range(10):
        ds = [d for d in body.defs().get(l, []) if not (d[2] == "assign" and d[3]["pl"]["p"])]
        if len(ds) != 1 or ds[0][2] != "assign":
            break
        rv = ds[0][3]["rv"]
        if rv["k"] == "use" and op_local(rv["o"]) is not None and not rv["o"]["pl"]["p"]:
            l = op_local(rv["o"])
        elif rv["k"] == "un" and rv["op"] == "Not" and op_local(rv["o"]) is not None:
            l = op_local(rv["o"])
            neg = not neg
        elif rv["k"] == "ref" and not [e for e in rv["pl"]["p"] if e[0] != "d"]:
            l = rv["pl"]["l"]
        else:
            break
    return l, neg


class _StdOnly:
    """Stand-in for a Program when only std enums (Result / Option / ControlFlow) need decoding."""
    enums = {}
    structs = {}


class Store:
    def __init__(self, body, prog=None):
        self.body = body
        # (user enums are decoded through the program the body belongs to when the caller did not hand it over)
        self.prog = prog or core.prog_of(body) or _StdOnly()
        self.flags = set()
        self.colls = set()
        for l, loc in enumerate(body.locals):
            if loc.get("user") and loc["ty"].startswith(("std::vec::Vec<", "std::collections::VecDeque<", "std::string::String")):
                self.colls.add(l)
        # boolean locals that are only written by plain assignments / call results and never borrowed mutably: a constant (or a copy of a
        # known flag) makes the value known, any other write makes it unknown again
        cand = {l for l, loc in enumerate(body.locals) if loc["ty"] == "bool" and l > body.argc}
        for blk in body.blocks:
            for s_ in blk["stmts"]:
                rv = s_.get("rv")
                if rv and rv.get("k") in ("ref", "rawptr") and rv.get("mut") and rv["pl"]["l"] in cand:
                    cand.discard(rv["pl"]["l"])
        for l in list(cand):
            ds = body.defs().get(l, [])
            if not ds or any(d[2] not in ("assign", "call") or (d[2] == "assign" and d[3]["pl"]["p"]) for d in ds):
                cand.discard(l)
        self.flags = cand

    def _variant_behind(self, op, st, depth=0):
        """Variant name of the enum value an operand refers to (through `&`, `&*`, copies and promoted constants), when the store knows it."""
        if depth > 6 or op is None:
            return None
        if op.get("k") == "const":
            if "def" in op and "promoted" in op and self.prog is not None and hasattr(self.prog, "bodies"):
                pb = self.prog.bodies.get(f"{op['def']}::promoted[{op['promoted']}]")
                if pb is not None:
                    aggs = [s_["rv"] for blk in pb.blocks for s_ in blk["stmts"] if s_.get("rv") and s_["rv"].get("k") == "agg" and s_["rv"].get("agg") == "adt" and s_["rv"].get("variant")]
                    if len(aggs) == 1 and not aggs[0].get("ops"):
                        return aggs[0]["variant"]
            return None
        l = op_local(op)
        if l is None:
            return None
        if [e for e in op["pl"]["p"] if e[0] != "d"]:
            return None
        if ("var", l) in st and not op["pl"]["p"]:
            return st[("var", l)]
        ds = [d for d in self.body.defs().get(l, []) if not (d[2] == "assign" and d[3]["pl"]["p"])]
        if len(ds) != 1 or ds[0][2] != "assign":
            return st.get(("var", l))
        rv = ds[0][3]["rv"]
        if rv["k"] == "use":
            return self._variant_behind(rv["o"], st, depth + 1)
        if rv["k"] == "ref" and not [e for e in rv["pl"]["p"] if e[0] != "d"]:
            if ("var", rv["pl"]["l"]) in st:
                return st[("var", rv["pl"]["l"])]
            return self._variant_behind({"k": "copy", "pl": {"l": rv["pl"]["l"], "p": []}}, st, depth + 1)
        return None

    def transfer_block(self, b, st):
        st = dict(st)
        blk = self.body.blocks[b]
        for s in blk["stmts"]:
            if "pl" not in s:
                continue
            if s["pl"]["p"]:
                # a write through a projection invalidates what is known about the variant of the root
                st.pop(("var", s["pl"]["l"]), None)
                st.pop(("pvar", s["pl"]["l"]), None)
                continue
            l = s["pl"]["l"]
            rv = s["rv"]
            # a tuple built from tracked booleans (`match (c, after_comma)`): its fields keep their values
            for k_ in [k_ for k_ in st if k_[0] == "tflag" and k_[1] == l]:
                del st[k_]
            if rv["k"] == "agg" and rv.get("agg") == "tuple":
                for i_, o_ in enumerate(rv["ops"]):
                    if o_.get("k") == "const" and isinstance(o_.get("v"), bool):
                        st[("tflag", l, i_)] = o_["v"]
                    elif op_local(o_) is not None and not o_["pl"]["p"]:
                        r_, neg_ = _root(self.body, op_local(o_))
                        if ("flag", r_) in st:
                            st[("tflag", l, i_)] = st[("flag", r_)] != neg_
            # variant tags: which enum variant a local holds (and, one level down, which variant its single payload holds:
            # `Poll::Ready(Err(e))` handed from an inlined awaited helper to the caller's `?`)
            st.pop(("pvar", l), None)
            if rv["k"] == "agg" and rv.get("agg") == "adt" and rv.get("variant"):
                st[("var", l)] = rv["variant"]
                if len(rv.get("ops") or []) == 1 and op_local(rv["ops"][0]) is not None and not rv["ops"][0]["pl"]["p"] and ("var", op_local(rv["ops"][0])) in st:
                    st[("pvar", l)] = (rv["variant"], st[("var", op_local(rv["ops"][0]))])
            elif rv["k"] == "use" and op_local(rv["o"]) is not None and not rv["o"]["pl"]["p"] and ("var", op_local(rv["o"])) in st:
                st[("var", l)] = st[("var", op_local(rv["o"]))]
                if ("pvar", op_local(rv["o"])) in st:
                    st[("pvar", l)] = st[("pvar", op_local(rv["o"]))]
            elif rv["k"] == "use" and op_local(rv["o"]) is not None and ("pvar", op_local(rv["o"])) in st and \
                    [e[0] for e in rv["o"]["pl"]["p"]] == ["dc", "f"] and rv["o"]["pl"]["p"][0][1] == st[("pvar", op_local(rv["o"]))][0] and rv["o"]["pl"]["p"][1][1] == 0:
                st[("var", l)] = st[("pvar", op_local(rv["o"]))][1]
                st.pop(("discr", l), None)
            elif rv["k"] == "discr" and not rv["pl"]["p"] and ("var", rv["pl"]["l"]) in st:
                st[("discr", l)] = st[("var", rv["pl"]["l"])]
            else:
                st.pop(("var", l), None)
                st.pop(("discr", l), None)
            st.pop(("dval", l), None)
            if rv["k"] == "use" and op_local(rv["o"]) is not None and not rv["o"]["pl"]["p"] and ("dval", op_local(rv["o"])) in st:
                st[("dval", l)] = st[("dval", op_local(rv["o"]))]
            if l in self.flags and rv["k"] == "bin" and rv["op"] in ("Eq", "Ne"):
                a_, b_ = op_local(rv["l"]), op_local(rv["r"])
                if a_ is not None and b_ is not None and ("dval", a_) in st and ("dval", b_) in st:
                    st[("flag", l)] = (st[("dval", a_)] == st[("dval", b_)]) == (rv["op"] == "Eq")
                    continue
            if l in self.flags:
                if s["rv"]["k"] == "use":
                    o = s["rv"]["o"]
                    if o.get("k") == "const":
                        st[("flag", l)] = bool(o.get("v"))
                    else:
                        src = op_local(o)
                        if ("flag", src) in st and not o["pl"]["p"]:
                            st[("flag", l)] = st[("flag", src)]
                        else:
                            st.pop(("flag", l), None)
                elif s["rv"]["k"] == "un" and s["rv"]["op"] == "Not" and op_local(s["rv"]["o"]) is not None and ("flag", op_local(s["rv"]["o"])) in st:
                    st[("flag", l)] = not st[("flag", op_local(s["rv"]["o"]))]
                else:
                    st.pop(("flag", l), None)
        t = blk["term"]
        if t and t["k"] == "call" and t.get("dest") is not None and not t["dest"]["p"]:
            nm = t.get("callee") or ""
            dl_ = t["dest"]["l"]
            st.pop(("flag", dl_), None)
            st.pop(("dval", dl_), None)
            if nm.endswith("intrinsics::discriminant_value") and t.get("args"):
                # derived `PartialEq` of a field-less enum compares `discriminant_value(&a) == discriminant_value(&b)`
                vn = self._variant_behind(t["args"][0], st)
                if vn is not None:
                    st[("dval", dl_)] = vn
            a0 = op_local(t["args"][0]) if t.get("args") and t["args"][0].get("pl") and not t["args"][0]["pl"]["p"] else None
            tag = st.get(("var", a0)) if a0 is not None else None
            new = None
            dty = self.body.local_ty(dl_) or ""
            if nm.endswith("Try::branch") and tag in ("Ok", "Some"):
                new = "Continue"
            elif nm.endswith("Try::branch") and tag in ("Err", "None"):
                new = "Break"
            elif nm.endswith("FromResidual::from_residual"):
                new = "Err" if dty.startswith("std::result::Result") else ("None" if dty.startswith("std::option::Option") else None)
            elif core.re.search(r"Result::<T, E>::(map_err|map|or_else|and_then)$", nm) and tag in ("Ok", "Err"):
                new = tag if not nm.endswith(("or_else", "and_then")) else None
            elif core.re.search(r"Option::<T>::(map|filter)$", nm) and tag == "None":
                new = "None"
            elif nm.endswith("Result::<T, E>::ok") and tag in ("Ok", "Err"):
                new = "Some" if tag == "Ok" else "None"
            elif core.re.search(r"Option::<T>::(ok_or|ok_or_else)$", nm) and tag in ("Some", "None"):
                new = "Ok" if tag == "Some" else "Err"
            # predicates on a value whose variant is known: `step().is_continue()`, `r.is_ok()`
            if tag is not None and dl_ in self.flags:
                m_ = core.re.search(r"::(is_ok|is_err|is_some|is_none|is_continue|is_break)$", nm)
                if m_:
                    yes = {"is_ok": ("Ok",), "is_err": ("Err",), "is_some": ("Some",), "is_none": ("None",), "is_continue": ("Continue",), "is_break": ("Break",)}[m_.group(1)]
                    st[("flag", dl_)] = tag in yes
            if new is not None:
                st[("var", dl_)] = new
            else:
                st.pop(("var", dl_), None)
            st.pop(("discr", dl_), None)
            st.pop(("pvar", dl_), None)
        if t and t["k"] == "call":
            name = t.get("callee") or ""
            dest = t["dest"]["l"]
            if dest in self.colls and (name.endswith("::new") or "with_capacity" in name):
                st[("coll", dest)] = False   # empty
            elif t["args"]:
                r, _ = _root(self.body, op_local(t["args"][0])) if op_local(t["args"][0]) is not None else (None, False)
                if r in self.colls:
                    if core.re.search(r"::(push|push_back|push_front|insert|push_str)$", name):
                        st[("coll", r)] = True
                    elif core.re.search(r"::(len|is_empty|iter|last|first|get|as_str|as_slice|deref|as_ref|capacity|contains|clone)$", name) or "Deref" in name:
                        pass
                    else:
                        mut = (t.get("arg_tys") or [""])[0].startswith("&mut")
                        if mut:
                            st.pop(("coll", r), None)
        return st

    def feasible_succs(self, b, st):
        body = self.body
        t = body.term(b)
        succs = body.succs(b)
        if t and t["k"] == "switch" and t.get("discr_ty") != "bool":
            dl0 = op_local(t["discr"])
            name = st.get(("discr", dl0)) if dl0 is not None else None
            if name is not None:
                info = core.switch_info(self.prog, body, b)
                if info and info.get("kind") == "enum" and name in info["edges"]:
                    return [info["edges"][name]]
            return succs
        if not t or t["k"] != "switch" or t.get("discr_ty") != "bool":
            return succs
        dl = op_local(t["discr"])
        if dl is None:
            return succs
        r, neg = _root(body, dl)
        val = None
        dpl = core.op_place(t["discr"])
        fproj = [e for e in dpl["p"] if e[0] != "d"] if dpl else []
        if not fproj:
            # a copy of a tuple field: `_x = copy (_t.1)`
            ds0 = [d for d in body.defs().get(r, []) if not (d[2] == "assign" and d[3]["pl"]["p"])]
            if len(ds0) == 1 and ds0[0][2] == "assign" and ds0[0][3]["rv"]["k"] == "use" and core.op_place(ds0[0][3]["rv"]["o"]) is not None:
                pl0 = core.op_place(ds0[0][3]["rv"]["o"])
                f0 = [e for e in pl0["p"] if e[0] != "d"]
                if len(f0) == 1 and f0[0][0] == "f":
                    dpl, fproj = pl0, f0
        if len(fproj) == 1 and fproj[0][0] == "f" and ("tflag", dpl["l"], fproj[0][1]) in st:
            val = st[("tflag", dpl["l"], fproj[0][1])]
            neg = neg if dpl is not core.op_place(t["discr"]) else False
        elif fproj:
            return succs
        elif r in self.flags and ("flag", r) in st:
            val = st[("flag", r)]
        else:
            ds = body.defs().get(r, [])
            if len(ds) == 1 and ds[0][2] == "call" and (ds[0][3].get("callee") or "").endswith("::is_empty") and ds[0][3]["args"]:
                c, _ = _root(body, op_local(ds[0][3]["args"][0])) if op_local(ds[0][3]["args"][0]) is not None else (None, False)
                if c in self.colls and ("coll", c) in st:
                    val = not st[("coll", c)]
        if val is None:
            return succs
        if neg:
            val = not val
        f = None
        for v, tgt in t["targets"]:
            if v == 0:
                f = tgt
        tr = t["otherwise"]
        if f is None:
            f = t["otherwise"]
        return [tr] if val else [f]


def refined_succs(store, b, st):
    """[(successor, store on that edge)]: like feasible_succs, and an edge of a `match` on an enum local records which variant it is."""
    body = store.body
    out = []
    t = body.term(b)
    succs = store.feasible_succs(b, st)
    info = None
    src = None
    if t and t["k"] == "switch" and t.get("discr_ty") != "bool":
        info = core.switch_info(store.prog, body, b)
        if info and info.get("kind") == "enum" and info.get("src") is not None and not info["src"]["p"]:
            src = info["src"]["l"]
    for nx in succs:
        st2 = st
        if src is not None:
            names = [v for v, tgt in info["edges"].items() if tgt == nx]
            if len(names) == 1:
                st2 = dict(st)
                st2[("var", src)] = names[0]
        out.append((nx, st2))
    return out


def reach(body, starts, init=None, removed_nodes=(), removed_edges=(), reset_at=()):
    """Product reachability. `starts`: blocks entered with store `init` (dict). Returns dict block -> list of stores,
    and a parent map for witnesses. Blocks in `reset_at` forget the store on entry."""
    store = Store(body)
    removed_nodes = set(removed_nodes)
    removed_edges = set(removed_edges)
    seen = {}
    parent = {}
    dq = deque()
    for s in starts:
        if s in removed_nodes:
            continue
        k = (s, tuple(sorted((init or {}).items())))
        seen[k] = True
        dq.append((s, dict(init or {})))
    while dq:
        b, st = dq.popleft()
        if b in reset_at:
            st = {}
        out = store.transfer_block(b, st)
        for nx in store.feasible_succs(b, out):
            if nx in removed_nodes or (b, nx) in removed_edges:
                continue
            k = (nx, tuple(sorted(out.items())))
            if k in seen:
                continue
            seen[k] = True
            parent[k] = (b, tuple(sorted(st.items())))
            dq.append((nx, out))
    blocks = {}
    for (b, stt) in seen:
        blocks.setdefault(b, []).append(dict(stt))
    return blocks, parent


def must_pass(body, from_blocks, to_blocks, through_nodes=(), through_edges=(), init=None, after_from=True, prog=None):
    """Like core.must_pass but on the product graph. The store at a from-site is `init` after executing the
    from block's own transfer. Returns None or a witness list of blocks."""
    store = Store(body, prog)
    starts = []
    through_nodes = set(through_nodes)
    for f in from_blocks:
        st0 = store.transfer_block(f, dict(init or {}))
        if after_from:
            for s in store.feasible_succs(f, st0):
                if s not in through_nodes and (f, s) not in set(through_edges):
                    starts.append((s, st0))
        else:
            starts.append((f, dict(init or {})))
    removed_edges = set(through_edges)
    seen = {}
    parent = {}
    dq = deque()
    for s, st in starts:
        k = (s, tuple(sorted(st.items())))
        if k not in seen:
            seen[k] = None
            dq.append((s, st))
    to = set(to_blocks)
    while dq:
        b, st = dq.popleft()
        if b in to:
            # witness
            path = [b]
            k = (b, tuple(sorted(st.items())))
            while seen.get(k) is not None:
                k = seen[k]
                path.append(k[0])
            return list(reversed(path))
        out = store.transfer_block(b, st)
        for nx in store.feasible_succs(b, out):
            if nx in through_nodes or (b, nx) in removed_edges:
                continue
            k = (nx, tuple(sorted(out.items())))
            if k in seen:
                continue
            seen[k] = (b, tuple(sorted(st.items())))
            dq.append((nx, out))
    return None


def stores_at(body, blocks):
    """Abstract stores possible on entry to each of `blocks` (forward product reachability from the entry)."""
    allb, _ = reach(body, [0])
    out = []
    for b in blocks:
        for st in allb.get(b, []):
            if st not in out:
                out.append(st)
    return out


def must_pass_from_entry(body, from_blocks, to_blocks, through_nodes=(), through_edges=()):
    """must_pass where the store at each from-site is every store the entry analysis finds there."""
    for f in from_blocks:
        sts = stores_at(body, [f]) or [{}]
        for st in sts:
            w = must_pass(body, [f], to_blocks, through_nodes, through_edges, init=st)
            if w is not None:
                return w
    return None


def feasible_from(body, starts, prog=None, init=None, stop=()):
    """Blocks reachable from `starts` on the product with the finite store (flags, emptiness, variant tags); blocks in `stop` are reached
    but not left."""
    store = Store(body, prog)
    seen = {}
    dq = deque()
    for s in starts:
        k = (s, tuple(sorted((init or {}).items())))
        if k not in seen:
            seen[k] = True
            dq.append((s, dict(init or {})))
    while dq:
        b, st = dq.popleft()
        if b in stop:
            continue
        out = store.transfer_block(b, st)
        for nx in store.feasible_succs(b, out):
            k = (nx, tuple(sorted(out.items())))
            if k in seen:
                continue
            seen[k] = True
            dq.append((nx, out))
    return {b for (b, _) in seen}

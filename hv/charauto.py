"""R-SCANNER: the language a character scanner accepts, extracted from its MIR as a finite automaton.

A predicate `fn(&str) -> bool` that looks at its argument only through one character iterator (`s.chars()`, optionally `.peekable()`), with
`next` / `peek` / `next_if(closure)` / `next_if_eq(&c)`, local booleans, small counters and Option values, is a deterministic finite-state
machine: its configuration is (call stack, values of the live locals, the buffered look-ahead character), and counters only ever matter up to
the largest constant they are compared with (they saturate above it).  This module explores that configuration graph exhaustively — every
configuration that asks for the next input character is expanded once per character class and for end of input — and so obtains the exact
DFA of the function.  The DFA is then compared with a reference DFA (product construction, shortest distinguishing word reported).

This is an abstract interpretation over a finite domain: the only abstractions are the quotient of `char` by the intervals between the
constants the code compares characters with, and counter saturation.  Nothing is sampled: all configurations are visited.  Anything outside
the modelled operations (a slice of the string, its length, a write through a reference, an unknown call) makes the result `undecided`,
never a verdict.
"""
from . import core

S = ("S",)
UNIT = ("u",)


class Undecided(Exception):
    pass


ASCII_PRED = {
    "is_ascii_digit": lambda c: 48 <= c <= 57,
    "is_ascii_hexdigit": lambda c: 48 <= c <= 57 or 65 <= c <= 70 or 97 <= c <= 102,
    "is_ascii_alphabetic": lambda c: 65 <= c <= 90 or 97 <= c <= 122,
    "is_ascii_alphanumeric": lambda c: 48 <= c <= 57 or 65 <= c <= 90 or 97 <= c <= 122,
    "is_ascii_lowercase": lambda c: 97 <= c <= 122,
    "is_ascii_uppercase": lambda c: 65 <= c <= 90,
    "is_ascii_whitespace": lambda c: c in (9, 10, 12, 13, 32),
    "is_ascii_punctuation": lambda c: 33 <= c <= 47 or 58 <= c <= 64 or 91 <= c <= 96 or 123 <= c <= 126,
    "is_ascii_control": lambda c: c < 32 or c == 127,
    "is_ascii_graphic": lambda c: 33 <= c <= 126,
    "is_ascii": lambda c: c < 128,
}
# interval boundaries of the predicates above
PRED_BOUNDS = [0, 9, 10, 11, 12, 13, 14, 32, 33, 48, 58, 65, 71, 91, 97, 103, 123, 127, 128]


def _is_stream_ty(ty):
    ty = ty.strip()
    while ty.startswith("&"):
        ty = ty[1:].lstrip()
        if ty.startswith("mut "):
            ty = ty[4:]
        if ty.startswith("'"):
            ty = ty.split(" ", 1)[1] if " " in ty else ty
    return ty.startswith(("std::iter::Peekable<", "std::str::Chars<", "core::str::Chars<", "core::iter::Peekable<"))


class Frame:
    __slots__ = ("path", "blk", "env", "cont", "skip")

    def __init__(self, path, blk, env, cont, skip=False):
        self.path, self.blk, self.env, self.cont, self.skip = path, blk, env, cont, skip

    def freeze(self):
        return (self.path, self.blk, tuple(sorted(self.env.items())), self.cont, self.skip)

    @staticmethod
    def thaw(t):
        return Frame(t[0], t[1], dict(t[2]), t[3], t[4])


class Scanner:
    def __init__(self, prog, root):
        self.prog = prog
        self.root = root
        fam = [root] + sorted(p for p in prog.bodies if p.startswith(root + "::"))
        for p in prog.reach_bodies([root]):
            if p not in fam:
                fam.append(p)
        self.family = fam
        chars, ints = set(), set()

        def walk(x):
            if isinstance(x, dict):
                if x.get("k") == "const" and "v" in x and not isinstance(x["v"], bool) and isinstance(x["v"], int):
                    (chars if x.get("ty") == "char" or "ch" in x else ints).add(x["v"])
                for k_, y in x.items():
                    if k_ == "targets" and x.get("discr_ty") in ("char", "u32", "u8"):
                        for v_, _ in y:
                            chars.add(v_)
                    walk(y)
            elif isinstance(x, list):
                for y in x:
                    walk(y)
        seen_defs = set()

        def const_bodies(x):
            # tables the family refers to by name (or through a promoted reference to one)
            if isinstance(x, dict):
                if x.get("k") == "const" and "def" in x:
                    d_ = f"{x['def']}::promoted[{x['promoted']}]" if "promoted" in x else x["def"]
                    cb_ = prog.bodies.get(d_)
                    if cb_ is not None and d_ not in seen_defs and (("promoted" in x) or cb_.kind in ("const", "static")):
                        seen_defs.add(d_)
                        walk(cb_.blocks)
                        const_bodies(cb_.blocks)
                for y in x.values():
                    const_bodies(y)
            elif isinstance(x, list):
                for y in x:
                    const_bodies(y)
        for p in fam:
            b = prog.bodies.get(p)
            if b is not None:
                walk(b.blocks)
                const_bodies(b.blocks)
        self.cap = max([i for i in ints if i < 1000] + [1]) + 2
        cuts = set(PRED_BOUNDS) | {0, 0x110000}
        for c in chars:
            if 0 <= c <= 0x10FFFF:
                cuts.add(c)
                cuts.add(c + 1)
        cuts = sorted(x for x in cuts if 0 <= x <= 0x110000)
        # one representative (the lowest code point) per interval; surrogates are not chars
        self.alphabet = [lo for lo, hi in zip(cuts, cuts[1:]) if not (0xD800 <= lo <= 0xDFFF)]
        self.steps = 0

    # ------------------------------------------------------------------ values
    def const(self, o, frame):
        if "v" in o:
            v = o["v"]
            if isinstance(v, bool):
                return ("b", v)
            if o.get("ty") == "char" or "ch" in o:
                return ("c", v)
            if isinstance(v, int):
                return ("i", v)
            return None
        if "def" in o and "promoted" in o:
            pb = self.prog.bodies.get(f"{o['def']}::promoted[{o['promoted']}]")
            if pb is None:
                raise Undecided("promoted constant without a body")
            return self.pure(pb)
        if "fn" in o:
            return ("fn", o["fn"])
        if "def" in o and "promoted" not in o:
            cb = self.prog.bodies.get(o["def"])
            if cb is not None and cb.kind in ("const", "static"):
                return self.pure(cb)       # a named table: `const WHITESPACE: [char; 4] = [..]`
        if o.get("ty") == "()":
            return UNIT
        return None

    def pure(self, body):
        """value of a straight-line constant body"""
        fr = Frame(body.path, 0, {}, None)
        for _ in range(50):
            blk = body.blocks[fr.blk]
            for s in blk["stmts"]:
                self.stmt(fr, body, s)
            t = blk["term"]
            if t["k"] == "return":
                return fr.env.get(0)
            if t["k"] in ("goto", "drop", "false_edge", "false_unwind"):
                fr.blk = t["target"]
                continue
            raise Undecided("constant body with control flow")
        raise Undecided("constant body too long")

    def place(self, fr, body, pl):
        ty = body.local_ty(pl["l"]) or ""
        if _is_stream_ty(ty) and not [e for e in pl["p"] if e[0] == "f"]:
            return S
        v = fr.env.get(pl["l"])
        for e in pl["p"]:
            if v is None:
                return None
            if e[0] in ("d", "dc"):
                continue
            if e[0] == "f":
                if len(e) > 2 and _is_stream_ty(str(e[2])):
                    return S
                if v[0] == "t":
                    v = v[1][e[1]] if e[1] < len(v[1]) else None
                elif v[0] == "v":
                    v = v[2] if e[1] == 0 else None
                elif v[0] == "cl":
                    v = v[2][e[1]] if e[1] < len(v[2]) else None
                else:
                    return None
            else:
                return None
        return v

    def operand(self, fr, body, o):
        if o.get("k") == "const":
            return self.const(o, fr)
        return self.place(fr, body, o["pl"])

    def sat(self, n):
        return ("i", n) if n < self.cap else ("i+", self.cap)

    def binop(self, op, l, r):
        if l is None or r is None:
            return None
        if l[0] == "c" and r[0] == "c" or l[0] == "b" and r[0] == "b":
            a, b = l[1], r[1]
            t = {"Eq": a == b, "Ne": a != b, "Lt": a < b, "Le": a <= b, "Gt": a > b, "Ge": a >= b}
            if op in t:
                return ("b", t[op])
            if l[0] == "b" and op in ("BitAnd", "BitOr", "BitXor"):
                return ("b", {"BitAnd": a and b, "BitOr": a or b, "BitXor": a != b}[op])
            return None
        if l[0] in ("i", "i+") and r[0] in ("i", "i+"):
            if l[0] == "i" and r[0] == "i":
                a, b = l[1], r[1]
                t = {"Eq": a == b, "Ne": a != b, "Lt": a < b, "Le": a <= b, "Gt": a > b, "Ge": a >= b}
                if op in t:
                    return ("b", t[op])
                if op in ("Add", "AddWithOverflow", "AddUnchecked"):
                    v = self.sat(a + b)
                    return v if op != "AddWithOverflow" else ("t", (v, ("b", False)))
                if op in ("Sub", "SubWithOverflow") and a >= b:
                    v = ("i", a - b)
                    return v if op == "Sub" else ("t", (v, ("b", False)))
                return None
            # one side is "cap or more"
            big, other, flip = (l, r, False) if l[0] == "i+" else (r, l, True)
            if other[0] == "i" and other[1] < self.cap:
                # big > other
                t = {"Eq": False, "Ne": True, "Lt": False, "Le": False, "Gt": True, "Ge": True}
                if flip:
                    t = {"Eq": False, "Ne": True, "Lt": True, "Le": True, "Gt": False, "Ge": False}
                if op in t:
                    return ("b", t[op])
                if op in ("Add", "AddWithOverflow"):
                    v = ("i+", self.cap)
                    return v if op == "Add" else ("t", (v, ("b", False)))
            if other[0] == "i+" and op in ("Add", "AddWithOverflow"):
                v = ("i+", self.cap)
                return v if op == "Add" else ("t", (v, ("b", False)))
            return None
        return None

    def rvalue(self, fr, body, rv):
        k = rv["k"]
        if k == "use":
            return self.operand(fr, body, rv["o"])
        if k == "cast":
            v = self.operand(fr, body, rv["o"])
            if v is not None and v[0] in ("i", "i+", "b", "S"):
                return v
            if v is not None and v[0] == "arr" and "Unsize" in str(rv.get("ck")):
                return v        # `&[char; N]` as `&[char]`
            if v is not None and v[0] == "c":
                return ("cc", v[1])     # a char's code as a number: only compared, never counted
            return None
        if k in ("ref", "rawptr"):
            return self.place(fr, body, rv["pl"])
        if k == "bin":
            l, r = self.operand(fr, body, rv["l"]), self.operand(fr, body, rv["r"])
            # numeric comparisons of a char's code point with a constant
            if l is not None and r is not None and {l[0], r[0]} <= {"cc", "i"} and "cc" in (l[0], r[0]):
                return self.binop(rv["op"], ("c", l[1]), ("c", r[1]))
            return self.binop(rv["op"], l, r)
        if k == "un":
            v = self.operand(fr, body, rv["o"])
            if v is not None and v[0] == "b" and rv["op"] == "Not":
                return ("b", not v[1])
            return None
        if k == "agg":
            ops = tuple(self.operand(fr, body, o) for o in rv["ops"])
            if rv.get("agg") == "tuple":
                return ("t", ops)
            if rv.get("agg") == "array":
                return ("arr", ops)
            if rv.get("agg") == "closure":
                return ("cl", rv["def"], ops)
            if rv.get("agg") == "adt" and rv.get("variant"):
                return ("v", rv["variant"], ops[0] if ops else None)
            return None
        if k == "discr":
            v = self.place(fr, body, rv["pl"])
            if v is not None and v[0] == "v":
                return ("d", v[1])
            return None
        return None

    def stmt(self, fr, body, s):
        if "dead" in s:
            fr.env.pop(s["dead"], None)
            return
        if "pl" not in s:
            return
        pl = s["pl"]
        if pl["p"]:
            ty = body.local_ty(pl["l"]) or ""
            raise Undecided(f"write through a projection at {body.file}:{s.get('line')}")
        v = self.rvalue(fr, body, s["rv"])
        if v is None:
            fr.env.pop(pl["l"], None)
        else:
            fr.env[pl["l"]] = v

    # ------------------------------------------------------------------ machine
    def initial(self):
        body = self.prog.bodies[self.root]
        env = {}
        for i in range(1, body.argc + 1):
            env[i] = ("str",) if "str" in (body.local_ty(i) or "") else None
        return ((Frame(self.root, 0, env, None).freeze(),), "no")

    def run(self, config, feed=None):
        """Run from `config` (frames, peeked) until the machine needs the next input symbol or returns.
        feed: the symbol to supply at the pending choice point (char code or "eof").
        Returns ("need", config) | ("ret", value, eof_seen)."""
        frames = [Frame.thaw(f) for f in config[0]]
        peeked = config[1]
        if feed is not None:
            if peeked != "no":
                raise Undecided("internal: feed without a pending choice")
            peeked = feed
        while True:
            self.steps += 1
            if self.steps > 400000:
                raise Undecided("configuration budget exhausted")
            fr = frames[-1]
            body = self.prog.bodies[fr.path]
            blk = body.blocks[fr.blk]
            # (a block that is resumed after it asked for input has already executed its statements)
            if fr.skip:
                fr.skip = False
            else:
                for s in blk["stmts"]:
                    self.stmt(fr, body, s)
            t = blk["term"]
            k = t["k"]
            if k in ("goto", "drop", "false_edge", "false_unwind"):
                fr.blk = t["target"]
                continue
            if k == "assert":
                c = self.operand(fr, body, t["cond"])
                if c is None or c[0] != "b":
                    raise Undecided(f"assert on an unknown value at {body.where(fr.blk)}")
                if c[1] != bool(t["expected"]):
                    raise Undecided(f"a panic is reachable at {body.where(fr.blk)}")
                fr.blk = t["target"]
                continue
            if k == "switch":
                v = self.operand(fr, body, t["discr"])
                if v is None:
                    raise Undecided(f"branch on an unknown value at {body.where(fr.blk)}")
                if v[0] == "d":
                    info = core.switch_info(self.prog, body, fr.blk)
                    if not info or v[1] not in info.get("edges", {}):
                        raise Undecided(f"variant switch at {body.where(fr.blk)}")
                    fr.blk = info["edges"][v[1]]
                    continue
                if v[0] in ("b", "c", "i", "cc"):
                    n = int(v[1])
                    nxt = t["otherwise"]
                    for val, tgt in t["targets"]:
                        if val == n:
                            nxt = tgt
                    fr.blk = nxt
                    continue
                raise Undecided(f"branch at {body.where(fr.blk)}")
            if k == "return":
                val = fr.env.get(0)
                frames.pop()
                if not frames:
                    return ("ret", val, peeked == "eof")
                cont = fr.cont
                caller = frames[-1]
                cb = self.prog.bodies[caller.path]
                ct = cb.blocks[caller.blk]["term"]
                if cont and cont[0] == "next_if":
                    if val is None or val[0] != "b":
                        raise Undecided("next_if predicate with an unknown result")
                    ch = cont[1]
                    if val[1]:
                        peeked = "no"
                        res = ("v", "Some", ("c", ch))
                    else:
                        res = ("v", "None", None)
                    self.deliver(caller, cb, ct, res)
                else:
                    self.deliver(caller, cb, ct, val)
                continue
            if k == "call":
                out = self.call(frames, fr, body, t, peeked)
                if out[0] == "need":
                    fr.skip = True
                    return ("need", (tuple(f.freeze() for f in frames), "no"))
                if out[0] == "val":
                    peeked = out[2]
                    self.deliver(fr, body, t, out[1])
                    continue
                if out[0] == "push":
                    peeked = out[2]
                    frames.append(out[1])
                    continue
            raise Undecided(f"terminator {k} at {body.where(fr.blk)}")

    def deliver(self, fr, body, t, val):
        d = t.get("dest")
        if d is not None:
            if d["p"]:
                raise Undecided("call result stored through a projection")
            if val is None:
                fr.env.pop(d["l"], None)
            else:
                fr.env[d["l"]] = val
        if t.get("target") is None:
            raise Undecided("diverging call")
        fr.blk = t["target"]

    def call(self, frames, fr, body, t, peeked):
        callee = t.get("callee") or ""
        resolved = t.get("resolved") or ""
        last = core.re.sub(r"::<[^>]*>$", "", callee).rsplit("::", 1)[-1]
        args = [self.operand(fr, body, a) for a in t["args"]]
        a0 = args[0] if args else None
        # ---- the stream
        if a0 == ("str",):
            if last in ("chars",):
                return ("val", S, peeked)
            if last in ("as_ref", "deref", "borrow", "as_str"):
                return ("val", ("str",), peeked)
            raise Undecided(f"the argument string is used through {core.short(callee)} (only chars() is modelled)")
        if a0 == S:
            if last in ("peekable", "by_ref", "into_iter", "deref_mut", "deref", "borrow_mut", "as_mut"):
                return ("val", S, peeked)
            if last in ("peek", "next", "next_if", "next_if_eq"):
                if peeked == "no":
                    return ("need",)
                if peeked == "eof":
                    return ("val", ("v", "None", None), peeked)
                ch = peeked
                if last == "peek":
                    return ("val", ("v", "Some", ("c", ch)), peeked)
                if last == "next":
                    return ("val", ("v", "Some", ("c", ch)), "no")
                if last == "next_if_eq":
                    x = args[1]
                    if x is None or x[0] != "c":
                        raise Undecided("next_if_eq with an unknown character")
                    return ("val", ("v", "Some", ("c", ch)), "no") if x[1] == ch else ("val", ("v", "None", None), peeked)
                # next_if(predicate)
                f = args[1]
                if f is None or f[0] not in ("cl", "fn"):
                    raise Undecided("next_if with an unknown predicate")
                path = f[1]
                if path in ASCII_PRED_FN:
                    ok = ASCII_PRED_FN[path](ch)
                    return ("val", ("v", "Some", ("c", ch)), "no") if ok else ("val", ("v", "None", None), peeked)
                cb = self.prog.bodies.get(path)
                if cb is None:
                    raise Undecided(f"next_if predicate {path} has no body")
                env = {1: f, 2: ("c", ch)}
                return ("push", Frame(path, 0, env, ("next_if", ch)), peeked)
            raise Undecided(f"stream operation {core.short(callee)} is not modelled")
        # ---- pure helpers
        if last in ASCII_PRED and a0 is not None and a0[0] == "c":
            return ("val", ("b", ASCII_PRED[last](a0[1])), peeked)
        if last == "contains" and a0 is not None and a0[0] == "arr" and len(args) == 2 and args[1] is not None and args[1][0] == "c":
            if any(x is None or x[0] != "c" for x in a0[1]):
                raise Undecided("membership in a table with unknown elements")
            return ("val", ("b", any(x[1] == args[1][1] for x in a0[1])), peeked)
        if last in ("is_some", "is_none") and a0 is not None and a0[0] == "v":
            return ("val", ("b", (a0[1] == "Some") == (last == "is_some")), peeked)
        if last in ("eq", "ne") and len(args) == 2 and args[0] is not None and args[1] is not None:
            def known(v):
                return v[0] in ("c", "b", "i") or (v[0] == "v" and (v[2] is None or known(v[2]))) or (v[0] == "t" and all(x is not None and known(x) for x in v[1]))
            if known(args[0]) and known(args[1]):
                return ("val", ("b", (args[0] == args[1]) == (last == "eq")), peeked)
            raise Undecided(f"comparison of values that are not fully known at {body.where(fr.blk)}")
        if last in ("copied", "cloned", "clone", "as_ref", "as_deref", "borrow", "deref", "into", "from", "to_owned") and a0 is not None:
            return ("val", a0, peeked)
        if last in ("unwrap", "expect", "unwrap_unchecked") and a0 is not None and a0[0] == "v" and a0[1] in ("Some", "Ok"):
            return ("val", a0[2], peeked)
        if last in ("unwrap_or", "unwrap_or_default") and a0 is not None and a0[0] == "v":
            if a0[1] in ("Some", "Ok"):
                return ("val", a0[2], peeked)
            return ("val", args[1] if len(args) > 1 else None, peeked)
        if last == "to_digit" and a0 is not None and a0[0] == "c" and len(args) > 1 and args[1] == ("i", 10):
            return ("val", ("v", "Some", ("i", a0[1] - 48)) if 48 <= a0[1] <= 57 else ("v", "None", None), peeked)
        # ---- calls of local bodies (closures through Fn::call, helper functions)
        target = resolved if resolved in self.prog.bodies else None
        if target is not None:
            cb = self.prog.bodies[target]
            env = {}
            if cb.kind == "closure" and core.re.search(r"ops::(Fn|FnMut|FnOnce)(<[^>]*>)?>?::call(_mut|_once)?$|^std::ops::Fn(Mut|Once)?::call", callee):
                env[1] = args[0]
                tup = args[1] if len(args) > 1 else None
                if tup is not None and tup[0] == "t":
                    for i, v in enumerate(tup[1]):
                        env[2 + i] = v
                elif cb.argc > 1:
                    raise Undecided("closure call with an unknown argument tuple")
            else:
                for i, v in enumerate(args):
                    env[1 + i] = v
            env = {k_: v for k_, v in env.items() if v is not None}
            return ("push", Frame(target, 0, env, None), peeked)
        raise Undecided(f"call of {core.short(callee)} is not modelled")


ASCII_PRED_FN = {f"std::char::methods::<impl char>::{k}": v for k, v in ASCII_PRED.items()}
ASCII_PRED_FN.update({f"core::char::methods::<impl char>::{k}": v for k, v in ASCII_PRED.items()})


def extract(prog, root):
    """(alphabet, transitions, start) of the function's DFA, or raises Undecided.
    states: frozen configurations at choice points, plus ("T", bool, eof_seen) terminals.
    transitions: {state: {symbol: state}} with symbol in alphabet + ["eof"]."""
    sc = Scanner(prog, root)
    first = sc.run(sc.initial())
    start = _node(first)
    trans = {}
    work = [start]
    while work:
        st = work.pop()
        if st in trans or st[0] == "T":
            continue
        trans[st] = {}
        for a in sc.alphabet + ["eof"]:
            nx = _node(sc.run(st[1], feed=a))
            trans[st][a] = nx
            if nx not in trans and nx[0] != "T":
                work.append(nx)
        if len(trans) > 5000:
            raise Undecided("more than 5000 scanner states")
    return sc, trans, start


def _node(r):
    if r[0] == "need":
        return ("N", r[1])
    v = r[1]
    if v is None or v[0] != "b":
        raise Undecided("the scanner returns a value that is not a known boolean")
    return ("T", v[1], r[2])


def compare(sc, trans, start, ref_step, ref_start, ref_accept, ref_live, max_words=5):
    """Product of the extracted DFA with a reference DFA given as functions over code points:
    ref_step(state, code point) -> state, ref_accept(state) -> bool, ref_live(state) -> can still accept something.
    Returns a list of (word, implementation accepts, reference accepts) — empty when the languages are equal."""
    out = []
    seen = {(start, ref_start)}
    work = [(start, ref_start, ())]
    while work:
        nxt = []
        for st, rs, word in work:
            if st[0] == "T":
                acc, eof_seen = st[1], st[2]
                if eof_seen:
                    # decided after end of input was seen: the word is exactly `word`
                    if acc != ref_accept(rs):
                        out.append((word, acc, ref_accept(rs)))
                else:
                    # decided without looking at the rest: every continuation gets the same answer
                    if acc and not _universal(sc, ref_step, ref_accept, rs):
                        out.append((word + ("<anything>",), True, False))
                    if not acc and ref_live(rs):
                        out.append((word + ("<some continuation>",), False, True))
                continue
            for a in sc.alphabet:
                t2 = trans[st][a]
                r2 = ref_step(rs, a)
                if (t2, r2) not in seen:
                    seen.add((t2, r2))
                    nxt.append((t2, r2, word + (a,)))
            # end of input here
            t2 = trans[st]["eof"]
            if t2[0] != "T":
                # asks again after EOF: follow (EOF is sticky)
                k = (t2, rs, "eof")
                if k not in seen:
                    seen.add(k)
                    nxt.append((_after_eof(sc, trans, t2), rs, word))
            else:
                if t2[1] != ref_accept(rs):
                    out.append((word, t2[1], ref_accept(rs)))
            if len(out) >= max_words:
                return out
        work = nxt
    return out


def _after_eof(sc, trans, st):
    n = 0
    while st[0] != "T" and n < 50:
        st = trans[st]["eof"]
        n += 1
    if st[0] != "T":
        raise Undecided("the scanner keeps asking for input after its end")
    return ("T", st[1], True)


def _universal(sc, ref_step, ref_accept, rs):
    seen = {rs}
    work = [rs]
    while work:
        s = work.pop()
        if not ref_accept(s):
            return False
        for a in sc.alphabet:
            n = ref_step(s, a)
            if n not in seen:
                seen.add(n)
                work.append(n)
    return True


# ---------------------------------------------------------------------------------------------- RFC 8259 number
def json_number_ref():
    """-? (0 | [1-9][0-9]*) (. [0-9]+)? ([eE] [+-]? [0-9]+)?"""
    def cls(c):
        if c == 45:
            return "-"
        if c == 43:
            return "+"
        if c == 48:
            return "0"
        if 49 <= c <= 57:
            return "d"
        if c == 46:
            return "."
        if c in (101, 69):
            return "e"
        return "x"
    table = {
        "start": {"-": "neg", "0": "zero", "d": "int"},
        "neg": {"0": "zero", "d": "int"},
        "zero": {".": "dot", "e": "exp"},
        "int": {"0": "int", "d": "int", ".": "dot", "e": "exp"},
        "dot": {"0": "frac", "d": "frac"},
        "frac": {"0": "frac", "d": "frac", "e": "exp"},
        "exp": {"+": "sign", "-": "sign", "0": "expd", "d": "expd"},
        "sign": {"0": "expd", "d": "expd"},
        "expd": {"0": "expd", "d": "expd"},
    }
    step = lambda s, c: table.get(s, {}).get(cls(c), "dead")
    accept = lambda s: s in ("zero", "int", "frac", "expd")
    live = lambda s: s != "dead"
    return step, "start", accept, live


def show_word(word):
    out = []
    for a in word:
        if isinstance(a, int):
            out.append(chr(a) if 32 < a < 127 else f"\\u{{{a:X}}}")
        else:
            out.append(a)
    return "".join(out)


def char_predicate(prog, fn):
    """The set of characters for which a predicate `fn(char-like) -> bool` returns true, as sorted [lo, hi] code point intervals.
    The predicate is evaluated (on the abstract machine above, which here has no input stream) once per interval between the character
    constants its family compares with; raises Undecided when something outside the model is met."""
    sc = Scanner(prog, fn)
    body = prog.bodies[fn]
    cuts = sc.alphabet + [0x110000]
    true_iv = []
    for lo, hi in zip(cuts, cuts[1:]):
        env = {i: ("c", lo) for i in range(1, body.argc + 1)}
        r = sc.run(((Frame(fn, 0, env, None).freeze(),), "no"))
        if r[0] != "ret" or r[1] is None or r[1][0] != "b":
            raise Undecided("the predicate does not return a known boolean")
        if r[1][1]:
            hi_ = hi - 1
            if lo <= 0xD7FF < hi_ and hi_ >= 0xE000:
                pass        # the interval spans the surrogate gap: still one interval of chars
            if true_iv and true_iv[-1][1] + 1 == lo:
                true_iv[-1][1] = hi_
            else:
                true_iv.append([lo, hi_])
    return true_iv


def in_intervals(iv, c):
    return any(lo <= c <= hi for lo, hi in iv)

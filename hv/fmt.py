"""Decode `format_args!` lowering (fmt::Arguments::new(template, &args)) found in MIR.

Template bytecode as documented in library/core/src/fmt/mod.rs of the pinned nightly:
 n == 0           end
 n < 0x80         literal piece of n bytes
 n == 0x80        literal piece, u16-le length follows
 n >= 0xC0        placeholder; bit0 flags(u32) bit1 width(u16) bit2 precision(u16) bit3 arg_index(u16)
"""
import re
from .core import op_local


ZERO_PAD_FLAG = 1 << 24
ALTERNATE_FLAG = 1 << 23


def decode_template_specs(bs):
    """Placeholders of a template in order: [{'arg': index, 'flags': u32|None, 'width': n|None, 'precision': n|None}]."""
    out = []
    i = 0
    arg = 0
    bs = bytes(bs)
    while i < len(bs):
        n = bs[i]
        i += 1
        if n == 0:
            break
        if n < 0x80:
            i += n
        elif n == 0x80:
            ln = int.from_bytes(bs[i:i + 2], "little")
            i += 2 + ln
        else:
            sp = {"flags": None, "width": None, "precision": None}
            if n & 1:
                sp["flags"] = int.from_bytes(bs[i:i + 4], "little")
                i += 4
            if n & 2:
                sp["width"] = int.from_bytes(bs[i:i + 2], "little")
                i += 2
            if n & 4:
                sp["precision"] = int.from_bytes(bs[i:i + 2], "little")
                i += 2
            if n & 8:
                arg = int.from_bytes(bs[i:i + 2], "little")
                i += 2
            sp["arg"] = arg
            out.append(sp)
            arg += 1
    return out


def format_specs(body, block):
    """Specs of the placeholders of the fmt::Arguments::new call in `block`, aligned with the ('arg', ..) entries of format_parts."""
    t = body.term(block)
    if not t or t["k"] != "call" or not (t.get("callee") or "").endswith("::new") or "fmt::Arguments" not in t["callee"]:
        return None
    tl = _deref_chain(body, op_local(t["args"][0]))
    d = _single_def(body, tl)
    if d and d[2] == "assign" and d[3]["rv"]["k"] == "use" and "bytes" in d[3]["rv"]["o"]:
        return decode_template_specs(d[3]["rv"]["o"]["bytes"])
    return None


def decode_template(bs):
    parts = []
    i = 0
    arg = 0
    bs = bytes(bs)
    while i < len(bs):
        n = bs[i]
        i += 1
        if n == 0:
            break
        if n < 0x80:
            parts.append(("lit", bs[i:i + n].decode("utf-8", "replace")))
            i += n
        elif n == 0x80:
            ln = int.from_bytes(bs[i:i + 2], "little")
            i += 2
            parts.append(("lit", bs[i:i + ln].decode("utf-8", "replace")))
            i += ln
        else:
            if n & 1:
                i += 4
            if n & 2:
                i += 2
            if n & 4:
                i += 2
            if n & 8:
                arg = int.from_bytes(bs[i:i + 2], "little")
                i += 2
            parts.append(("arg", arg))
            arg += 1
    return parts


def _single_def(body, l):
    # (a store through the local — `*l = ..` — is not a definition of the local itself)
    ds = [d for d in body.defs().get(l, []) if not (d[2] == "assign" and d[3]["pl"]["p"])]
    return ds[0] if len(ds) == 1 else None


def _deref_chain(body, l, depth=0):
    """Follow `x = &y` / `x = &(*y)` / `x = move y` single definitions to the underlying local."""
    while depth < 12:
        d = _single_def(body, l)
        if not d or d[2] != "assign":
            return l
        rv = d[3]["rv"]
        if rv["k"] == "ref" and all(e[0] == "d" for e in rv["pl"]["p"]):
            l = rv["pl"]["l"]
        elif rv["k"] in ("use", "cast") and op_local(rv["o"]) is not None and not rv["o"]["pl"]["p"]:
            l = op_local(rv["o"])
        else:
            return l
        depth += 1
    return l


def format_parts(body, block):
    """For a block whose terminator calls fmt::Arguments::new: [('lit', s) | ('arg', local, place)].

    `local` is the user-level local whose value is formatted (through the args tuple), or None.
    """
    t = body.term(block)
    if not t or t["k"] != "call" or "fmt::Arguments" not in (t.get("callee") or ""):
        return None
    callee = t["callee"]
    if callee.endswith("::from_str") or callee.endswith("from_str_nonconst"):
        a = t["args"][0]
        if a.get("k") == "const":
            return [("lit", a.get("v"))]
        return None
    if not callee.endswith("::new"):
        return None
    # template
    tl = op_local(t["args"][0])
    tl = _deref_chain(body, tl)
    d = _single_def(body, tl)
    tmpl = None
    if d and d[2] == "assign" and d[3]["rv"]["k"] == "use" and "bytes" in d[3]["rv"]["o"]:
        tmpl = d[3]["rv"]["o"]["bytes"]
    if tmpl is None:
        return None
    parts = decode_template(tmpl)
    # args array
    al = _deref_chain(body, op_local(t["args"][1]))
    d = _single_def(body, al)
    arr = []
    if d and d[2] == "assign" and d[3]["rv"]["k"] == "agg" and d[3]["rv"].get("agg") == "array":
        for o in d[3]["rv"]["ops"]:
            arr.append(op_local(o))
    out = []
    for p in parts:
        if p[0] == "lit":
            out.append(p)
            continue
        idx = p[1]
        src = None
        how = None
        if idx < len(arr) and arr[idx] is not None:
            dd = _single_def(body, arr[idx])
            if dd and dd[2] == "call":
                how = dd[3].get("callee")
                a0 = op_local(dd[3]["args"][0])
                src = _resolve_tuple_arg(body, a0)
        out.append(("arg", src, how))
    return out


def _resolve_tuple_arg(body, l):
    """`l = &(*(tuple.N))` where tuple = (&a, &b, ..): return the local a/b.."""
    d = _single_def(body, l)
    if not d or d[2] != "assign":
        return l
    rv = d[3]["rv"]
    if rv["k"] == "ref":
        pl = rv["pl"]
        fields = [e for e in pl["p"] if e[0] == "f"]
        if fields:
            tup = pl["l"]
            td = _single_def(body, tup)
            if td and td[2] == "assign" and td[3]["rv"]["k"] == "agg" and td[3]["rv"].get("agg") == "tuple":
                ops = td[3]["rv"]["ops"]
                fi = fields[0][1]
                if fi < len(ops):
                    ol = op_local(ops[fi])
                    if ol is not None:
                        return _deref_chain(body, ol)
            return tup
        return _deref_chain(body, pl["l"])
    return l


def format_sites(body):
    """All (block, parts) for fmt::Arguments::new / from_str calls in a body."""
    out = []
    for b, t in body.calls():
        if "fmt::Arguments" in (t.get("callee") or ""):
            p = format_parts(body, b)
            if p is not None:
                out.append((b, p))
    return out


def format_literals(body):
    """Concatenated literal text of every format site in the body (for attribute-name checks)."""
    return ["".join(x[1] for x in parts if x[0] == "lit") for _, parts in format_sites(body)]


def format_parts_flat(body, block, depth=0):
    """format_parts with nested pieces spliced in: an argument printed with a plain `{}` that is itself the String built by another
    `format!` of this body (`let date = format!(..); format!("{} {} GMT", date, time)`) is replaced by that site's parts."""
    parts = format_parts(body, block)
    if parts is None or depth > 3:
        return parts
    specs = format_specs(body, block) or []
    out = []
    ai = 0
    for p in parts:
        if p[0] != "arg":
            out.append(p)
            continue
        sp = specs[ai] if ai < len(specs) else None
        ai += 1
        inner = None
        plain = (p[2] or "").endswith("new_display") and (sp is None or (sp.get("flags") is None and sp.get("width") is None and sp.get("precision") is None))
        if plain and p[1] is not None:
            l = _deref_chain(body, p[1])
            d = _single_def(body, l)
            if d and d[2] == "call" and re.search(r"fmt::format$|fmt::format::format_inner$|must_use$", d[3].get("callee") or ""):
                a0 = op_local(d[3]["args"][0]) if d[3].get("args") else None
                if (d[3].get("callee") or "").endswith("must_use") and a0 is not None:
                    d2 = _single_def(body, a0)
                    if d2 and d2[2] == "call" and re.search(r"fmt::format$|format_inner$", d2[3].get("callee") or ""):
                        a0 = op_local(d2[3]["args"][0]) if d2[3].get("args") else None
                    else:
                        a0 = None
                ad = _single_def(body, a0) if a0 is not None else None
                if ad and ad[2] == "call" and "fmt::Arguments" in (ad[3].get("callee") or ""):
                    inner = format_parts_flat(body, ad[0], depth + 1)
        if inner is not None:
            out.extend(inner)
        else:
            out.append(p)
    # merge adjacent literals
    merged = []
    for p in out:
        if p[0] == "lit" and merged and merged[-1][0] == "lit":
            merged[-1] = ("lit", (merged[-1][1] or "") + (p[1] or ""))
        else:
            merged.append(p)
    return merged

"""Straight-line symbolic execution over word-valued terms (for pinning the structure of hash rounds).

Terms: ('v', name) symbolic start values; ('lit', n); ('op', Op, a, b) for MIR binary ops; ('not', a); ('call', short_callee, [args]);
('elem', array, index) array element loads that no earlier store in the walk covers.  The walk follows goto / assert / drop /
call edges only and stops at the first branch, return or `stop` block; stores to array elements are recorded and forwarded to
later loads with a syntactically identical index term.
"""
from . import core

CHECKED = {"AddWithOverflow": "Add", "SubWithOverflow": "Sub", "MulWithOverflow": "Mul"}


def short(callee):
    import re
    return re.sub(r"::<[^>]*>", "", callee or "?").rsplit("::", 1)[-1]


class Walk:
    def __init__(self, prog, body, env=None, arrays=()):
        self.prog, self.b = prog, body
        self.env = dict(env or {})
        self.arrays = set(arrays)            # locals treated as arrays
        self.stores = []                     # (array local, index term, value term)
        self.calls = []                      # (block, short callee, arg terms, dest local)
        self.visited = []

    def operand(self, o):
        if o.get("k") == "const":
            v = o.get("v")
            if isinstance(v, int) and not isinstance(v, bool):
                return ("lit", v)
            if "tyconst" in o:
                try:
                    return ("lit", int(o["tyconst"]))
                except ValueError:
                    pass
            d = core.describe(self.prog, self.b, o)
            if isinstance(d, tuple) and d and d[0] == "lit" and isinstance(d[1], int):
                return ("lit", d[1])
            return ("const", o.get("repr"))
        return self.place(o["pl"])

    def place(self, pl):
        l, p = pl["l"], list(pl["p"])
        base = self.env.get(l)
        if base is None:
            base = ("v", self.b.local_name(l) or f"_{l}")
        while p:
            e = p.pop(0)
            if e[0] == "d":
                if base[0] == "ref":
                    base = base[1]
                continue
            if e[0] == "f":
                if base[0] == "chk":
                    base = ("op", base[1], base[2], base[3]) if e[1] == 0 else ("lit", 0)
                elif base[0] == "tuple" and e[1] < len(base[1]):
                    base = base[1][e[1]]
                else:
                    base = ("field", base, e[1])
                continue
            if e[0] in ("i", "ci"):
                idx = self.env.get(e[1], ("v", self.b.local_name(e[1]) or f"_{e[1]}")) if e[0] == "i" else ("lit", e[1])
                hit = None
                for (arr, ix, val) in reversed(self.stores):
                    if arr == l and ix == idx:
                        hit = val
                        break
                base = hit if hit is not None else ("elem", base if l not in self.arrays else ("v", self.b.local_name(l) or f"_{l}"), idx)
                continue
            base = ("proj", base, e[0])
        return base

    def rvalue(self, rv):
        k = rv["k"]
        if k in ("use", "cast"):
            return self.operand(rv["o"])
        if k in ("ref", "rawptr"):
            v = self.place(rv["pl"])
            return ("ref", v)
        if k == "bin":
            a, b = self.operand(rv["l"]), self.operand(rv["r"])
            if rv["op"] in CHECKED:
                return ("chk", CHECKED[rv["op"]], a, b)
            return ("op", rv["op"], a, b)
        if k == "un":
            return ("not", self.operand(rv["o"])) if rv["op"] == "Not" else ("un", rv["op"], self.operand(rv["o"]))
        if k == "agg":
            if rv.get("agg") in ("tuple", "array"):
                return ("tuple", [self.operand(o) for o in rv["ops"]])
            if rv.get("agg") == "adt":
                return ("adt", rv.get("adt", "").rsplit("::", 1)[-1], [self.operand(o) for o in rv["ops"]])
        return ("other", k)

    def run(self, start, stop=(), limit=400):
        blk = start
        while blk is not None and limit > 0:
            limit -= 1
            if blk in stop and self.visited:
                return blk
            self.visited.append(blk)
            for s in self.b.blocks[blk]["stmts"]:
                if "pl" not in s:
                    continue
                pl = s["pl"]
                val = self.rvalue(s["rv"])
                if not pl["p"]:
                    self.env[pl["l"]] = val
                elif len(pl["p"]) == 1 and pl["p"][0][0] in ("i", "ci"):
                    e = pl["p"][0]
                    idx = self.env.get(e[1], ("v", self.b.local_name(e[1]) or f"_{e[1]}")) if e[0] == "i" else ("lit", e[1])
                    self.stores.append((pl["l"], idx, val))
                elif len(pl["p"]) == 1 and pl["p"][0][0] == "d" and self.env.get(pl["l"], ("?",))[0] == "ref":
                    pass
                else:
                    self.env[pl["l"]] = ("other", "projected store")
            t = self.b.term(blk)
            k = t["k"]
            if k in ("goto", "false_edge", "false_unwind", "drop", "assert"):
                blk = t["target"]
            elif k == "call":
                args = [self.operand(a) for a in t["args"]]
                name = short(t.get("callee"))
                d = t.get("dest")
                if d is not None and not d["p"]:
                    self.env[d["l"]] = ("call", name, args)
                self.calls.append((blk, name, args, d["l"] if d else None))
                blk = t["target"]
            else:
                return blk
        return blk


def flatten(term, opname=None, callname=None):
    """Leaves of a tree of one associative operator / one binary call (e.g. BitXor, wrapping_add)."""
    out = []

    def rec(t):
        if opname and isinstance(t, tuple) and t[0] == "op" and t[1] == opname:
            rec(t[2])
            rec(t[3])
        elif callname and isinstance(t, tuple) and t[0] == "call" and t[1] == callname and len(t[2]) == 2:
            rec(t[2][0])
            rec(t[2][1])
        else:
            out.append(t)
    rec(term)
    return out


def show(t):
    if not isinstance(t, tuple):
        return str(t)
    if t[0] == "v":
        return t[1]
    if t[0] == "lit":
        return str(t[1])
    if t[0] in ("op", "chk"):
        o = {"BitXor": "^", "BitAnd": "&", "BitOr": "|", "Add": "+", "Sub": "-", "Mul": "*", "Div": "/"}.get(t[1], t[1])
        return f"({show(t[2])} {o} {show(t[3])})"
    if t[0] == "not":
        return f"!{show(t[1])}"
    if t[0] == "call":
        return f"{t[1]}({', '.join(show(a) for a in t[2])})"
    if t[0] == "elem":
        return f"{show(t[1])}[{show(t[2])}]"
    if t[0] == "ref":
        return f"&{show(t[1])}"
    if t[0] == "tuple":
        return "(" + ", ".join(show(x) for x in t[1]) + ")"
    return str(t[0])


def affine(t, atoms=None):
    """{atom_repr: coeff, '': const} of an integer term built from + - and multiplication by literals; other terms are atoms."""
    if t[0] == "lit":
        return {"": t[1]}
    if t[0] in ("op", "chk") and t[1] in ("Add", "Sub"):
        a, b = affine(t[2]), affine(t[3])
        sg = 1 if t[1] == "Add" else -1
        out = dict(a)
        for k, v in b.items():
            out[k] = out.get(k, 0) + sg * v
        return {k: v for k, v in out.items() if v != 0 or k == ""}
    if t[0] in ("op", "chk") and t[1] == "Mul":
        a, b = affine(t[2]), affine(t[3])
        if set(a) <= {""}:
            return {k: v * a.get("", 0) for k, v in b.items()}
        if set(b) <= {""}:
            return {k: v * b.get("", 0) for k, v in a.items()}
    return {show(t): 1, "": 0}

"""Piecewise integer expressions from loop-free MIR regions, and their decision for every input (R-ARITH, signed case).

`final_value(prog, body, local)` symbolically executes the loop-free region between the first definition of a (possibly
conditionally re-assigned) local and the point where all its definitions have re-converged, and returns the value as a list of
guarded expressions over *symbols*: locals defined outside the region and function parameters.  `expand` replaces
single-definition symbols by their defining expressions.  `decide_forall` then compares such a piecewise expression with a
reference function for every integer value of its one remaining symbol:

  * every `/` and `%` in it has a constant divisor and a dividend that is linear in the symbol (checked), so beyond the largest
    (below the smallest) root of those dividends and of the linear comparison operands every node is quasi-linear with the common
    period P = lcm(divisors) (truncating division is flooring division of a non-negative, resp. mirrored, dividend);
  * hence equality on one period in each outer region, equal increments over a period, and equality on the finitely many
    points between the outermost roots, imply equality for every integer (induction on the period count).

Rust semantics: `/` and `%` truncate toward zero.  Overflow is outside the model (callers state |x| < 2^62).
"""
from math import gcd

from . import core

CHECKED = {"AddWithOverflow": "Add", "SubWithOverflow": "Sub", "MulWithOverflow": "Mul"}
UNK = ("unk",)


class NotDecidable(Exception):
    pass


# --------------------------------------------------------------------------------------------
# expressions
# --------------------------------------------------------------------------------------------

def lit(n):
    return ("lit", n)


def mk_bin(op, a, b):
    if op in CHECKED:
        # value of the (result, overflowed) pair: modelled as the result; `.1` is handled by the caller
        return ("chk", CHECKED[op], a, b)
    if a[0] == "lit" and b[0] == "lit":
        try:
            return lit(_apply(op, a[1], b[1]))
        except NotDecidable:
            pass
    return ("bin", op, a, b)


def _tdiv(a, b):
    if b == 0:
        raise NotDecidable("division by zero")
    q = abs(a) // abs(b)
    return q if (a >= 0) == (b >= 0) else -q


def _apply(op, a, b):
    if op == "Add":
        return a + b
    if op == "Sub":
        return a - b
    if op == "Mul":
        return a * b
    if op == "Div":
        return _tdiv(a, b)
    if op == "Rem":
        return a - b * _tdiv(a, b)
    if op == "DivE":
        if b <= 0:
            raise NotDecidable("euclidean division by a non-positive value")
        return a // b
    if op == "RemE":
        if b <= 0:
            raise NotDecidable("euclidean remainder by a non-positive value")
        return a % b
    if op == "Lt":
        return a < b
    if op == "Le":
        return a <= b
    if op == "Gt":
        return a > b
    if op == "Ge":
        return a >= b
    if op == "Eq":
        return a == b
    if op == "Ne":
        return a != b
    if op == "BitAnd":
        return a & b if not isinstance(a, bool) else (a and b)
    if op == "BitOr":
        return a | b if not isinstance(a, bool) else (a or b)
    if op == "Shl":
        return a << b
    if op == "Shr":
        return a >> b
    raise NotDecidable(f"operator {op}")


def ev(e, val):
    """Evaluate expression e with every ('sym', ..) bound through the dict/function `val`."""
    k = e[0]
    if k == "lit":
        return e[1]
    if k == "sym":
        v = val(e) if callable(val) else val.get(e)
        if v is None:
            raise NotDecidable(f"unbound symbol {e}")
        return v
    if k == "bin":
        return _apply(e[1], ev(e[2], val), ev(e[3], val))
    if k == "chk":
        return _apply(e[1], ev(e[2], val), ev(e[3], val))
    if k == "un":
        v = ev(e[2], val)
        if e[1] == "Not":
            return (not v) if isinstance(v, bool) else ~v
        if e[1] == "Neg":
            return -v
    raise NotDecidable(f"cannot evaluate {k}")


def syms(e, out=None):
    out = set() if out is None else out
    if isinstance(e, tuple):
        if e and e[0] == "sym":
            out.add(e)
        else:
            for x in e[1:]:
                if isinstance(x, tuple):
                    syms(x, out)
    return out


def subst(e, m):
    if not isinstance(e, tuple) or not e:
        return e
    if e[0] == "sym":
        return m.get(e, e)
    if e[0] in ("bin", "chk"):
        return (e[0], e[1], subst(e[2], m), subst(e[3], m))
    if e[0] == "un":
        return ("un", e[1], subst(e[2], m))
    return e


def show(e):
    k = e[0]
    if k == "lit":
        return str(e[1])
    if k == "sym":
        return e[2] or f"_{e[1]}"
    if k in ("bin", "chk"):
        o = {"Add": "+", "Sub": "-", "Mul": "*", "Div": "/", "Rem": "%", "Lt": "<", "Le": "<=", "Gt": ">", "Ge": ">=", "Eq": "==", "Ne": "!="}.get(e[1], e[1])
        return f"({show(e[2])} {o} {show(e[3])})"
    if k == "un":
        return f"{e[1]}({show(e[2])})"
    return "?"


# --------------------------------------------------------------------------------------------
# symbolic execution of a loop-free region
# --------------------------------------------------------------------------------------------

class Region:
    def __init__(self, prog, body, start, stop, max_paths=64):
        self.prog, self.b, self.start, self.stop, self.max_paths = prog, body, start, stop, max_paths

    def _operand(self, env, o):
        if o.get("k") == "const":
            v = o.get("v")
            if isinstance(v, (bool, int)):
                return lit(v)
            d = core.describe(self.prog, self.b, o)
            return from_describe(d)
        pl = o["pl"]
        return self._place(env, pl)

    def _place(self, env, pl):
        l = pl["l"]
        v = env.get(l)
        if v is None:
            v = ("sym", l, self.b.local_name(l))
            if pl["p"]:
                r = resolve_single(self.prog, self.b, l, lambda _l: False)
                if r is not None:
                    v = r
        for e in pl["p"]:
            if e[0] == "f" and v[0] == "chk":
                v = ("bin", v[1], v[2], v[3]) if e[1] == 0 else lit(False)
            elif e[0] == "f" and v[0] == "tuple" and e[1] < len(v[1]):
                v = v[1][e[1]]          # a pair built in this region (the result of an inlined helper returning `(a, b)`)
            elif e[0] == "f" and v[0] == "sym":
                return UNK
            else:
                return UNK
        return v

    def _rvalue(self, env, rv):
        k = rv["k"]
        if k in ("use", "cast"):
            return self._operand(env, rv["o"])
        if k == "bin":
            return mk_bin(rv["op"], self._operand(env, rv["l"]), self._operand(env, rv["r"]))
        if k == "un":
            return ("un", rv["op"], self._operand(env, rv["o"]))
        if k == "agg" and rv.get("agg") == "tuple":
            return ("tuple", [self._operand(env, o) for o in rv["ops"]])
        return UNK

    def paths(self):
        """[(conds, env)] for every path start -> stop; conds = [(expr, truth)]."""
        out = []
        work = [(self.start, [], {}, 0)]
        while work:
            blk, conds, env, steps = work.pop()
            if steps > 400:
                raise NotDecidable("region too long (loop?)")
            if blk == self.stop:
                out.append((conds, env))
                if len(out) > self.max_paths:
                    raise NotDecidable("too many paths")
                continue
            env = dict(env)
            for s in self.b.blocks[blk]["stmts"]:
                if "pl" not in s:
                    continue
                if s["pl"]["p"]:
                    env[s["pl"]["l"]] = UNK
                else:
                    env[s["pl"]["l"]] = self._rvalue(env, s["rv"])
            t = self.b.term(blk)
            k = t["k"]
            if k in ("goto", "false_edge", "false_unwind", "drop", "assert"):
                work.append((t["target"], conds, env, steps + 1))
            elif k == "call":
                if t.get("dest") is not None:
                    eu = euclid_call(t, lambda o: self._operand(env, o))
                    env[t["dest"]["l"]] = eu if (eu is not None and not t["dest"]["p"]) else UNK
                if t["target"] is not None:
                    work.append((t["target"], conds, env, steps + 1))
            elif k == "switch":
                d = self._operand(env, t["discr"])
                if t.get("discr_ty") == "bool":
                    info = core.switch_info(self.prog, self.b, blk)
                    work.append((info["edges"]["true"], conds + [(d, True)], env, steps + 1))
                    work.append((info["edges"]["false"], conds + [(d, False)], env, steps + 1))
                else:
                    neg = []
                    for v, tgt in t["targets"]:
                        c = ("bin", "Eq", d, lit(v))
                        work.append((tgt, conds + neg + [(c, True)], env, steps + 1))
                        neg = neg + [(c, False)]
                    work.append((t["otherwise"], conds + neg, env, steps + 1))
            else:
                # return / unreachable inside the region: that path never reaches `stop`
                continue
        return out


def from_describe(d):
    """core.describe() tree of constants / arithmetic -> expression."""
    if not isinstance(d, tuple) or not d:
        return UNK
    if d[0] == "lit" and isinstance(d[1], (int, bool)):
        return lit(d[1])
    if d[0] == "field" and isinstance(d[1], tuple) and d[1][0] == "bin" and d[1][1] in CHECKED and d[2] == 0:
        return mk_bin(CHECKED[d[1][1]], from_describe(d[1][2]), from_describe(d[1][3]))
    if d[0] == "bin":
        a, b = from_describe(d[2]), from_describe(d[3])
        if a == UNK or b == UNK:
            return UNK
        op = CHECKED.get(d[1], d[1])
        return mk_bin(op, a, b) if d[1] not in CHECKED else ("bin", op, a, b)
    return UNK


def euclid_call(t, operand):
    """`a.div_euclid(b)` / `a.rem_euclid(b)` on integers as flooring operators (positive divisor)."""
    m = core.re.search(r"num::<impl [iu](8|16|32|64|128|size)>::(div_euclid|rem_euclid)$", t.get("callee") or "")
    if not m or len(t["args"]) != 2:
        return None
    a, b = operand(t["args"][0]), operand(t["args"][1])
    if a == UNK or b == UNK:
        return None
    return ("bin", "DivE" if m.group(2) == "div_euclid" else "RemE", a, b)


def resolve_single(prog, body, l, keep, depth=0):
    """Expression of a single-definition arithmetic local in terms of parameters and `keep` locals (None if it is not one)."""
    if depth > 24 or l <= body.argc or keep(l):
        return None
    ds = body.defs().get(l, [])
    if len(ds) == 1 and ds[0][2] == "call":
        def op2(o):
            if o.get("k") == "const":
                v = o.get("v")
                return lit(v) if isinstance(v, (bool, int)) else from_describe(core.describe(prog, body, o))
            if o["pl"]["p"]:
                return UNK
            r = resolve_single(prog, body, o["pl"]["l"], keep, depth + 1)
            return r if r is not None else ("sym", o["pl"]["l"], body.local_name(o["pl"]["l"]))
        return euclid_call(ds[0][3], op2)
    if len(ds) != 1 or ds[0][2] != "assign" or ds[0][3]["pl"]["p"]:
        return None
    rv = ds[0][3]["rv"]

    def operand(o):
        if o.get("k") == "const":
            v = o.get("v")
            if isinstance(v, (bool, int)):
                return lit(v)
            return from_describe(core.describe(prog, body, o))
        pl = o["pl"]
        base = resolve_single(prog, body, pl["l"], keep, depth + 1)
        if base is None:
            base = ("sym", pl["l"], body.local_name(pl["l"]))
        for e in pl["p"]:
            if e[0] == "f" and base[0] == "chk":
                base = ("bin", base[1], base[2], base[3]) if e[1] == 0 else lit(False)
            else:
                return UNK
        return base
    k = rv["k"]
    if k in ("use", "cast"):
        v = operand(rv["o"])
    elif k == "bin":
        a, b_ = operand(rv["l"]), operand(rv["r"])
        if a == UNK or b_ == UNK:
            return None
        v = mk_bin(rv["op"], a, b_)
    elif k == "un":
        a = operand(rv["o"])
        if a == UNK:
            return None
        v = ("un", rv["op"], a)
    else:
        return None
    return None if v == UNK else v


def def_blocks(body, l):
    return sorted(set(d[0] for d in body.defs().get(l, []) if not (d[2] == "assign" and d[3]["pl"]["p"])))


def in_loop(body, blk):
    return blk in body.reachable(body.succs(blk))


def final_value(prog, body, l):
    """Piecewise value of local l once all its definitions have re-converged: (pieces, region) with
    pieces = [(conds, expr)].  Raises NotDecidable if a definition sits in a loop."""
    dbs = def_blocks(body, l)
    if not dbs:
        raise NotDecidable("no definition")
    if len(body.defs().get(l, [])) == 1 and not in_loop(body, dbs[0]):
        return [([], ("sym", l, body.local_name(l)))], (dbs[0], dbs[0])
    if any(in_loop(body, d) for d in dbs):
        raise NotDecidable("defined inside a loop")
    dom = body.dominators()
    first = [d for d in dbs if all(body.dominates(d, o) for o in dbs)]
    if first:
        d1 = first[0]
    else:
        # definitions in the arms of a branch: start at their nearest common dominator
        common = [n for n in range(len(body.blocks)) if all(body.dominates(n, o) for o in dbs)]
        if not common:
            raise NotDecidable("no common dominator of the definitions")
        d1 = [n for n in common if all(body.dominates(m, n) for m in common)][0]
        if in_loop(body, d1):
            raise NotDecidable("defined inside a loop")
    # join: the nearest block after every definition through which every path from d1 to a return must pass
    rets = core.return_blocks(body)
    order = []
    seen = body.reachable([d1])
    dist = {d1: 0}
    frontier = [d1]
    while frontier:
        nxt = []
        for u in frontier:
            for v in body.succs(u):
                if v not in dist:
                    dist[v] = dist[u] + 1
                    nxt.append(v)
        frontier = nxt
    cands = sorted((n for n in seen if n not in dbs and all(n in body.reachable([d]) for d in dbs)), key=lambda n: dist.get(n, 1 << 30))
    join = None
    for c in cands:
        if all(not in_loop(body, c) or True for _ in [0]) and core.must_pass(body, [d1], rets, through_nodes=[c], after_from=False) is None \
                and not any(d in body.reachable([c]) for d in dbs):
            join = c
            break
    if join is None:
        raise NotDecidable("no re-convergence point")
    reg = Region(prog, body, d1, join)
    pieces = []
    for conds, env in reg.paths():
        v = env.get(l)
        if v is None:
            raise NotDecidable("path without a definition")
        if v[0] == "chk":
            v = ("bin", v[1], v[2], v[3])
        pieces.append((conds, v))
    return pieces, (d1, join)


def expand(prog, body, pieces, keep):
    """Replace symbols that are single-definition arithmetic locals by their definitions, until only symbols in `keep`
    (a predicate on the local index) or parameters remain."""
    def sym_def(s):
        v = resolve_single(prog, body, s[1], keep)
        if v is not None and v[0] == "chk":
            v = ("bin", v[1], v[2], v[3])
        return v
    out = []
    for conds, e in pieces:
        for _ in range(12):
            m = {}
            for s in syms(e) | set().union(*[syms(c) for c, _t in conds]) if conds else syms(e):
                d = sym_def(s)
                if d is not None:
                    m[s] = d
            if not m:
                break
            e = subst(e, m)
            conds = [(subst(c, m), t) for c, t in conds]
        out.append((conds, e))
    return out


# --------------------------------------------------------------------------------------------
# decision
# --------------------------------------------------------------------------------------------

def _linear(e, x):
    """(a, b) with e == a*x + b, or None."""
    k = e[0]
    if k == "lit" and isinstance(e[1], int) and not isinstance(e[1], bool):
        return (0, e[1])
    if k == "sym":
        return (1, 0) if e == x else None
    if k in ("bin", "chk"):
        l, r = _linear(e[2], x), _linear(e[3], x)
        if l is None or r is None:
            return None
        if e[1] == "Add":
            return (l[0] + r[0], l[1] + r[1])
        if e[1] == "Sub":
            return (l[0] - r[0], l[1] - r[1])
        if e[1] == "Mul":
            if l[0] == 0:
                return (r[0] * l[1], r[1] * l[1])
            if r[0] == 0:
                return (l[0] * r[1], l[1] * r[1])
    return None


def _nonneg(e):
    """Structurally >= 0 for every input."""
    if e[0] == "lit":
        return isinstance(e[1], int) and e[1] >= 0
    if e[0] in ("bin", "chk"):
        op = e[1]
        if op == "RemE":
            return e[3][0] == "lit" and e[3][1] > 0
        if op in ("Div", "DivE", "Rem"):
            return _nonneg(e[2]) and e[3][0] == "lit" and e[3][1] > 0
        if op in ("Add", "Mul"):
            return _nonneg(e[2]) and _nonneg(e[3])
    return False


def _mono(e, x):
    """Structurally monotone non-decreasing in x."""
    lin = _linear(e, x)
    if lin is not None:
        return lin[0] >= 0
    if e[0] in ("bin", "chk"):
        op = e[1]
        if op == "Add":
            return _mono(e[2], x) and _mono(e[3], x)
        if op == "Sub":
            return _mono(e[2], x) and e[3][0] == "lit"
        if op == "Mul":
            return (_mono(e[2], x) and e[3][0] == "lit" and e[3][1] >= 0) or (_mono(e[3], x) and e[2][0] == "lit" and e[2][1] >= 0)
        if op in ("Div", "DivE"):
            return _mono(e[2], x) and e[3][0] == "lit" and e[3][1] > 0
    return False


def _mono_root(e, x):
    """Smallest v with e(v) >= 0 for a monotone e (bisection over |v| < 2^62), or None if the sign never changes."""
    lo, hi = -(1 << 62), 1 << 62
    if ev(e, {x: lo}) >= 0 or ev(e, {x: hi}) < 0:
        return None
    while hi - lo > 1:
        mid = (lo + hi) // 2
        if ev(e, {x: mid}) >= 0:
            hi = mid
        else:
            lo = mid
    return hi


def _collect(e, x, divisors, roots):
    """Roots beyond which every truncating division has a dividend of constant sign and every comparison of a
    non-periodic operand has a constant outcome.  (`divisors` is kept for reporting.)"""
    k = e[0]
    if k in ("bin", "chk"):
        op = e[1]
        if op in ("DivE", "RemE", "Div", "Rem"):
            if e[3][0] != "lit" or e[3][1] <= 0:
                raise NotDecidable("division by a non-constant or non-positive value")
            divisors.append(e[3][1])
        if op in ("Div", "Rem"):
            g = e[2]
            lin = _linear(g, x)
            if lin is not None:
                if lin[0] != 0:
                    roots.append(-lin[1] / lin[0])
            elif _nonneg(g):
                pass                        # always >= 0: truncation is flooring
            elif g[0] in ("bin", "chk") and g[1] == "Rem":
                pass                        # sign follows its own dividend, whose root is collected below
            elif _mono(g, x):
                r = _mono_root(g, x)
                if r is not None:
                    roots.append(r)
                    roots.append(r - 1)
            else:
                raise NotDecidable(f"dividend {show(g)} has no analysable sign")
        if op in ("Lt", "Le", "Gt", "Ge", "Eq", "Ne"):
            diff = ("bin", "Sub", e[2], e[3])
            lin = _linear(diff, x)
            if lin is not None:
                if lin[0] != 0:
                    roots.append(-lin[1] / lin[0])
            elif _periodic(e[2], x) and _periodic(e[3], x):
                pass
            elif _mono(e[2], x) and e[3][0] == "lit":
                for off in (0, 1):
                    r = _mono_root(("bin", "Sub", e[2], lit(e[3][1] + off)), x)
                    if r is not None:
                        roots.append(r)
                        roots.append(r - 1)
            else:
                raise NotDecidable(f"comparison {show(e)} is neither linear, monotone-vs-constant, nor between periodic values")
        _collect(e[2], x, divisors, roots)
        _collect(e[3], x, divisors, roots)
    elif k == "un":
        _collect(e[2], x, divisors, roots)


def _qp(e, x):
    """(period, slope) of e in the outer regions, derived structurally (see hv.qlin)."""
    from fractions import Fraction
    k = e[0]
    if k == "lit":
        return 1, Fraction(0)
    if k == "sym":
        return 1, Fraction(1 if e == x else 0)
    if k == "un":
        p, s_ = _qp(e[2], x)
        return p, (Fraction(0) if e[1] == "Not" else -s_)
    if k in ("bin", "chk"):
        op = e[1]
        p1, s1 = _qp(e[2], x)
        p2, s2 = _qp(e[3], x)
        P = _lcm(p1, p2)
        if op == "Add":
            return P, s1 + s2
        if op == "Sub":
            return P, s1 - s2
        if op == "Mul":
            if e[3][0] == "lit":
                return p1, s1 * e[3][1]
            if e[2][0] == "lit":
                return p2, s2 * e[2][1]
            raise NotDecidable("product of two non-constants")
        if op in ("Div", "DivE", "Rem", "RemE"):
            c = e[3][1]
            inc = s1 * p1
            if inc.denominator != 1:
                raise NotDecidable("non-integral increment")
            m = 1 if inc == 0 else c // gcd(abs(int(inc)), c)
            return p1 * m, (s1 / c if op in ("Div", "DivE") else Fraction(0))
        return P, Fraction(0)       # comparisons / boolean operators
    raise NotDecidable(f"cannot derive a period for {k}")


def _periodic(e, x):
    """Structurally periodic in x: constants, `<anything> % c`, and sums / differences / constant multiples of those."""
    k = e[0]
    if k == "lit":
        return True
    if k in ("bin", "chk"):
        if e[1] in ("Rem", "RemE") and e[3][0] == "lit":
            return True
        if e[1] in ("Add", "Sub", "Mul", "Div"):
            return _periodic(e[2], x) and _periodic(e[3], x)
    return False


def _lcm(a, b):
    return a * b // gcd(a, b)


def select(pieces, binding):
    hit = None
    for conds, e in pieces:
        if all(bool(ev(c, binding)) == t for c, t in conds):
            if hit is not None:
                raise NotDecidable("overlapping pieces")
            hit = e
    if hit is None:
        raise NotDecidable("no piece applies")
    return ev(hit, binding)


def decide_forall(pieces, x, ref, ref_period, domain=None, max_points=4_000_000):
    """Is select(pieces)(v) == ref(v) for every integer v (or every v in `domain` = (lo, hi) inclusive)?
    Returns (ok, witness, info)."""
    for conds, e in pieces:
        extra = (syms(e) | (set().union(*[syms(c) for c, _ in conds]) if conds else set())) - {x}
        if extra:
            raise NotDecidable(f"depends on other values: {[show(s) for s in extra]}")

    def at(v):
        return select(pieces, {x: v})
    if domain is not None:
        lo, hi = domain
        if hi - lo + 1 > max_points:
            raise NotDecidable("domain too large")
        for v in range(lo, hi + 1):
            if at(v) != ref(v):
                return False, v, {"mode": "finite domain", "points": v - lo + 1}
        return True, None, {"mode": "finite domain", "points": hi - lo + 1}
    divisors, roots = [], []
    for conds, e in pieces:
        _collect(e, x, divisors, roots)
        for c, _ in conds:
            _collect(c, x, divisors, roots)
    P = ref_period
    for conds, e in pieces:
        P = _lcm(P, _qp(e, x)[0])
        for c, _ in conds:
            P = _lcm(P, _qp(c, x)[0])
    import math
    hi_root = math.ceil(max(roots)) if roots else 0
    lo_root = math.floor(min(roots)) if roots else 0
    n = (hi_root - lo_root + 1) + 2 * P
    if n > max_points:
        raise NotDecidable(f"{n} case-split points")
    # middle
    for v in range(lo_root - 1, hi_root + 2):
        if at(v) != ref(v):
            return False, v, {"mode": "between roots", "period": P}
    # upper region: one period + equal increments
    for v in range(hi_root + 1, hi_root + 1 + P):
        a0, r0 = at(v), ref(v)
        if a0 != r0:
            return False, v, {"mode": "upper region", "period": P}
        if at(v + P) - a0 != ref(v + P) - r0:
            return False, v + P, {"mode": "upper increment", "period": P}
    for v in range(lo_root - 1, lo_root - 1 - P, -1):
        a0, r0 = at(v), ref(v)
        if a0 != r0:
            return False, v, {"mode": "lower region", "period": P}
        if at(v - P) - a0 != ref(v - P) - r0:
            return False, v - P, {"mode": "lower increment", "period": P}
    return True, None, {"mode": "periodic case split", "period": P, "roots": [lo_root, hi_root], "points": n}

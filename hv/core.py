"""Core of the hv rule engine: facts model, CFG utilities, backward slicing, HIR helpers."""
import json
import os
import re
from collections import defaultdict, deque

from . import extract as _extract


# --------------------------------------------------------------------------------------------
# Facts model
# --------------------------------------------------------------------------------------------

class Body:
    """One MIR body (pre-borrowck `mir_promoted` form unless `elab`)."""

    def __init__(self, path, raw, crate, config, elab=False):
        self.path = path
        self.raw = raw
        self.crate = crate
        self.config = config
        self.elab = elab
        self.kind = raw["kind"]
        self.file = raw["file"]
        self.line = raw["line"]
        self.argc = raw["argc"]
        self.locals = raw["locals"]
        self.upvars = raw.get("upvars", [])
        self.blocks = raw["blocks"]
        self.parent = raw.get("parent")
        self._succ = None
        self._pred = None
        self._dom = None
        self._defs = None

    def __repr__(self):
        return f"<Body {self.path} [{self.config}]>"

    # ---- basic accessors
    def term(self, b):
        return self.blocks[b]["term"]

    def stmts(self, b):
        return [s for s in self.blocks[b]["stmts"] if "pl" in s]

    def local_ty(self, l):
        return self.locals[l]["ty"]

    def local_name(self, l):
        return self.locals[l].get("name")

    def where(self, b):
        t = self.term(b)
        return f"{self.blocks[b].get('file') or self.file}:{t.get('line', self.line)}"

    # ---- CFG
    def succs(self, b, unwind=False):
        t = self.term(b)
        if t is None:
            return []
        k = t["k"]
        out = []
        if k in ("goto", "false_edge", "false_unwind"):
            out = [t["target"]]
        elif k == "switch":
            out = [x[1] for x in t["targets"]] + [t["otherwise"]]
            dead = self._dead_switch_target(b, t)
            if dead is not None:
                out = [x for x in out if x != dead] or out
        elif k in ("drop", "assert"):
            out = [t["target"]]
        elif k == "call":
            if t["target"] is not None:
                out = [t["target"]]
        elif k == "yield":
            out = [t["target"]]
        if unwind and t.get("unwind") is not None:
            out = out + [t["unwind"]]
        # dedupe, keep order
        seen = set()
        res = []
        for x in out:
            if x not in seen:
                seen.add(x)
                res.append(x)
        return res

    def _dead_switch_target(self, b, t):
        """`0 <= x` / `x >= 0` on an unsigned x (as produced for the lower bound of a range pattern `0..=N`) is always true:
        the false edge of a switch on it cannot be taken."""
        if t.get("discr_ty") != "bool":
            return None
        dl = t["discr"].get("pl", {}).get("l") if t["discr"].get("pl") else None
        if dl is None:
            return None
        for st in reversed(self.blocks[b]["stmts"]):
            if "pl" in st and st["pl"]["l"] == dl and not st["pl"]["p"]:
                rv = st["rv"]
                if rv["k"] == "bin" and rv["op"] in ("Le", "Ge"):
                    c = rv["l"] if rv["op"] == "Le" else rv["r"]
                    if c.get("k") == "const" and (c.get("v") == 0 or c.get("tyconst") == "0") and not isinstance(c.get("v"), bool) and str(c.get("ty", "")).startswith("u"):
                        for v, tgt in t["targets"]:
                            if v == 0:
                                return tgt if tgt != t["otherwise"] else None
                return None
        return None

    def succ_map(self):
        if self._succ is None:
            self._succ = [self.succs(b) for b in range(len(self.blocks))]
        return self._succ

    def pred_map(self):
        if self._pred is None:
            p = [[] for _ in self.blocks]
            for b, ss in enumerate(self.succ_map()):
                for s in ss:
                    p[s].append(b)
            self._pred = p
        return self._pred

    def reachable(self, starts, removed_nodes=(), removed_edges=(), unwind=False, stop=None):
        """Blocks reachable from `starts` (inclusive) without entering removed nodes/edges."""
        removed_nodes = set(removed_nodes)
        removed_edges = set(removed_edges)
        seen = set()
        dq = deque()
        for s in starts:
            if s not in removed_nodes and s not in seen:
                seen.add(s)
                dq.append(s)
        parent = {}
        while dq:
            b = dq.popleft()
            if stop is not None and b in stop:
                continue
            for s in self.succs(b, unwind=unwind):
                if s in removed_nodes or (b, s) in removed_edges or s in seen:
                    continue
                seen.add(s)
                parent[s] = b
                dq.append(s)
        self._last_parent = parent
        return seen

    def path_to(self, starts, target, removed_nodes=(), removed_edges=()):
        """A block path from one of starts to target avoiding removed nodes/edges, or None."""
        seen = self.reachable(starts, removed_nodes, removed_edges)
        if target not in seen:
            return None
        parent = self._last_parent
        p = [target]
        while p[-1] in parent and p[-1] not in starts:
            p.append(parent[p[-1]])
        return list(reversed(p))

    def dominators(self):
        """Immediate-dominator based dom sets over normal (non-unwind) edges; entry = 0."""
        if self._dom is not None:
            return self._dom
        n = len(self.blocks)
        succ = self.succ_map()
        # reverse postorder
        order = []
        seen = [False] * n
        stack = [(0, iter(succ[0]))]
        seen[0] = True
        while stack:
            b, it = stack[-1]
            adv = False
            for s in it:
                if not seen[s]:
                    seen[s] = True
                    stack.append((s, iter(succ[s])))
                    adv = True
                    break
            if not adv:
                order.append(b)
                stack.pop()
        rpo = list(reversed(order))
        idx = {b: i for i, b in enumerate(rpo)}
        pred = self.pred_map()
        idom = {0: 0}
        changed = True

        def inter(a, b):
            while a != b:
                while idx[a] > idx[b]:
                    a = idom[a]
                while idx[b] > idx[a]:
                    b = idom[b]
            return a
        while changed:
            changed = False
            for b in rpo[1:]:
                ps = [p for p in pred[b] if p in idom]
                if not ps:
                    continue
                new = ps[0]
                for p in ps[1:]:
                    new = inter(new, p)
                if idom.get(b) != new:
                    idom[b] = new
                    changed = True
        self._dom = idom
        return idom

    def dominates(self, a, b):
        """Block a dominates block b (normal edges)."""
        idom = self.dominators()
        if b not in idom or a not in idom:
            return False
        x = b
        while True:
            if x == a:
                return True
            if x == 0:
                return False
            x = idom[x]

    def edge_dominates(self, src, dst, b):
        """Edge src->dst dominates block b: every path entry->b uses that edge."""
        # b unreachable from entry once the edge is removed
        if b not in self.dominators():
            return False
        return b not in self.reachable([0], removed_edges={(src, dst)})

    # ---- calls
    def calls(self):
        for b, blk in enumerate(self.blocks):
            t = blk["term"]
            if t and t["k"] == "call":
                yield b, t

    def calls_to(self, pred):
        """pred: callable(name)->bool or regex string matched against callee/resolved."""
        out = []
        for b, t in self.calls():
            if call_matches(t, pred):
                out.append((b, t))
        return out

    # ---- definitions
    def defs(self):
        """local -> list of (block, stmt_index or 'term', kind, payload)."""
        if self._defs is None:
            d = defaultdict(list)
            for b, blk in enumerate(self.blocks):
                for i, s in enumerate(blk["stmts"]):
                    if "pl" in s:
                        d[s["pl"]["l"]].append((b, i, "assign", s))
                t = blk["term"]
                if t and t["k"] == "call":
                    d[t["dest"]["l"]].append((b, "term", "call", t))
                if t and t["k"] == "yield":
                    d[t["resume_arg"]["l"]].append((b, "term", "yield", t))
            self._defs = d
        return self._defs


def callee_names(t):
    """All names a call terminator can be matched by."""
    names = []
    for k in ("resolved", "callee", "callee_args"):
        v = t.get(k)
        if v:
            names.append(v)
    return names


def call_matches(t, pred):
    if t is None or t.get("k") != "call":
        return False
    names = callee_names(t)
    if callable(pred):
        return any(pred(n) for n in names)
    if isinstance(pred, (list, tuple, set, frozenset)):
        return any(call_matches(t, p) for p in pred)
    rx = re.compile(pred)
    return any(rx.search(n) for n in names)


def op_local(op):
    """Local index of a copy/move operand with no projection other than derefs, else None."""
    if op and op.get("k") in ("copy", "move"):
        return op["pl"]["l"]
    return None


def op_place(op):
    if op and op.get("k") in ("copy", "move"):
        return op["pl"]
    return None


def op_const(op):
    """Python value of a constant operand (int/bool/str/bytes list) or None."""
    if op and op.get("k") == "const":
        if "v" in op:
            return op["v"]
        if "bytes" in op:
            return bytes(op["bytes"])
    return None


class Program:
    """Facts of one build configuration."""

    def __init__(self, config, facts_dir, digest, info):
        self.config = config
        self.facts_dir = facts_dir
        self.digest = digest
        self.info = info
        self.bodies = {}
        self.elab = {}
        self.hir = {}
        self.enums = {}
        self.structs = {}
        self.macros = {}
        self.fns = {}
        self.crates = []
        raws = {}
        aliases = {}
        for f in sorted(os.listdir(facts_dir)):
            if not f.endswith(".json"):
                continue
            with open(os.path.join(facts_dir, f)) as fh:
                # raw identifiers (`mod r#static`) print as `r#static` in paths: normalise
                raws[f] = fh.read().replace("::r#", "::")
            m = re.search(r'"aliases":\{([^{}]*)\}', raws[f])
            if m and m.group(1).strip():
                aliases.update(json.loads("{" + m.group(1) + "}"))
        # other crates name re-exported items by their visible path (`humphrey::http::Response`):
        # rewrite to the canonical definition path so that one item has one name in all facts
        self.aliases = aliases
        if aliases:
            rx = re.compile("(" + "|".join(re.escape(a) for a in sorted(aliases, key=len, reverse=True)) + r")(?![A-Za-z0-9_])")
        for f in sorted(raws):
            text = raws[f]
            if aliases:
                head, sep, tail = text.rpartition('"aliases":')
                text = rx.sub(lambda m: aliases[m.group(1)], head) + sep + tail
            d = json.loads(text)
            crate = d["crate"] + (".bin" if f.endswith(".bin.json") else "")
            if len(d["bodies"]) < len(d["elab"]) or (d["hir"] and not d["bodies"]):
                raise RuntimeError(f"facts file {f} has {len(d['bodies'])} MIR bodies for {len(d['elab'])} "
                                   f"elaborated ones: the mir_promoted provider was skipped (fail closed)")
            self.crates.append(crate)
            pfx = "bin:" if f.endswith(".bin.json") else ""
            for p, raw in d["bodies"].items():
                self.bodies[pfx + p] = Body(pfx + p, raw, crate, config)
            for p, raw in d["elab"].items():
                self.elab[pfx + p] = Body(pfx + p, raw, crate, config, elab=True)
            for p, raw in d["hir"].items():
                self.hir[pfx + p] = raw
            it = d["items"]
            self.enums.update(it["enums"])
            self.structs.update(it["structs"])
            for k, v in it["macros"].items():
                self.macros[d["crate"] + "::" + k] = v
            for k, v in it["fns"].items():
                self.fns[pfx + k] = v
        # normalisation: helpers that are new relative to the pinned tree are inlined into their callers (hv/inline.py)
        self.extra_closures = {}
        _resolve_named_consts(self)
        from . import inline as _inline
        _inline.apply(self, Body)

    def body(self, path):
        return self.bodies.get(path)

    def impl_fn(self, trait_ref_rx, method):
        """Paths of methods `method` of impls whose trait ref matches the regex (role lookup)."""
        r = re.compile(trait_ref_rx)
        out = []
        for p, f in self.fns.items():
            tr = f.get("impl_trait_ref")
            if tr and r.search(tr) and p.endswith("::" + method):
                out.append(p)
        return out

    def inherent_fns(self, self_ty_rx, method=None):
        r = re.compile(self_ty_rx)
        out = []
        for p, f in self.fns.items():
            if f.get("impl_self") and not f.get("impl_trait") and r.search(f["impl_self"]):
                if method is None or p.endswith("::" + method):
                    out.append(p)
        return out

    def impl_body(self, path):
        """The body holding the code of fn `path`: the coroutine for an `async fn`, else the fn."""
        co = self.bodies.get(path + "::{closure#0}")
        if co is not None and co.kind == "coroutine":
            return co
        return self.bodies.get(path)

    def find_bodies(self, rx):
        r = re.compile(rx)
        return [b for p, b in self.bodies.items() if r.search(p)]

    def closures_of(self, path):
        extra = set(self.extra_closures.get(path, ()))
        return [b for p, b in self.bodies.items() if b.parent == path or p in extra]

    def all_closures_of(self, path):
        out = []
        work = [path]
        while work:
            p = work.pop()
            for b in self.closures_of(p):
                out.append(b)
                work.append(b.path)
        return out

    def callers_of(self, rx):
        out = []
        new = set(getattr(self, "new_functions", ()))
        for b in self.bodies.values():
            if b.path in new:
                continue        # inlined into its callers: the call is seen there
            for blk, t in b.calls_to(rx):
                out.append((b, blk, t))
        return out

    # call graph over local bodies
    def local_callees(self, body):
        out = set()
        for _, t in body.calls():
            for n in callee_names(t):
                if n in self.bodies:
                    out.add(n)
        # closures constructed here
        for blk in body.blocks:
            for s in blk["stmts"]:
                if "rv" in s and s["rv"].get("k") == "agg" and s["rv"].get("agg") in ("closure", "coroutine", "coroutine_closure"):
                    d = s["rv"].get("def")
                    if d in self.bodies:
                        out.add(d)
        return out

    def reach_bodies(self, roots, extra_edges=None):
        seen = set()
        work = list(roots)
        while work:
            p = work.pop()
            if p in seen or p not in self.bodies:
                continue
            if p in getattr(self, "awaited_inlined", ()) and p not in roots:
                continue        # the body of an awaited new async helper: part of its callers now (hv/inline.py)
            seen.add(p)
            work.extend(self.local_callees(self.bodies[p]))
            if extra_edges:
                work.extend(extra_edges(self.bodies[p]))
        return seen


_PROGRAMS = {}


def _resolve_named_consts(prog):
    """A use of a named scalar constant (`const H0: u32 = 0x67452301; .. = H0`) is given the constant's value, so that rules which look at
    literal operands see the same program whether a number is written in place or through a `const` item."""
    cache = {}

    def value(path):
        if path not in cache:
            cache[path] = None
            cb = prog.bodies.get(path)
            if cb is not None and cb.kind in ("const",):
                try:
                    d = describe(prog, cb, 0)
                except Exception:
                    d = None
                if isinstance(d, tuple) and d[0] == "lit" and isinstance(d[1], (int, bool)):
                    cache[path] = d[1]
            elif cb is None:
                try:
                    d = const_from_hir(prog, path)
                except Exception:
                    d = None
                if isinstance(d, tuple) and d[0] == "lit" and isinstance(d[1], (int, bool)):
                    cache[path] = d[1]
        return cache[path]

    def walk(x):
        if isinstance(x, dict):
            if x.get("k") == "const" and "def" in x and "v" not in x and "promoted" not in x and "fn" not in x:
                v = value(x["def"])
                if v is not None:
                    x["v"] = v
            for y in x.values():
                walk(y)
        elif isinstance(x, list):
            for y in x:
                walk(y)

    for b in list(prog.bodies.values()):
        if b.kind in ("const", "static"):
            continue
        walk(b.blocks)


def prog_of(body):
    """the loaded Program a Body belongs to (bodies do not carry a back reference)"""
    for p in _PROGRAMS.values():
        if p.bodies.get(body.path) is body or p.elab.get(body.path) is body:
            return p
    return None


def load(config, fresh=False):
    key = config
    if key in _PROGRAMS and not fresh:
        return _PROGRAMS[key]
    # (the facts are read under the configuration's lock: a concurrent `fresh` run or cache pruning cannot pull the directory away)
    p = _extract.extract(config, fresh=fresh, reader=lambda d, dg, info: Program(config, d, dg, info))
    _PROGRAMS[key] = p
    return p


# --------------------------------------------------------------------------------------------
# Backward slicing (R-FLOW)
# --------------------------------------------------------------------------------------------

TRANSPARENT = [
    r"^std::ops::Deref::deref$", r"^std::ops::DerefMut::deref_mut$",
    r"^std::convert::AsRef::as_ref$", r"^std::convert::AsMut::as_mut$",
    r"^std::borrow::Borrow::borrow$", r"^std::borrow::BorrowMut::borrow_mut$",
    r"^std::clone::Clone::clone$", r"^std::borrow::ToOwned::to_owned$",
    r"^std::convert::Into::into$", r"^std::convert::From::from$",
    r"^std::string::ToString::to_string$",
    r"^std::string::String::as_str$", r"^std::string::String::as_bytes$",
    r"^std::str::<impl str>::as_bytes$", r"^std::str::<impl str>::to_string$",
    r"^std::vec::Vec::<T, A>::as_slice$", r"^std::vec::Vec::<T, A>::as_mut_slice$",
    r"^std::option::Option::<T>::as_ref$", r"^std::option::Option::<T>::as_mut$",
    r"^std::option::Option::<T>::unwrap$", r"^std::option::Option::<T>::expect$",
    r"^std::option::Option::<T>::ok_or", r"^std::option::Option::<T>::cloned$",
    r"^std::option::Option::<T>::copied$", r"^std::option::Option::<&T>::cloned$",
    r"^std::option::Option::<T>::as_deref", r"^std::option::Option::<T>::unwrap_or",
    r"^std::result::Result::<T, E>::unwrap$", r"^std::result::Result::<T, E>::expect$",
    r"^std::result::Result::<T, E>::ok$", r"^std::result::Result::<T, E>::map_err$",
    r"^std::result::Result::<T, E>::as_ref$", r"^std::result::Result::<T, E>::as_mut$",
    r"^std::ops::Try::branch$", r"^std::ops::FromResidual::from_residual$",
    r"^std::future::IntoFuture>?::into_future$", r"^std::pin::Pin::<Ptr>::new_unchecked$",
    r"^std::pin::Pin::<Ptr>::new$", r"^std::pin::Pin::<Ptr>::as_mut$",
    r"^std::iter::IntoIterator::into_iter$",
    r"^std::boxed::Box::<T>::new$", r"^std::sync::Arc::<T>::new$",
    r"^std::slice::<impl \[T\]>::to_vec$", r"^std::slice::<impl \[T\]>::iter$",
    r"^std::vec::Vec::<T, A>::iter$",
]
_TRANSPARENT_RX = [re.compile(x) for x in TRANSPARENT]


def is_transparent(t, extra=()):
    n = t.get("callee") or ""
    for rx in _TRANSPARENT_RX:
        if rx.search(n):
            return True
    for x in extra:
        if call_matches(t, x):
            return True
    return False


class Producer:
    """End point of a backward slice."""

    def __init__(self, kind, body, block=None, data=None):
        self.kind = kind      # 'call' | 'const' | 'param' | 'upvar' | 'agg' | 'bin' | 'other' | 'static'
        self.body = body
        self.block = block
        self.data = data

    def name(self):
        if self.kind == "call":
            return self.data.get("resolved") or self.data.get("callee") or "<indirect>"
        if self.kind == "const":
            return f"const {self.data!r}"
        if self.kind == "param":
            return f"param#{self.data}"
        if self.kind == "upvar":
            return f"upvar#{self.data}"
        return f"{self.kind}"

    def __repr__(self):
        return f"P({self.name()}@{self.body.path.split('::')[-1]}:{self.block})"


def _captured_operand_local(body, l, idx, depth=0):
    """local captured as operand `idx` of the closure / coroutine aggregate that local `l` holds (through plain copies, references and the
    Pin::new_unchecked(&mut into_future(..)) wrappers of an `.await`), or None"""
    seen = set()
    while l is not None and l not in seen and depth < 12:
        seen.add(l)
        depth += 1
        ds = [d for d in body.defs().get(l, []) if d[2] != "yield"]
        if len(ds) != 1:
            return None
        d = ds[0]
        if d[2] == "assign" and not d[3]["pl"]["p"]:
            rv = d[3]["rv"]
            if rv["k"] == "agg" and rv.get("agg") in ("closure", "coroutine") and idx < len(rv["ops"]):
                pl = op_place(rv["ops"][idx])
                return pl["l"] if pl is not None and not pl["p"] else None
            if rv["k"] in ("use", "cast"):
                pl = op_place(rv["o"])
                l = pl["l"] if pl is not None and not pl["p"] else None
                continue
            if rv["k"] in ("ref", "rawptr") and not [e for e in rv["pl"]["p"] if e[0] != "d"]:
                l = rv["pl"]["l"]
                continue
            return None
        if d[2] == "call" and re.search(r"Pin::<Ptr>::(new_unchecked|new|as_mut)$|IntoFuture>?::into_future$|DerefMut>?::deref_mut$", d[3].get("callee") or "") and d[3]["args"]:
            pl = op_place(d[3]["args"][0])
            l = pl["l"] if pl is not None and not pl["p"] else None
            continue
        return None
    return None


def slice_back(prog, body, start_local, transparent_extra=(), through_fields=True, max_steps=4000,
               stop_calls=(), follow_args_of=(), cross_closures=True, visited=None, want_path=False):
    """Backward slice from `start_local` in `body`. Flow-insensitive per local.

    Returns a list of Producer. Calls in `stop_calls` always end the walk (as producers) even if
    transparent. Calls matching `follow_args_of` are recorded as producers AND their arguments are
    followed (to see what a wrapped value derives from).
    """
    producers = []
    seen = visited if visited is not None else set()
    work = [(body, start_local)]
    steps = 0
    while work:
        bd, l = work.pop()
        key = (bd.path, l)
        if key in seen:
            continue
        seen.add(key)
        steps += 1
        if steps > max_steps:
            producers.append(Producer("other", bd, None, "step-limit"))
            break
        if 1 <= l <= bd.argc:
            if bd.kind in ("closure", "coroutine") and l == 1:
                producers.append(Producer("closure-env", bd, None, None))
            else:
                producers.append(Producer("param", bd, None, l))
        ds = bd.defs().get(l, [])
        for (b, i, kind, payload) in ds:
            if kind == "yield":
                continue
            if kind == "call":
                t = payload
                if call_matches(t, stop_calls) if stop_calls else False:
                    producers.append(Producer("call", bd, b, t))
                    continue
                if is_transparent(t, transparent_extra):
                    for a in t["args"]:
                        al = op_local(a)
                        if al is not None:
                            work.append((bd, al))
                        elif a.get("k") == "const":
                            producers.append(Producer("const", bd, b, const_repr(a)))
                    continue
                producers.append(Producer("call", bd, b, t))
                if follow_args_of and call_matches(t, follow_args_of):
                    for a in t["args"]:
                        al = op_local(a)
                        if al is not None:
                            work.append((bd, al))
                continue
            s = payload
            rv = s["rv"]
            k = rv["k"]
            if k == "use" or k == "cast":
                o = rv["o"]
                ol = op_local(o)
                if ol is not None:
                    pl = o["pl"]
                    # upvar access: _1.N in closures
                    if bd.kind in ("closure", "coroutine") and ol == 1 and cross_closures:
                        f = _first_field(pl)
                        if f is not None:
                            _follow_upvar(prog, bd, f, work, producers)
                            continue
                    # a field of an inlined closure / awaited async helper's future: only the captured operand it names
                    f = _first_field(pl)
                    if f is not None and len([e for e in pl["p"] if e[0] == "f"]) == 1:
                        cap = _captured_operand_local(bd, ol, f)
                        if cap is not None:
                            work.append((bd, cap))
                            continue
                    work.append((bd, ol))
                else:
                    producers.append(Producer("const", bd, b, const_repr(o)))
            elif k in ("ref", "rawptr", "discr"):
                pl = rv["pl"]
                if bd.kind in ("closure", "coroutine") and pl["l"] == 1 and cross_closures:
                    f = _first_field(pl)
                    if f is not None:
                        _follow_upvar(prog, bd, f, work, producers)
                        continue
                work.append((bd, pl["l"]))
            elif k == "agg":
                if through_fields:
                    any_op = False
                    for o in rv["ops"]:
                        ol = op_local(o)
                        if ol is not None:
                            work.append((bd, ol))
                            any_op = True
                        elif o.get("k") == "const":
                            producers.append(Producer("const", bd, b, const_repr(o)))
                            any_op = True
                    if not any_op:
                        producers.append(Producer("agg", bd, b, rv))
                else:
                    producers.append(Producer("agg", bd, b, rv))
            elif k == "bin":
                producers.append(Producer("bin", bd, b, rv))
                for o in (rv["l"], rv["r"]):
                    ol = op_local(o)
                    if ol is not None:
                        work.append((bd, ol))
            elif k == "un":
                ol = op_local(rv["o"])
                if ol is not None:
                    work.append((bd, ol))
            elif k == "repeat":
                producers.append(Producer("other", bd, b, rv))
            else:
                producers.append(Producer("other", bd, b, rv))
    return producers


def _first_field(pl):
    for e in pl["p"]:
        if e[0] == "f":
            return e[1]
        if e[0] == "d":
            continue
        return None
    return None


def _follow_upvar(prog, closure_body, field, work, producers):
    """Continue a slice at the capture operand of upvar `field` at the closure construction site."""
    parent = prog.bodies.get(closure_body.parent)
    found = False
    if parent is not None:
        for b, blk in enumerate(parent.blocks):
            for s in blk["stmts"]:
                rv = s.get("rv")
                if rv and rv.get("k") == "agg" and rv.get("def") == closure_body.path:
                    ops = rv["ops"]
                    if field < len(ops):
                        ol = op_local(ops[field])
                        if ol is not None:
                            work.append((parent, ol))
                            found = True
                        elif ops[field].get("k") == "const":
                            producers.append(Producer("const", parent, b, const_repr(ops[field])))
                            found = True
    if not found:
        producers.append(Producer("upvar", closure_body, None, field))


def const_repr(o):
    if "v" in o:
        return o["v"]
    if "bytes" in o:
        return bytes(o["bytes"])
    if "def" in o:
        return ("def", o["def"])
    if "fn" in o:
        return ("fn", o["fn"])
    return ("repr", o.get("repr"))


# --------------------------------------------------------------------------------------------
# Switch decoding
# --------------------------------------------------------------------------------------------

STD_VARIANTS = {
    "std::option::Option": ["None", "Some"],
    "std::result::Result": ["Ok", "Err"],
    "std::ops::ControlFlow": ["Continue", "Break"],
    "std::task::Poll": ["Ready", "Pending"],
    "std::net::IpAddr": ["V4", "V6"],
    "std::net::SocketAddr": ["V4", "V6"],
    "std::cmp::Ordering": ["Less", "Equal", "Greater"],
    "std::borrow::Cow": ["Borrowed", "Owned"],
}


def _strip_generic_tail(t):
    """`a::B<X>::c::D<Y, Z>` -> `a::B<X>::c::D` (drop one balanced trailing <...> group)."""
    if not t.endswith(">"):
        return t
    depth = 0
    for i in range(len(t) - 1, -1, -1):
        if t[i] == ">":
            depth += 1
        elif t[i] == "<":
            depth -= 1
            if depth == 0:
                return t[:i]
    return t


def enum_variants(prog, ty):
    """Variant names (by discriminant order) for the type string of an enum, or None."""
    t = ty.lstrip("&").replace("mut ", "").strip()
    base = _strip_generic_tail(t)
    if base in STD_VARIANTS:
        return STD_VARIANTS[base]
    e = prog.enums.get(base) or prog.enums.get(t)
    if e is None:
        b2 = t.split("<", 1)[0]
        e = prog.enums.get(b2)
        if e is None and b2 in STD_VARIANTS:
            return STD_VARIANTS[b2]
    if e:
        return [v["name"] for v in e["variants"]]
    return None


def enum_discriminants(prog, ty):
    """{discriminant value: variant name} when the facts carry explicit discriminants for the enum type, else None."""
    t = ty.lstrip("&").replace("mut ", "").strip()
    base = _strip_generic_tail(t)
    e = prog.enums.get(base) or prog.enums.get(t) or prog.enums.get(t.split("<", 1)[0])
    if e and all(isinstance(v, dict) and isinstance(v.get("discr"), int) for v in e["variants"]):
        return {v["discr"]: v["name"] for v in e["variants"]}
    return None


def switch_info(prog, body, b):
    """Decode a `switch` terminator.

    Returns dict(kind='bool'|'enum'|'int', local=<tested local or None>, edges={label: target},
    otherwise=target). For enums labels are variant names; for bools 'false'/'true'.
    """
    t = body.term(b)
    if not t or t["k"] != "switch":
        return None
    discr = t["discr"]
    dl = op_local(discr)
    ty = t.get("discr_ty", "")
    info = {"block": b, "otherwise": t["otherwise"], "edges": {}, "local": dl, "kind": "int", "src": None}
    if ty == "bool":
        info["kind"] = "bool"
        for v, tgt in t["targets"]:
            info["edges"]["false" if v == 0 else "true"] = tgt
        if "true" not in info["edges"]:
            info["edges"]["true"] = t["otherwise"]
        if "false" not in info["edges"]:
            info["edges"]["false"] = t["otherwise"]
        return info
    # discriminant read?
    if dl is not None:
        for (db, i, kind, payload) in body.defs().get(dl, []):
            if kind == "assign" and payload["rv"]["k"] == "discr":
                src_pl = payload["rv"]["pl"]
                src_ty = place_ty(body, src_pl)
                vs = enum_variants(prog, src_ty) if src_ty else None
                info["src"] = src_pl
                info["src_ty"] = src_ty
                by_discr = None
                if not vs and payload.get("ext_variants"):
                    # an enum of another crate (io::ErrorKind): the driver sends its variants along with the discriminant read
                    by_discr = {d_: n_ for d_, n_ in payload["ext_variants"]}
                    vs = [n_ for d_, n_ in payload["ext_variants"]]
                    info["src_ty"] = src_ty or payload.get("ext_enum")
                if vs:
                    info["kind"] = "enum"
                    used = set()
                    by_discr = by_discr if by_discr is not None else enum_discriminants(prog, src_ty)
                    for v, tgt in t["targets"]:
                        if by_discr is not None:
                            if v in by_discr:
                                info["edges"][by_discr[v]] = tgt
                                used.add(by_discr[v])
                        elif isinstance(v, int) and v < len(vs):
                            info["edges"][vs[v]] = tgt
                            used.add(vs[v])
                    rest = [v for v in vs if v not in used]
                    # an `otherwise` that is not `unreachable` stands for the remaining variants
                    ot = body.term(t["otherwise"])
                    if ot and ot["k"] != "unreachable":
                        for v in rest:
                            info["edges"][v] = t["otherwise"]
                    return info
    for v, tgt in t["targets"]:
        info["edges"][v] = tgt
    return info


def place_ty(body, pl):
    """Type string of a place (best effort: uses field projection types recorded by the driver)."""
    ty = body.local_ty(pl["l"])
    for e in pl["p"]:
        if e[0] == "f":
            ty = e[2]
        elif e[0] == "d":
            ty = ty.lstrip("&")
            if ty.startswith("mut "):
                ty = ty[4:]
            if ty.startswith("std::boxed::Box<"):
                ty = ty[len("std::boxed::Box<"):-1]
        elif e[0] == "dc":
            pass
        else:
            return None
    return ty


def bool_test_of_call(body, call_block):
    """If the result of the call in `call_block` is switched on as bool right after, return
    (switch_block, true_target, false_target) else None. Follows copies / Not."""
    t = body.term(call_block)
    dest = t["dest"]["l"]
    return _find_bool_switch(body, dest, t["target"])


def _find_bool_switch(body, local, start_block, negate=False, depth=0):
    if start_block is None or depth > 6:
        return None
    # walk forward over straight-line blocks looking for switch on `local` or on its copy/negation
    b = start_block
    aliases = {local: negate}
    for _ in range(12):
        blk = body.blocks[b]
        for s in blk["stmts"]:
            if "pl" not in s:
                continue
            rv = s["rv"]
            if rv["k"] == "use":
                ol = op_local(rv["o"])
                if ol in aliases and not s["pl"]["p"]:
                    aliases[s["pl"]["l"]] = aliases[ol]
            elif rv["k"] == "un" and rv["op"] == "Not":
                ol = op_local(rv["o"])
                if ol in aliases and not s["pl"]["p"]:
                    aliases[s["pl"]["l"]] = not aliases[ol]
        t = blk["term"]
        if t["k"] == "switch":
            dl = op_local(t["discr"])
            if dl in aliases and t.get("discr_ty") == "bool":
                neg = aliases[dl]
                f = None
                for v, tgt in t["targets"]:
                    if v == 0:
                        f = tgt
                tr = t["otherwise"]
                if f is None:
                    f = t["otherwise"]
                if neg:
                    tr, f = f, tr
                return (b, tr, f)
            return None
        nxt = body.succs(b)
        if len(nxt) != 1:
            return None
        b = nxt[0]
    return None


# --------------------------------------------------------------------------------------------
# HIR helpers
# --------------------------------------------------------------------------------------------

def hir_walk(node):
    """Yield every dict node of a HIR tree (pre-order)."""
    stack = [node]
    while stack:
        n = stack.pop()
        if isinstance(n, dict):
            yield n
            for v in n.values():
                if isinstance(v, (dict, list)):
                    stack.append(v)
        elif isinstance(n, list):
            for v in reversed(n):
                if isinstance(v, (dict, list)):
                    stack.append(v)


def hir_find(node, kind):
    return [n for n in hir_walk(node) if n.get("e") == kind]


def hir_strip(e):
    """Peel blocks without statements, refs and derefs."""
    while isinstance(e, dict):
        if e.get("e") == "Block" and not e.get("stmts") and "tail" in e:
            e = e["tail"]
        elif e.get("e") == "AddrOf":
            e = e["x"]
        elif e.get("e") == "Unary" and e.get("op") == "Deref":
            e = e["x"]
        else:
            break
    return e


def hir_value(e):
    """Simplified value of a HIR expression:
    ('lit', v) | ('path', path) | ('call', path, [args...]) | ('method', path, recv, [args]) |
    ('tuple', [...]) | ('other', kind)."""
    e = hir_strip(e)
    if not isinstance(e, dict):
        return ("other", None)
    k = e.get("e")
    if k == "Lit":
        v = e.get("v")
        if e.get("t") == "bytes":
            v = bytes(v)
        return ("lit", v)
    if k == "Path":
        if e.get("res") == "Local":
            return ("local", e.get("name"))
        return ("path", e.get("path"))
    if k == "Call":
        f = hir_strip(e["f"])
        fp = f.get("path") if f.get("e") == "Path" else None
        return ("call", fp, [hir_value(a) for a in e["args"]])
    if k == "MethodCall":
        return ("method", e.get("path") or e.get("name"), hir_value(e["recv"]), [hir_value(a) for a in e["args"]])
    if k == "Tup":
        return ("tuple", [hir_value(a) for a in e["xs"]])
    if k == "Array":
        return ("array", [hir_value(a) for a in e["xs"]])
    if k == "Ret":
        return ("ret", hir_value(e.get("x")) if e.get("x") else None)
    if k == "Struct":
        return ("struct", e.get("path"), {f["name"]: hir_value(f["x"]) for f in e["fields"]})
    if k == "Unary" and e.get("op") == "Neg":
        v = hir_value(e["x"])
        if v[0] == "lit" and isinstance(v[1], int):
            return ("lit", -v[1])
    if k == "Cast":
        return hir_value(e["x"])
    if k == "Field":
        return ("field", hir_value(e["x"]), e.get("name"))
    if k == "Binary":
        return ("bin", e.get("op"), hir_value(e["l"]), hir_value(e["r"]))
    return ("other", k)


def pat_keys(p):
    """Set of keys a pattern matches: list of ('lit', v) | ('path', p) | ('range', lo, hi) | ('rest',)."""
    k = p.get("p")
    if k == "Expr":
        x = p["expr"]
        if x.get("e") == "Lit":
            v = x.get("v")
            if x.get("t") == "bytes":
                v = bytes(v)
            return [("lit", v)]
        if x.get("e") == "Path":
            return [("path", x.get("path"))]
    if k == "Or":
        out = []
        for q in p["pats"]:
            out.extend(pat_keys(q))
        return out
    if k == "Range":
        lo = p["lo"]["v"] if p.get("lo") else None
        hi = p["hi"]["v"] if p.get("hi") else None
        if hi is not None and not p.get("inclusive"):
            hi -= 1
        return [("range", lo, hi)]
    if k in ("Wild", "Bind"):
        if k == "Bind" and p.get("sub"):
            return pat_keys(p["sub"])
        return [("rest",)]
    if k == "Ref":
        return pat_keys(p["pat"])
    if k == "TupleStruct":
        return [("ctor", p.get("path"), [pat_keys(q) for q in p["pats"]])]
    if k == "Struct":
        return [("path", p.get("path"))]
    if k == "Tuple":
        return [("tuple", [pat_keys(q) for q in p["pats"]])]
    if k == "Guard":
        return [("guarded", pat_keys(p["pat"]))]
    return [("unknown", k)]


def match_table(m):
    """List of (keys, guard?, value, line) for a HIR Match node."""
    rows = []
    for a in m["arms"]:
        rows.append((pat_keys(a["pat"]), a.get("guard"), hir_value(a["body"]), a.get("line"), a))
    return rows


def fn_matches(prog, path):
    h = prog.hir.get(path)
    if not h:
        return []
    return hir_find(h["body"], "Match")


# --------------------------------------------------------------------------------------------
# misc
# --------------------------------------------------------------------------------------------

def short(path):
    return path.split("::", 1)[-1] if "::" in path else path


# --------------------------------------------------------------------------------------------
# Symbolic description of operands (single-definition chains)
# --------------------------------------------------------------------------------------------

DESCRIBE_DEPTH = 100
MULTI_ALTS = 64     # alternatives kept for a local assigned on several paths


def describe(prog, body, x, depth=0, seen=None):
    """Symbolic value of an operand (dict) or local (int):
    ('lit', v) | ('variant', adt, name, [args]) | ('tuple', [..]) | ('array', [..]) |
    ('call', callee, [args]) | ('param', idx, name) | ('field', base, idx) | ('bin', op, l, r) |
    ('fn', path) | ('const', path) | ('upvar', idx) | ('local', l, name) | ('multi', [..]) | ('closure', def)
    References, derefs, casts and copies are transparent."""
    if seen is None:
        seen = set()
    if depth > DESCRIBE_DEPTH:
        return ("deep",)
    if isinstance(x, dict):
        k = x.get("k")
        if k == "const":
            if "v" in x:
                return ("lit", x["v"])
            if "bytes" in x:
                return ("lit", bytes(x["bytes"]))
            if "fn" in x:
                return ("fn", x["fn"])
            if "def" in x:
                if "promoted" in x:
                    pb = prog.bodies.get(f"{x['def']}::promoted[{x['promoted']}]")
                    if pb is not None:
                        return describe(prog, pb, 0, depth + 1, set())
                    return ("promoted", x["def"], x["promoted"])
                cb = prog.bodies.get(x["def"])
                if cb is not None and cb.kind in ("const", "static"):
                    return describe(prog, cb, 0, depth + 1, set())
                hv = const_from_hir(prog, x["def"])
                if hv is not None:
                    return hv
                m = re.search(r"num::<impl ([iu])(8|16|32|64|128|size)>::(MAX|MIN)$", x["def"])
                if m:
                    bits = 64 if m.group(2) == "size" else int(m.group(2))
                    if m.group(1) == "u":
                        return ("lit", (1 << bits) - 1 if m.group(3) == "MAX" else 0)
                    return ("lit", (1 << (bits - 1)) - 1 if m.group(3) == "MAX" else -(1 << (bits - 1)))
                return ("const", x["def"])
            m = re.match(r"^(?:const )?(-?\d+)_(?:[iu](?:8|16|32|64|128|size))$", x.get("repr") or "")
            if m:
                return ("lit", int(m.group(1)))
            m = re.match(r'^(?:const )?"((?:[^"\\]|\\.)*)"$', x.get("repr") or "", re.S)
            if m and x.get("ty") in ("&str", "&'static str"):
                # a string constant printed by rustc (the pattern of a `match` on a &str): undo the Debug escapes
                body_ = m.group(1)
                if "\\" not in body_:
                    return ("lit", body_)
                try:
                    body_ = re.sub(r"\\u\{([0-9a-fA-F]+)\}", lambda mm: chr(int(mm.group(1), 16)), body_)
                    body_ = body_.replace('\\"', '"').replace("\\'", "'").replace("\\n", "\n").replace("\\r", "\r").replace("\\t", "\t").replace("\\0", "\0").replace("\\\\", "\\")
                    return ("lit", body_)
                except Exception:
                    pass
            return ("constrepr", x.get("repr"))
        if k in ("copy", "move"):
            pl = x["pl"]
            return _describe_place(prog, body, pl, depth, seen)
        return ("unknown",)
    return _describe_place(prog, body, {"l": x, "p": []}, depth, seen)


def _pinned_closure(d, n=0):
    """the closure / coroutine value under Pin::new_unchecked(&mut into_future(..)) wrappers, or None"""
    while isinstance(d, tuple) and d and n < 6:
        if d[0] == "closure":
            return d if len(d) > 2 else None
        if d[0] == "call" and re.search(r"Pin::<Ptr>::new_unchecked$|IntoFuture>?::into_future$|Pin::<Ptr>::as_mut$|Pin::<Ptr>::new$|DerefMut::deref_mut$|Deref::deref$", d[1]) and d[2]:
            d = d[2][0]
            n += 1
            continue
        if d[0] in ("ref", "deref") and len(d) > 1:
            d = d[1]
            n += 1
            continue
        return None
    return None


def _describe_place(prog, body, pl, depth, seen):
    l = pl["l"]
    projs = [e for e in pl["p"] if e[0] in ("f", "i", "ci")]
    if body.kind in ("closure", "coroutine") and l == 1 and projs and projs[0][0] == "f":
        f0 = projs[0][1]
        base = ("upvar", f0, next((u["name"] for u in body.upvars if u["field"] == f0), None))
        projs = projs[1:]
    else:
        base = _describe_local(prog, body, l, depth, seen)
    for f in projs:
        if f[0] == "f":
            idx = f[1]
            if base[0] == "variant" and idx < len(base[3]):
                base = base[3][idx]
            elif base[0] in ("tuple", "array") and idx < len(base[1]):
                base = base[1][idx]
            elif base[0] == "closure" and len(base) > 2 and idx < len(base[2]):
                base = base[2][idx]       # captured value of a closure whose body was inlined (hv/inline.py)
            elif base[0] == "call" and re.search(r"Pin::<Ptr>::new_unchecked$|IntoFuture>?::into_future$|Pin::<Ptr>::as_mut$|Pin::<Ptr>::new$", base[1]) and _pinned_closure(base) is not None \
                    and idx < len(_pinned_closure(base)[2]):
                base = _pinned_closure(base)[2][idx]      # captured value of an awaited async helper's future whose body was inlined
            elif idx == 0 and base[0] == "call" and base[1].endswith("ops::Try>::branch") and len(base[2]) == 1 and _continue_payload(base[2][0]) is not None:
                base = _continue_payload(base[2][0])   # `Ok(v)?` / `Some(v)?` of a value built in this body (an inlined helper's result): v
            else:
                base = ("field", base, idx)
        elif f[0] == "i":
            base = ("index", base, _describe_local(prog, body, f[1], depth + 1, seen))
        elif base[0] == "array" and isinstance(f[1], int) and 0 <= f[1] < len(base[1]) and not (len(f) > 3 and f[3]):
            base = base[1][f[1]]          # constant index into an array built in place (`let [a, b] = [x, y]`)
        else:
            base = ("index", base, ("lit", f[1]))
    return base


def _continue_payload(x):
    """The payload `?` hands on when its operand is a known Ok(v) / Some(v), or a merge of exactly one such value with values that
    can only take the early-return edge (from_residual results, Err(..), None)."""
    def early(y):
        return (y[0] == "variant" and y[2] in ("Err", "None")) or (y[0] == "call" and y[1].endswith("::from_residual"))
    if not isinstance(x, tuple) or not x:
        return None
    if x[0] == "variant" and x[2] in ("Ok", "Some") and len(x[3]) == 1 and (x[1].endswith("result::Result") or x[1].endswith("option::Option")):
        return x[3][0]
    if x[0] == "multi":
        goods = [y for y in x[1] if not early(y)]
        if len(goods) == 1 and len(x[1]) > 1:
            return _continue_payload(goods[0])
    return None


def describe_rv(prog, body, rv):
    """Description of a statement's right-hand side."""
    return _describe_def(prog, body, (None, None, "assign", {"rv": rv}), 0, set())


def _describe_local(prog, body, l, depth, seen):
    key = (body.path, l)
    if key in seen:
        return ("local", l, body.local_name(l))
    seen = seen | {key}
    if 1 <= l <= body.argc:
        if body.kind in ("closure", "coroutine") and l == 1:
            return ("env",)
        return ("param", l, body.local_name(l))
    ds = [d for d in body.defs().get(l, []) if d[2] != "yield" and not (d[2] == "assign" and d[3]["pl"]["p"])]
    if len(ds) == 0:
        return ("local", l, body.local_name(l))
    if len(ds) > 1:
        return ("multi", [_describe_def(prog, body, d, depth + 1, seen) for d in ds[:MULTI_ALTS]], body.local_name(l), l, tuple(d[0] for d in ds[:MULTI_ALTS]))
    return _describe_def(prog, body, ds[0], depth + 1, seen)


def _subst(d, params, upvars):
    """description `d` of a closure body's value with its parameters / captured values replaced by descriptions in the caller"""
    if isinstance(d, tuple):
        if d and d[0] == "param" and d[1] in params:
            return params[d[1]]
        if d and d[0] == "upvar" and isinstance(d[1], int) and d[1] < len(upvars):
            return upvars[d[1]]
        return tuple(_subst(x, params, upvars) for x in d)
    if isinstance(d, list):
        return [_subst(x, params, upvars) for x in d]
    return d


def _array_map(prog, arr, clo):
    if not (isinstance(arr, tuple) and arr[0] == "array" and isinstance(clo, tuple) and clo[0] == "closure" and clo[1] in prog.bodies):
        return None
    cb = prog.bodies[clo[1]]
    if cb.argc != 2 or any(blk["term"] and blk["term"]["k"] in ("call", "switch") for blk in cb.blocks if not blk.get("cleanup")):
        return None
    r = describe(prog, cb, 0)
    if desc_contains(r, lambda y: y[0] in ("multi", "deep", "local")):
        return None
    caps = list(clo[2]) if len(clo) > 2 else []
    return ("array", [_subst(r, {2: el}, caps) for el in arr[1]])


def _describe_def(prog, body, d, depth, seen):
    if depth > DESCRIBE_DEPTH:
        return ("deep",)
    b, i, kind, payload = d
    if kind == "call":
        t = payload
        args_ = [describe(prog, body, a, depth + 1, seen) for a in t["args"]]
        name_ = t.get("resolved") or t.get("callee") or "<indirect>"
        if name_.endswith("array::<impl [T; N]>::map") and len(args_) == 2:
            # `[c0, c1, ..].map(|x| e(x))` over an array built in place with a straight-line closure: the array of e(ci)
            ex = _array_map(prog, args_[0], args_[1])
            if ex is not None:
                return ex
        return ("call", name_, args_, b)
    rv = payload["rv"]
    k = rv["k"]
    if k in ("use", "cast"):
        o = rv["o"]
        return describe(prog, body, o, depth + 1, seen)
    if k in ("ref", "rawptr"):
        pl = rv["pl"]
        return _describe_place(prog, body, pl, depth + 1, seen)
    if k == "agg":
        ops = [describe(prog, body, o, depth + 1, seen) for o in rv["ops"]]
        a = rv.get("agg")
        if a == "adt":
            return ("variant", rv["adt"], rv["variant"], ops)
        if a == "tuple":
            return ("tuple", ops)
        if a == "array":
            return ("array", ops)
        return ("closure", rv.get("def"), ops)
    if k == "bin":
        return ("bin", rv["op"], describe(prog, body, rv["l"], depth + 1, seen), describe(prog, body, rv["r"], depth + 1, seen))
    if k == "un":
        return ("un", rv["op"], describe(prog, body, rv["o"], depth + 1, seen))
    if k == "discr":
        return ("discr", _describe_place(prog, body, rv["pl"], depth + 1, seen))
    if k == "repeat":
        return ("repeat", describe(prog, body, rv["o"], depth + 1, seen), rv.get("n"))
    return ("other", k)


def describe_r(prog, body, x):
    """describe(), with closure/coroutine upvars replaced by their parent-side descriptions."""
    d = describe(prog, body, x)
    cur = body
    n = 0
    while cur is not None and cur.kind in ("closure", "coroutine") and n < 4 and desc_contains(d, lambda y: y[0] == "upvar"):
        d = resolve_upvars(prog, cur, d)
        cur = prog.bodies.get(cur.parent)
        n += 1
    return d


def is_variant(desc, adt_suffix, name):
    return bool(desc) and desc[0] == "variant" and desc[1].endswith(adt_suffix) and desc[2] == name


def desc_contains(desc, pred):
    """Does any node of a description tree satisfy pred?"""
    stack = [desc]
    while stack:
        d = stack.pop()
        if isinstance(d, tuple):
            if pred(d):
                return True
            stack.extend(d)
        elif isinstance(d, list):
            stack.extend(d)
    return False


def desc_subterms(desc):
    """All tuple nodes of a description tree."""
    out = []
    stack = [desc]
    while stack:
        d = stack.pop()
        if isinstance(d, tuple):
            if d:
                out.append(d)
            stack.extend(x for x in d if isinstance(x, (tuple, list)))
        elif isinstance(d, list):
            stack.extend(d)
    return out


def desc_calls(desc):
    out = []
    stack = [desc]
    while stack:
        d = stack.pop()
        if isinstance(d, tuple):
            if d and d[0] == "call":
                out.append(d)
            stack.extend(x for x in d if isinstance(x, (tuple, list)))
        elif isinstance(d, list):
            stack.extend(d)
    return out


# --------------------------------------------------------------------------------------------
# R-DOM helpers
# --------------------------------------------------------------------------------------------

def _flag_defs(body, l):
    """For a bool local whose every definition is a constant: {True: [blocks], False: [blocks]} — provided no definition can be
    followed by another one (so the value at a test identifies the definition that ran); else None."""
    if l is None or l <= body.argc or body.local_ty(l) != "bool":
        return None
    ds = [d for d in body.defs().get(l, [])]
    if len(ds) < 2:
        return None
    out = {True: [], False: []}
    for d in ds:
        if d[2] != "assign" or d[3]["pl"]["p"] or d[3]["rv"]["k"] != "use" or d[3]["rv"]["o"].get("k") != "const" or not isinstance(d[3]["rv"]["o"].get("v"), bool):
            return None
        out[d[3]["rv"]["o"]["v"]].append(d[0])
    blocks = out[True] + out[False]
    # (inside a loop every definition is followed by the next iteration's: what matters is that no other definition lies between a
    # definition and the tests of the flag, so the walk stops at the blocks that branch on it)
    users = set()
    for bi in range(len(body.blocks)):
        t = body.term(bi)
        if t and t["k"] == "switch" and t.get("discr_ty") == "bool":
            dl = op_local(t["discr"])
            if dl == l or (dl is not None and _flag_root(body, dl)[0] == l):
                users.add(bi)
    for x in blocks:
        seen = body.reachable(body.succs(x), removed_nodes=users) if users else body.reachable(body.succs(x))
        if any(y in seen for y in blocks):
            return None
    return out


def _short_circuit_def(body, l):
    """For a bool local assigned constants on some paths and one computed value on another (`&&` / `||` lowering, early-return
    predicates): (value that identifies the computed assignment, its block, describer) — True for an &&-chain (other defs are
    `false`), False for an ||-chain (other defs are `true`).  None if the local has no such shape."""
    if l is None or l <= body.argc or body.local_ty(l) != "bool":
        return None
    ds = body.defs().get(l, [])
    if len(ds) < 2:
        return None
    consts, rest = [], []
    for d in ds:
        if d[2] == "assign" and not d[3]["pl"]["p"] and d[3]["rv"]["k"] == "use" and d[3]["rv"]["o"].get("k") == "const" and isinstance(d[3]["rv"]["o"].get("v"), bool):
            consts.append(d)
        elif d[2] == "call" or (d[2] == "assign" and not d[3]["pl"]["p"]):
            rest.append(d)
        else:
            return None
    if len(rest) != 1 or not consts:
        return None
    vals = set(d[3]["rv"]["o"]["v"] for d in consts)
    if len(vals) != 1:
        return None
    blocks = [d[0] for d in ds]
    for x in blocks:
        seen = body.reachable(body.succs(x))
        if any(y in seen for y in blocks):
            return None
    cv = vals.pop()
    n = rest[0]

    def describer(prog, n=n):
        if n[2] == "call":
            t = n[3]
            return ("call", t.get("resolved") or t.get("callee") or "<indirect>", [describe(prog, body, a) for a in t["args"]], n[0])
        rv = n[3]["rv"]
        return describe_rv(prog, body, rv) if rv["k"] != "use" else describe(prog, body, rv["o"])
    return (not cv, n[0], describer)


def _flag_root(body, l):
    """(flag local, negated) following copies and `!`."""
    neg = False
    for _ in range(8):
        ds = body.defs().get(l, [])
        if len(ds) != 1 or ds[0][2] != "assign" or ds[0][3]["pl"]["p"]:
            break
        rv = ds[0][3]["rv"]
        if rv["k"] == "use" and op_local(rv["o"]) is not None and not rv["o"]["pl"]["p"]:
            l = op_local(rv["o"])
        elif rv["k"] == "un" and rv["op"] == "Not" and op_local(rv["o"]) is not None:
            l = op_local(rv["o"])
            neg = not neg
        else:
            break
    return l, neg


def _expand_flag(prog, body, fl, val, out, depth, _seen=None):
    """What else holds when the boolean local `fl` has value `val`: the guards of the assignment that gives it that value."""
    _seen = _seen or set()
    if fl is None or (fl, val) in _seen or depth >= 4:
        return
    _seen.add((fl, val))
    fd = _flag_defs(body, fl)
    if fd is not None:
        if len(fd[val]) == 1:
            for g in guards_dominating(prog, body, fd[val][0], depth + 1):
                if g not in out:
                    out.append(g)
        return
    # short-circuit chains: `a && b` is (b on the path where a held | false), `a || b` is (true | b where a failed).
    # true for an &&-chain / false for an ||-chain means the one non-constant assignment ran and had that value.
    sc = _short_circuit_def(body, fl)
    if sc is None or sc[0] != val:
        return
    nblk = sc[1]
    for g in guards_dominating(prog, body, nblk, depth + 1):
        if g not in out:
            out.append(g)
    # the computed operand may itself be a boolean local built the same way (`a && helper(x)` with the helper inlined)
    ds = [d for d in body.defs().get(fl, []) if d[0] == nblk and d[2] == "assign" and d[3]["rv"]["k"] == "use" and op_local(d[3]["rv"]["o"]) is not None
          and not d[3]["rv"]["o"]["pl"]["p"]]
    if ds:
        src, neg2 = _flag_root(body, op_local(ds[0][3]["rv"]["o"]))
        if src is not None and src != fl and body.local_ty(src) == "bool" and src > body.argc:
            _expand_flag(prog, body, src, val != neg2, out, depth + 1, _seen)
            if _flag_defs(body, src) is not None or _short_circuit_def(body, src) is not None:
                return
    pseudo = (nblk, "true" if val else "false", sc[2](prog), {"kind": "bool", "edges": {}, "otherwise": None, "block": nblk, "pseudo": True, "src": None, "local": None})
    out.append(pseudo)


def _variant_sources(body, l, depth=0, seen=None):
    """[(block, variant name | None)] — where the enum value in local l can have been built (through plain moves); None = unknown."""
    seen = seen or set()
    if depth > 8 or l in seen or l <= body.argc:
        return [(None, None)]
    seen = seen | {l}
    out = []
    ds = [d for d in body.defs().get(l, []) if not (d[2] == "assign" and d[3]["pl"]["p"])]
    if not ds:
        return [(None, None)]
    for d in ds:
        if d[2] == "assign":
            rv = d[3]["rv"]
            if rv["k"] == "agg" and rv.get("agg") == "adt" and rv.get("variant"):
                out.append((d[0], rv["variant"]))
            elif rv["k"] == "use" and op_local(rv["o"]) is not None and not rv["o"]["pl"]["p"]:
                out.extend(_variant_sources(body, op_local(rv["o"]), depth + 1, seen))
            else:
                out.append((d[0], None))
        elif d[2] == "call" and (d[3].get("callee") or "").endswith("FromResidual::from_residual"):
            ty = body.local_ty(l) or ""
            out.append((d[0], "Err" if ty.startswith("std::result::Result") else ("None" if ty.startswith("std::option::Option") else None)))
        else:
            out.append((d[0], None))
    return out


def _variant_def_block(body, l, label):
    """Block of the only place that can have given local l the variant `label`, when every place its value can come from (through plain
    moves) builds a known variant; None otherwise."""
    src = _variant_sources(body, l)
    if len(src) < 2 or any(v is None for _, v in src):
        return None
    hits = [blk for blk, v in src if v == label]
    return hits[0] if len(hits) == 1 else None


def guards_dominating(prog, body, b, _depth=0):
    """Every (switch_block, label, discr_description, info) whose labelled edge dominates block b.
    A test of a constant-assigned boolean (`let found = ..early returns true / false..`, an inlined predicate helper) also
    contributes the guards of the one assignment that gives it the tested value."""
    out = []
    for s in range(len(body.blocks)):
        t = body.term(s)
        if not t or t["k"] != "switch" or s == b or not body.dominates(s, b):
            continue
        info = switch_info(prog, body, s)
        by_target = defaultdict(list)
        for label, tgt in info["edges"].items():
            by_target[tgt].append(label)
        if info["otherwise"] not in by_target:
            by_target[info["otherwise"]].append("otherwise")
        for tgt, labels in by_target.items():
            others = [x for x in by_target if x != tgt]
            # edge s->tgt dominates b  <=>  b not reachable from entry when that edge is removed
            if body.edge_dominates(s, tgt, b):
                if info["kind"] == "enum" and info.get("src") is not None:
                    d = _describe_place(prog, body, info["src"], 0, set())
                else:
                    d = describe(prog, body, t["discr"])
                for lab in labels:
                    out.append((s, lab, d, info))
                    if lab in ("true", "false") and _depth < 3:
                        fl, neg = _flag_root(body, op_local(t["discr"]))
                        _expand_flag(prog, body, fl, (lab == "true") != neg, out, _depth)
                    elif info["kind"] == "enum" and info.get("src") is not None and not info["src"]["p"] and _depth < 3:
                        # an Option / Result local built in several arms (the result of an inlined helper): the edge for one variant holds
                        # only where the one assignment that builds that variant ran
                        vb = _variant_def_block(body, info["src"]["l"], lab)
                        if vb is not None and vb != s:
                            for g in guards_dominating(prog, body, vb, _depth + 1):
                                if g not in out:
                                    out.append(g)
    return out


def ok_return_blocks(body, variant="Ok"):
    """Blocks that assign `_0 = Result::<variant>(..)` (or Option::Some)."""
    out = []
    for b, blk in enumerate(body.blocks):
        for s in blk["stmts"]:
            if "pl" in s and s["pl"]["l"] == 0 and not s["pl"]["p"]:
                rv = s["rv"]
                if rv["k"] == "agg" and rv.get("agg") == "adt" and rv.get("variant") == variant:
                    out.append(b)
    return out


def return_blocks(body):
    return [b for b in range(len(body.blocks)) if body.term(b) and body.term(b)["k"] == "return"]


def must_pass(body, from_blocks, to_blocks, through_nodes=(), through_edges=(), after_from=True):
    """R-MUSTPASS: returns None if every path from a from-site to a to-site passes a through-site,
    else a witness block path. from-sites are left through their normal successors."""
    starts = []
    for f in from_blocks:
        if after_from:
            starts.extend(body.succs(f))
        else:
            starts.append(f)
    through_nodes = set(through_nodes)
    starts = [s for s in starts if s not in through_nodes]
    seen = body.reachable(starts, removed_nodes=through_nodes, removed_edges=through_edges)
    for t in to_blocks:
        if t in seen:
            # a path exists in the plain CFG: keep it only if it survives on the product with the finite store of hv.absreach
            # (constant flags, Vec emptiness, and which variant a Result / Option / ControlFlow local holds — this is what correlates
            # a helper's `return Err(..)` with the caller's `?` after the helper has been inlined)
            from . import absreach
            return absreach.must_pass(body, from_blocks, to_blocks, through_nodes, through_edges, after_from=after_from)
    return None


def describe_upvar(prog, closure_body, field):
    """Description, in the parent body, of the value captured as upvar `field` of a closure."""
    # a closure defined in a helper that was inlined (hv/inline.py) is constructed in the caller: look there first, so that the
    # captured value is described in terms of the caller's values rather than the helper's parameters
    hosts = [prog.bodies[c] for c, cls in getattr(prog, "extra_closures", {}).items() if closure_body.path in cls and c in prog.bodies]
    parent = prog.bodies.get(closure_body.parent)
    if parent is not None:
        hosts.append(parent)
    for host in hosts:
        for b, blk in enumerate(host.blocks):
            for s in blk["stmts"]:
                rv = s.get("rv")
                if rv and rv.get("k") == "agg" and rv.get("def") == closure_body.path and field < len(rv["ops"]):
                    return describe(prog, host, rv["ops"][field])
    return ("upvar", field, None)


def closure_site(prog, closure_body):
    """(host body, block) where the closure value is constructed (the caller when its defining helper was inlined), or None."""
    hosts = [prog.bodies[c] for c, cls in getattr(prog, "extra_closures", {}).items() if closure_body.path in cls and c in prog.bodies]
    parent = prog.bodies.get(closure_body.parent)
    if parent is not None:
        hosts.append(parent)
    for host in hosts:
        for b, blk in enumerate(host.blocks):
            for s in blk["stmts"]:
                rv = s.get("rv")
                if rv and rv.get("k") == "agg" and rv.get("def") == closure_body.path:
                    return host, b
    return None


def resolve_upvars(prog, closure_body, desc):
    """Replace ('upvar', f, name) nodes of a description by their parent-side descriptions."""
    if isinstance(desc, tuple):
        if desc and desc[0] == "upvar":
            return describe_upvar(prog, closure_body, desc[1])
        return tuple(resolve_upvars(prog, closure_body, x) for x in desc)
    if isinstance(desc, list):
        return [resolve_upvars(prog, closure_body, x) for x in desc]
    return desc


def const_from_hir(prog, path):
    """Value of a `const` item from its HIR initialiser (literals, arrays/tuples of literals)."""
    h = prog.hir.get(path)
    if not h or h.get("kind", "").split(" ")[0] not in ("Const", "Static", "AssocConst") and not h.get("kind", "").startswith("Const"):
        return None

    def conv(v):
        if v[0] == "lit":
            return ("lit", v[1])
        if v[0] in ("array", "tuple"):
            xs = [conv(x) for x in v[1]]
            return (v[0], xs) if all(x is not None for x in xs) else None
        return None
    return conv(hir_value(h["body"]))


def const_value(prog, path):
    b = prog.bodies.get(path)
    if b is not None and b.kind in ("const", "static"):
        return describe(prog, b, 0)
    return const_from_hir(prog, path)


def desc_calls_named(desc, suffix):
    return [c for c in desc_calls(desc) if c[1].endswith(suffix)]

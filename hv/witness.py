"""E3: typing witnesses — compile_fail doc-tests (with compiling twins) built against /repo by `cargo +nightly test --doc`.
Nothing is executed: the twins are `no_run`, the witnesses must fail to compile with the stated error code."""
import os
import re
import shutil
import subprocess

from . import extract

LIB = r'''//! Typing witnesses for the Humphrey static checks. Every `compile_fail` block is paired with a `no_run` twin that
//! differs only in the offending line, so that a witness cannot pass merely because a path is wrong.

/// C08.R1 — a received task is consumed by its call (`Task = Box<dyn FnOnce() + Send>`).
///
/// twin:
/// ```no_run
/// let t: humphrey::thread::pool::Task = Box::new(|| ());
/// t();
/// ```
/// calling it twice must not type-check:
/// ```compile_fail,E0382
/// let t: humphrey::thread::pool::Task = Box::new(|| ());
/// t();
/// t();
/// ```
pub struct C08TaskIsFnOnce;

/// C16.R6 — `Cache::set` needs exclusive access, so behind the `RwLock` it is reachable only through `write()`.
///
/// twin:
/// ```no_run
/// use humphrey_server::server::cache::Cache;
/// let lock = std::sync::RwLock::new(Cache::default());
/// lock.write().unwrap().set("/r", 0, vec![1], humphrey::http::mime::MimeType::TextPlain);
/// ```
/// through a read guard it must not type-check:
/// ```compile_fail,E0596
/// use humphrey_server::server::cache::Cache;
/// let lock = std::sync::RwLock::new(Cache::default());
/// lock.read().unwrap().set("/r", 0, vec![1], humphrey::http::mime::MimeType::TextPlain);
/// ```
pub struct C16SetNeedsWriteGuard;

/// C09.R4 — `LoadBalancer::select_target` needs `&mut self`, so concurrent selections go through the mutex guard.
///
/// twin:
/// ```no_run
/// use humphrey_server::server::proxy::LoadBalancer;
/// use humphrey_server::config::LoadBalancerMode;
/// let mut lb = LoadBalancer { targets: vec!["a:1".to_string()], mode: LoadBalancerMode::RoundRobin, index: 0, lcg: Default::default() };
/// let r = &mut lb;
/// r.select_target();
/// ```
/// through a shared reference it must not type-check:
/// ```compile_fail,E0596
/// use humphrey_server::server::proxy::LoadBalancer;
/// use humphrey_server::config::LoadBalancerMode;
/// let mut lb = LoadBalancer { targets: vec!["a:1".to_string()], mode: LoadBalancerMode::RoundRobin, index: 0, lcg: Default::default() };
/// let r = &lb;
/// r.select_target();
/// ```
pub struct C09SelectNeedsMut;
'''

WITNESSES = {"C08": ["C08TaskIsFnOnce"], "C16": ["C16SetNeedsWriteGuard"], "C09": ["C09SelectNeedsMut"]}


def run(pid):
    """Returns (ok, details list). Builds the witness crate against HV_REPO and runs the doc-tests of `pid`."""
    names = WITNESSES.get(pid, [])
    if not names:
        return True, []
    d = os.path.join(extract.BUILD, "typing_witness")
    if os.path.isdir(os.path.join(d, "src")):
        shutil.rmtree(os.path.join(d, "src"))
    os.makedirs(os.path.join(d, "src"), exist_ok=True)
    with open(os.path.join(d, "Cargo.toml"), "w") as fh:
        fh.write('[package]\nname = "hv_typing_witness"\nversion = "0.0.0"\nedition = "2021"\n\n[workspace]\n\n[dependencies]\n'
                 f'humphrey = {{ path = "{extract.REPO}/humphrey" }}\nhumphrey_server = {{ path = "{extract.REPO}/humphrey-server" }}\n')
    with open(os.path.join(d, "src", "lib.rs"), "w") as fh:
        fh.write(LIB)
    shutil.copy(os.path.join(extract.REPO, "Cargo.lock"), os.path.join(d, "Cargo.lock"))
    env = dict(os.environ, CARGO_NET_OFFLINE="true", CARGO_TARGET_DIR=os.path.join(extract.BUILD, "W-typing"))
    env.pop("RUSTC_WORKSPACE_WRAPPER", None)
    p = subprocess.run(["cargo", "+nightly", "test", "--doc", "--offline"], cwd=d, env=env, stdout=subprocess.PIPE, stderr=subprocess.STDOUT, text=True)
    out = p.stdout
    res = []
    ok_all = True
    for n in names:
        lines = re.findall(rf"test src/lib\.rs - {n} \(line \d+\)( - compile fail| - compile)? \.\.\. (\w+)", out)
        kinds = sorted((k.strip(" -") or "run", r) for k, r in lines)
        good = len(lines) == 2 and all(r == "ok" for _, r in lines) and any("fail" in k for k, _ in lines)
        res.append({"witness": n, "doctests": kinds, "ok": good})
        ok_all = ok_all and good
    if not ok_all:
        res.append({"cargo_tail": out[-1500:]})
    return ok_all, res

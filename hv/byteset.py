"""R-BYTECLASS: for one byte-valued variable of a body, the set of byte values with which each block can be reached, and the value of
expressions over that byte for every member of the set.

A byte classifier can be spelled in many ways — `TABLE.contains(&b)`, `TABLE.iter().any(|x| *x == b)`, `matches!(b, b'-' | b'_')`,
range patterns, `b.is_ascii_alphanumeric() || ...`, a helper returning `bool` or `Option<u8>` — and they all lower to comparisons of
the byte with constants, switches on it, and calls of a handful of std predicates.  The analysis is a forward data flow over the CFG whose
state is the exact set (a 256-bit mask) of values the variable may have, refined on every edge that tests it; boolean locals computed
from the variable are tracked as (values for which true, values for which false), so that `||` / `&&` chains, `let ok = ...; if ok`,
and predicates moved into helpers (inlined by hv/inline.py) are followed.  It is a may-analysis: the mask at a block is a superset of the
values that can reach it, so `mask(site) ⊆ S` proves "site only for bytes in S"; together with a partition argument (the masks of
the alternative sites cover all 256 values and are disjoint) it gives exact classes.

No code of the repository is executed.  Expressions over the byte (`TABLE[(b >> 4) as usize]`, `b - b'a' + 10`) are extracted as
description trees (core.describe) and evaluated for each of the at most 256 members of a mask — the same kind of finite decision as
hv/symx.py makes for integer expressions.
"""
from . import core

ALL = (1 << 256) - 1


def mask_of(pred):
    m = 0
    for v in range(256):
        if pred(v):
            m |= 1 << v
    return m


def members(m):
    out = []
    for lo, hi in intervals_of(m):
        out.extend(range(lo, hi + 1))
    return out


def _rng(*pairs):
    s = set()
    for a, b in pairs:
        s.update(range(a, b + 1))
    return s


_CLASSES = {
    "is_ascii_alphabetic": _rng((65, 90), (97, 122)),
    "is_ascii_digit": _rng((48, 57)),
    "is_ascii_alphanumeric": _rng((48, 57), (65, 90), (97, 122)),
    "is_ascii_hexdigit": _rng((48, 57), (65, 70), (97, 102)),
    "is_ascii_uppercase": _rng((65, 90)),
    "is_ascii_lowercase": _rng((97, 122)),
    "is_ascii_punctuation": _rng((33, 47), (58, 64), (91, 96), (123, 126)),
    "is_ascii_graphic": _rng((33, 126)),
    "is_ascii_whitespace": {32, 9, 10, 12, 13},
    "is_ascii_control": _rng((0, 31), (127, 127)),
    "is_ascii": _rng((0, 127)),
}
PREDICATE_RX = r"(num::<impl u8>|char::methods::<impl char>)::(" + "|".join(_CLASSES) + r")$"
CONV_RX = r"(convert::From<\w+>>::from|convert::Into<\w+>>::into|::from|::into|Clone>::clone|clone::Clone::clone)$"
CMP = {"Eq": lambda a, b: a == b, "Ne": lambda a, b: a != b, "Lt": lambda a, b: a < b, "Le": lambda a, b: a <= b,
       "Gt": lambda a, b: a > b, "Ge": lambda a, b: a >= b}


def strip_conv(d):
    """Drop value-preserving conversions (`u32::from(b)`, `.into()`, `.clone()`) around a description."""
    while isinstance(d, tuple) and d and d[0] == "call" and core.re.search(CONV_RX, d[1]) and len(d[2]) == 1:
        d = d[2][0]
    return d


def const_bytes(d):
    """A constant byte table (`b"..."`, `&[u8; N]`, `"..."`) as a list of ints, else None."""
    d = strip_conv(d)
    if isinstance(d, tuple) and d and d[0] == "lit":
        if isinstance(d[1], (bytes, bytearray)):
            return list(d[1])
        if isinstance(d[1], str):
            return list(d[1].encode())
    if isinstance(d, tuple) and d and d[0] == "array" and all(isinstance(x, tuple) and x[0] == "lit" and isinstance(x[1], int) for x in d[1]):
        return [x[1] for x in d[1]]
    return None


def set_mask(values, n=256):
    m = 0
    for v in values:
        if 0 <= v < n:
            m |= 1 << v
    return m


def interval_mask(lo, hi):
    """Bits lo..hi inclusive."""
    if hi < lo:
        return 0
    return ((1 << (hi + 1)) - 1) & ~((1 << lo) - 1)


def intervals_of(m):
    """Sorted [(lo, hi)] of the set bits of m (for masks too large to enumerate)."""
    out = []
    pos = 0
    while m:
        # skip zeros
        low = (m & -m).bit_length() - 1
        m >>= low
        pos += low
        # run of ones
        run = (~m & (m + 1)).bit_length() - 1
        out.append((pos, pos + run - 1))
        m >>= run
        pos += run
    return out


class ByteFlow:
    """width 256: a byte; width 0x110000: a `char` (Unicode scalar value; the surrogate gap is not modelled)."""

    def __init__(self, prog, body, var_desc, width=256):
        self.prog, self.body = prog, body
        self.N = width
        self.ALL = (1 << width) - 1
        self.var = strip_conv(var_desc)
        self._alias_cache = {}
        self.entry = {}       # block -> (mask, flags) at block entry
        self.at_term = {}     # block -> mask at the terminator
        self.edge = {}        # (block, succ) -> mask on that edge
        self._reset_at = self._def_sites()
        self._outer_call_block = self.var[1][3] if (self.var[0] == "field" and self.var[2] == 0 and isinstance(self.var[1], tuple) and self.var[1]
                                                    and self.var[1][0] == "call" and len(self.var[1]) > 3) else None
        self._run()

    # ---- aliases -------------------------------------------------------------------------------------------------
    def is_alias_desc(self, d):
        return strip_conv(d) == self.var

    def is_alias(self, op):
        if op is None:
            return False
        if op.get("k") not in ("copy", "move"):
            return False
        key = (op["pl"]["l"], tuple(tuple(e) for e in op["pl"]["p"]))
        if key not in self._alias_cache:
            self._alias_cache[key] = self.is_alias_desc(core.describe(self.prog, self.body, op))
        return self._alias_cache[key]

    def _def_sites(self):
        """Where the variable gets a new value: the calls its description is made of (`iter.next()`, `?`); the mask restarts there.
        Copies of the value (pattern bindings, references, format argument tuples) are aliases, not new values."""
        out = set()
        for c in core.desc_calls(self.var):
            if len(c) > 3 and isinstance(c[3], int):
                out.add((c[3], "term"))
        return out

    # ---- facts about one value ------------------------------------------------------------------------------------
    def _const(self, op):
        d = core.describe(self.prog, self.body, op)
        d = strip_conv(d)
        if isinstance(d, tuple) and d and d[0] == "lit" and isinstance(d[1], int) and not isinstance(d[1], bool):
            return d[1]
        return None

    # A "flag" is a place whose value is a function of the variable: a bool ({1: values for which true, 0: ... false}) or an enum
    # value / discriminant ({variant index: values for which it is that variant}).  Keys are (local, (field, ...)).
    @staticmethod
    def _key(pl):
        if pl is None:
            return None
        fs = []
        for e in pl["p"]:
            if e[0] == "f":
                fs.append(e[1])
            elif e[0] == "d":
                continue
            else:
                return None
        return (pl["l"], tuple(fs))

    def _cmp_mask(self, op, c, var_left):
        """Values v with `v op c` (var_left) or `c op v`."""
        if not var_left:
            op = {"Lt": "Gt", "Le": "Ge", "Gt": "Lt", "Ge": "Le"}.get(op, op)
        low = lambda k: (1 << max(0, min(k, self.N))) - 1      # values < k
        if op == "Eq":
            return (1 << c) if 0 <= c < self.N else 0
        if op == "Ne":
            return self.ALL & ~((1 << c) if 0 <= c < self.N else 0)
        if op == "Lt":
            return low(c)
        if op == "Le":
            return low(c + 1)
        if op == "Gt":
            return self.ALL & ~low(c + 1)
        return self.ALL & ~low(c)

    def _flag_of(self, op, flags, cur):
        if op.get("k") == "const":
            v = op.get("v")
            if isinstance(v, bool):
                return {1: cur, 0: 0} if v else {1: 0, 0: cur}
            return None
        k = self._key(core.op_place(op))
        if k is not None and k in flags:
            return {val: m & cur for val, m in flags[k].items()}
        return None

    def _test_of_rvalue(self, rv, flags, cur):
        """{value: mask} of an r-value that is a function of the variable, or None."""
        k = rv["k"]
        if k == "bin" and rv["op"] in CMP:
            l, r = rv["l"], rv["r"]
            if self.is_alias(l) and self._const(r) is not None:
                s = self._cmp_mask(rv["op"], self._const(r), True)
                return {1: cur & s, 0: cur & ~s}
            if self.is_alias(r) and self._const(l) is not None:
                s = self._cmp_mask(rv["op"], self._const(l), False)
                return {1: cur & s, 0: cur & ~s}
            return None
        if k == "bin" and rv["op"] in ("BitAnd", "BitOr", "BitXor"):
            a, b = self._flag_of(rv["l"], flags, cur), self._flag_of(rv["r"], flags, cur)
            if a is None or b is None or set(a) - {0, 1} or set(b) - {0, 1}:
                return None
            a1, a0, b1, b0 = a.get(1, 0), a.get(0, 0), b.get(1, 0), b.get(0, 0)
            if rv["op"] == "BitAnd":
                return {1: a1 & b1, 0: (a0 | b0) & cur}
            if rv["op"] == "BitOr":
                return {1: (a1 | b1) & cur, 0: a0 & b0}
            return {1: (a1 & b0) | (a0 & b1), 0: (a1 & b1) | (a0 & b0)}
        if k == "un" and rv["op"] == "Not":
            a = self._flag_of(rv["o"], flags, cur)
            if a is None or set(a) - {0, 1}:
                return None
            return {1: a.get(0, 0), 0: a.get(1, 0)}
        if k in ("use", "cast"):
            return self._flag_of(rv["o"], flags, cur)
        if k == "discr":
            kk = self._key(rv["pl"])
            if kk is not None and kk in flags:
                return {val: m & cur for val, m in flags[kk].items()}
            return None
        if k == "agg" and rv.get("agg") == "adt" and rv.get("vidx") is not None:
            return {rv["vidx"]: cur}
        return None

    def _test_of_call(self, t, cur):
        name = t.get("resolved") or t.get("callee") or ""
        args = t.get("args") or []
        m = core.re.search(PREDICATE_RX, name)
        if m and args and self.is_alias(args[0]):
            s = set_mask(_CLASSES[m.group(2)], self.N)
            return {1: cur & s, 0: cur & ~s}
        if core.re.search(r"slice::<impl \[T\]>::contains$", name) and len(args) == 2 and self.is_alias(args[1]):
            tb = const_bytes(core.describe(self.prog, self.body, args[0]))
            if tb is not None:
                s = set_mask(tb, self.N)
                return {1: cur & s, 0: cur & ~s}
        if core.re.search(r"Iterator>?::all$|^std::iter::Iterator::all$", name) and len(args) == 2:
            # `[d1, d2].iter().all(u8::is_ascii_hexdigit)`: when it holds, it holds for each element; when it fails nothing is known
            recv = core.describe(self.prog, self.body, args[0])
            elems = [y for y in core.desc_subterms(recv) if isinstance(y, tuple) and y and y[0] == "array"]
            pred = core.describe(self.prog, self.body, args[1])
            cls = None
            if isinstance(pred, tuple) and pred and pred[0] == "fn" and isinstance(pred[1], str):
                m2 = core.re.search(PREDICATE_RX, pred[1])
                cls = _CLASSES[m2.group(2)] if m2 else None
            if cls is not None and elems and any(self.is_alias_desc(e) for e in elems[0][1]) and \
                    not [c for c in core.desc_calls(recv) if core.re.search(r"::(skip|take|step_by|filter|rev|skip_while|take_while)$", c[1])]:
                return {1: cur & set_mask(cls, self.N), 0: cur}
        if core.re.search(r"Iterator>?::any$|^std::iter::Iterator::any$", name) and len(args) == 2:
            recv = core.describe(self.prog, self.body, args[0])
            tb = None
            for c in core.desc_calls(recv):
                if core.re.search(r"::iter$|IntoIterator>::into_iter$|::into_iter$", c[1]) and c[2]:
                    tb = const_bytes(c[2][0])
            cl = core.describe(self.prog, self.body, args[1])
            if tb is not None and cl[0] == "closure" and cl[1] in self.prog.bodies:
                cb = self.prog.bodies[cl[1]]
                r = core.describe(self.prog, cb, 0)
                if r[0] == "call" and core.re.search(r"PartialEq.*::eq$", r[1]) and len(r[2]) == 2:
                    # `|c| c == byte` on two references: the comparison is a call of <&u8 as PartialEq>::eq
                    r = ("bin", "Eq", strip_conv(r[2][0]), strip_conv(r[2][1]))
                if r[0] == "bin" and r[1] == "Eq":
                    sides = [strip_conv(r[2]), strip_conv(r[3])]
                    par = [x for x in sides if x[0] == "param"]
                    up = [x for x in sides if x[0] == "upvar"]
                    if len(par) == 1 and len(up) == 1 and up[0][1] < len(cl[2]) and self.is_alias_desc(cl[2][up[0][1]]):
                        s = set_mask(tb, self.N)
                        return {1: cur & s, 0: cur & ~s}
        return None

    @staticmethod
    def _kill(flags, l):
        for k in [k for k in flags if k[0] == l]:
            del flags[k]

    # ---- data flow ------------------------------------------------------------------------------------------------
    def _assign(self, s, flags, cur):
        pl = s["pl"]
        key = self._key(pl)
        if key is None:
            self._kill(flags, pl["l"])
            return
        rv = s["rv"]
        if rv["k"] == "agg" and rv.get("agg") == "tuple":
            self._kill(flags, key[0]) if not key[1] else None
            for i, o in enumerate(rv["ops"]):
                f = self._flag_of(o, flags, cur)
                sub = self._key(core.op_place(o))
                if f is not None:
                    flags[(key[0], key[1] + (i,))] = f
                # nested fields of a moved tuple / struct keep their facts
                if sub is not None:
                    for k2 in [k2 for k2 in flags if k2[0] == sub[0] and k2[1][:len(sub[1])] == sub[1] and len(k2[1]) > len(sub[1])]:
                        flags[(key[0], key[1] + (i,) + k2[1][len(sub[1]):])] = flags[k2]
            return
        tf = self._test_of_rvalue(rv, flags, cur)
        # moving a whole place carries the facts about its fields along
        carried = {}
        if rv["k"] in ("use", "cast"):
            sub = self._key(core.op_place(rv["o"]))
            if sub is not None:
                for k2 in flags:
                    if k2[0] == sub[0] and k2[1][:len(sub[1])] == sub[1] and len(k2[1]) > len(sub[1]):
                        carried[(key[0], key[1] + k2[1][len(sub[1]):])] = flags[k2]
        if not key[1]:
            self._kill(flags, key[0])
        else:
            for k2 in [k2 for k2 in flags if k2[0] == key[0] and k2[1][:len(key[1])] == key[1]]:
                del flags[k2]
        if tf is not None:
            flags[key] = tf
        flags.update(carried)

    def _run(self):
        b = self.body
        self.entry[0] = (self.ALL, {})
        work = [0]
        guard = 0
        while work and guard < 20000:
            guard += 1
            blk = work.pop()
            cur, flags = self.entry[blk]
            flags = dict(flags)
            for i, s in enumerate(b.blocks[blk]["stmts"]):
                if "pl" not in s:
                    continue
                self._assign(s, flags, cur)
            t = b.term(blk)
            self.at_term[blk] = self.at_term.get(blk, 0) | cur
            if t is None:
                continue
            outs = []   # (succ, mask, flags)
            if t["k"] == "call":
                dest = t.get("dest")
                f2 = dict(flags)
                c2 = cur
                name_ = t.get("resolved") or t.get("callee") or ""
                if (blk, "term") in self._reset_at:
                    c2, f2 = self.ALL, {}
                    # the variable is the payload of this call's result: where the result is the other variant it has no value at all
                    if dest is not None and not dest["p"] and self._outer_call_block == blk:
                        keep = 0 if name_.endswith("ops::Try>::branch") else (1 if "Option" in (self.body.local_ty(dest["l"]) or "")[:40] else 0)
                        f2[(dest["l"], ())] = {keep: self.ALL, 1 - keep: 0}
                elif dest is not None and name_.endswith("ops::Try>::branch") and t.get("args") and self._key(core.op_place(t["args"][0])) in flags:
                    # `?`: Continue (0) <- Ok (0) / Some (1); Break (1) <- Err (1) / None (0)
                    src = flags[self._key(core.op_place(t["args"][0]))]
                    self._kill(f2, dest["l"])
                    anyv = src.get("*", 0)
                    if "option::Option" in name_:
                        f2[(dest["l"], ())] = {0: (src.get(1, 0) | anyv) & cur, 1: (src.get(0, 0) | anyv) & cur}
                    else:
                        f2[(dest["l"], ())] = {0: (src.get(0, 0) | anyv) & cur, 1: (src.get(1, 0) | anyv) & cur}
                elif dest is not None:
                    dk = self._key(dest)
                    self._kill(f2, dest["l"]) if dk is None or not dk[1] else None
                    tf = self._test_of_call(t, cur) if dk is not None else None
                    if tf is not None:
                        f2[dk] = tf
                for sx in b.succs(blk):
                    outs.append((sx, c2, f2))
            elif t["k"] == "switch":
                d = t["discr"]
                dk = self._key(core.op_place(d))
                handled = False
                if dk is not None and dk in flags:
                    fm = flags[dk]
                    anyv = fm.get("*", 0)
                    seen_vals = set()
                    for v, tgt in t["targets"]:
                        outs.append((tgt, (fm.get(v, 0) | anyv) & cur, flags))
                        seen_vals.add(v)
                    if t.get("otherwise") is not None:
                        rest = anyv
                        for v, m in fm.items():
                            if v not in seen_vals and v != "*":
                                rest |= m
                        outs.append((t["otherwise"], rest & cur, flags))
                    handled = True
                elif self.is_alias(d) and t.get("discr_ty") in ("u8", "u32", "char", "usize", "u16", "u64", "i32"):
                    rest = cur
                    for v, tgt in t["targets"]:
                        bit = (1 << v) if 0 <= v < self.N else 0
                        outs.append((tgt, cur & bit, flags))
                        rest &= ~bit
                    if t.get("otherwise") is not None:
                        outs.append((t["otherwise"], rest, flags))
                    handled = True
                if not handled:
                    for sx in b.succs(blk):
                        outs.append((sx, cur, flags))
                live = set(b.succs(blk))
                outs = [o for o in outs if o[0] in live]
            else:
                for sx in b.succs(blk):
                    outs.append((sx, cur, flags))
            for sx, m, fl in outs:
                self.edge[(blk, sx)] = self.edge.get((blk, sx), 0) | m
                if m == 0 and sx in self.entry:
                    continue
                fl = {k: {val: mm & m for val, mm in d_.items()} for k, d_ in fl.items()}
                if sx not in self.entry:
                    self.entry[sx] = (m, fl)
                    work.append(sx)
                    continue
                om, ofl = self.entry[sx]
                nm = om | m
                nfl = {}
                for k in set(ofl) & set(fl):
                    nfl[k] = {val: ofl[k].get(val, 0) | fl[k].get(val, 0) for val in set(ofl[k]) | set(fl[k])}
                # a fact known on one side only: the values arriving from the other side may be any variant ("*")
                for k in set(ofl) - set(fl):
                    d_ = dict(ofl[k])
                    if m:
                        d_["*"] = d_.get("*", 0) | m
                    nfl[k] = d_
                for k in set(fl) - set(ofl):
                    d_ = dict(fl[k])
                    if om:
                        d_["*"] = d_.get("*", 0) | om
                    nfl[k] = d_
                if nm != om or nfl != ofl:
                    self.entry[sx] = (nm, nfl)
                    work.append(sx)
        self.converged = not work

    def mask_at(self, blk):
        """Values of the variable with which the terminator of `blk` (a call site) can be reached."""
        return self.at_term.get(blk, 0)

    # ---- expression values ----------------------------------------------------------------------------------------
    def eval(self, d, v, others=()):
        """Value of description d when the variable is v (None if not evaluable).  `others`: [(ByteFlow, value)] for further variables."""
        return _eval(self, d, v, list(others), 0)


def _eval(flow, d, v, others, depth):
    if depth > 60 or not isinstance(d, tuple) or not d:
        return None
    sd = strip_conv(d)
    if sd == flow.var:
        return v
    for of, ov in others:
        if sd == of.var:
            return ov
    d = sd
    k = d[0]
    if k == "lit":
        if isinstance(d[1], bool):
            return int(d[1])
        if isinstance(d[1], (int, str, bytes)):
            return d[1]
        return None
    if k == "field" and d[2] == 0 and isinstance(d[1], tuple) and d[1] and d[1][0] == "bin" and d[1][1].endswith("WithOverflow"):
        return _eval(flow, ("bin", d[1][1][:-len("WithOverflow")], d[1][2], d[1][3]), v, others, depth + 1)
    if k == "bin":
        a, b = _eval(flow, d[2], v, others, depth + 1), _eval(flow, d[3], v, others, depth + 1)
        if a is None or b is None:
            return None
        op = d[1]
        if op.endswith("WithOverflow") or op.endswith("Unchecked"):
            op = op.replace("WithOverflow", "").replace("Unchecked", "")
        try:
            if op == "Add":
                return a + b
            if op == "Sub":
                return a - b if a - b >= 0 else None
            if op == "Mul":
                return a * b
            if op == "Div":
                return a // b if b else None
            if op == "Rem":
                return a % b if b else None
            if op == "BitAnd":
                return a & b
            if op == "BitOr":
                return a | b
            if op == "BitXor":
                return a ^ b
            if op == "Shl":
                return a << b if 0 <= b < 64 else None
            if op == "Shr":
                return a >> b if 0 <= b < 64 else None
        except (TypeError, ValueError):
            return None
        if op in CMP:
            return int(CMP[op](a, b))
        return None
    if k == "index":
        tb = const_bytes(d[1])
        i = _eval(flow, d[2], v, others, depth + 1)
        if tb is not None and i is not None and 0 <= i < len(tb):
            return tb[i]
        return None
    if k == "call":
        name = d[1]
        if core.re.search(r"ops::Index<\w+>>::index$|ops::Index<\w+> for \[T(; N)?\]>::index$|SliceIndex<\[T\]>>::index$", name) and len(d[2]) == 2:
            tb = const_bytes(d[2][0])
            i = _eval(flow, d[2][1], v, others, depth + 1)
            if tb is not None and i is not None and 0 <= i < len(tb):
                return tb[i]
        if core.re.search(r"::wrapping_(add|sub|mul)$", name) and len(d[2]) == 2:
            a, b = _eval(flow, d[2][0], v, others, depth + 1), _eval(flow, d[2][1], v, others, depth + 1)
            if a is None or b is None:
                return None
            return {"add": a + b, "sub": a - b, "mul": a * b}[name.rsplit("_", 1)[1]]
        return None
    if k == "multi" and len(d) >= 5 and len(d[1]) == len(d[4]):
        # the alternative assigned in the block that the value reaches; the variable whose flow separates the alternatives decides
        for fl, val in [(flow, v)] + [(of, ov) for of, ov in others]:
            # (masks are supersets of the values that reach a block: if only one alternative can be reached with this value, it is that one)
            hits = [alt for alt, blk in zip(d[1], d[4]) if fl.at_term.get(blk, 0) >> val & 1]
            masks = [fl.at_term.get(blk, 0) for blk in d[4]]
            if len(hits) == 1 and any(m != fl.ALL for m in masks):
                return _eval(flow, hits[0], v, others, depth + 1)
        return None
    if k == "field" and d[2] == 0 and isinstance(d[1], tuple) and d[1] and d[1][0] == "call" and d[1][1].endswith("ops::Try>::branch") and len(d[1][2]) == 1:
        # the value carried through `?`: the payload of the Ok / Some that was tested
        return _eval(flow, ("field", d[1][2][0], 0), v, others, depth + 1)
    if k == "field" and isinstance(d[1], tuple) and d[1] and d[1][0] == "variant" and d[2] < len(d[1][3]):
        return _eval(flow, d[1][3][d[2]], v, others, depth + 1)
    if k == "field" and isinstance(d[1], tuple) and d[1] and d[1][0] == "multi" and len(d[1]) >= 5:
        m = d[1]
        alts = []
        for alt in m[1]:
            if alt[0] == "variant" and d[2] < len(alt[3]):
                alts.append(alt[3][d[2]])
            elif alt[0] == "variant":
                alts.append(("novalue",))
            else:
                alts.append(("field", alt, d[2]))
        return _eval(flow, ("multi", alts, m[2], m[3], m[4]), v, others, depth + 1)
    return None

"""C12 — async WebSocket app delivers connect/message/disconnect exactly once, in order (structural clauses)."""
from .. import core, panics
from ..core import describe, desc_contains, switch_info
from .c01 import some_edge_of

ST = "humphrey_ws::async_app::AsyncWebsocketApp"


def fidx(prog, name):
    return next(i for i, x in enumerate(prog.structs[ST]["fields"]) if x["name"] == name)


def handler_field_of(prog, b, exec_blk, ix):
    """Which handler field (on_message/on_connect/on_disconnect) the closure given to execute derives from."""
    t = b.term(exec_blk)
    cl = describe(prog, b, t["args"][1])
    if cl[0] != "closure":
        return None, None
    ops = cl[2]
    for name in ("on_message", "on_connect", "on_disconnect"):
        if any(desc_contains(o, lambda y: y[0] == "field" and y[2] == ix[name] and y[1][0] == "param") for o in ops):
            return name, cl
    return None, cl


def the_table0(d, ix):
    d = panics._strip(d)
    return isinstance(d, tuple) and d[0] == "field" and d[2] == ix["streams"] and d[1][0] == "param"


def run(chk):
    prog = chk.use(core.load("A", fresh=(chk.tier == "thorough")))
    chk.explanation = (
        "Static decision of C12's structural clauses on AsyncWebsocketApp::run: every received message reaches exactly one dispatch whose closure "
        "captures that message and the polled address (or the handler is unset); every disconnect dispatch, and every error/heartbeat-timeout edge, "
        "passes streams.remove(addr) before the stream can be polled again; every accepted stream reaches streams.insert under its own address and one "
        "connect dispatch; messages are polled only from entries of `streams`; unicast looks up the addressee's key, broadcast iterates all streams "
        "with the serialised frame; the shutdown test lies on every outer cycle, its Ok edge leaves the loop and thread_pool.stop() post-dominates it; "
        "all dispatches go through the one pool queue.")
    chk.not_decided = ("execution order on more than one pool thread; timing; starvation by a flooding client; exactly-once under real socket behaviour; "
                       "that a removed key is not revisited in the same outer iteration (dynamic map state)")
    chk.assumptions = ["rustc type checking / MIR construction / callee resolution", "HashMap keys are unique; mpsc is FIFO"]
    fn = ST + "::<State, StreamState>::run"
    b = prog.bodies.get(fn)
    chk.floor("AsyncWebsocketApp::run", 1 if b else 0, 1)
    if not b:
        return
    ix = {n: fidx(prog, n) for n in ("streams", "thread_pool", "incoming_streams", "outgoing_messages", "on_message", "on_connect", "on_disconnect", "shutdown", "message_sender")}
    on_streams = lambda d: desc_contains(d, lambda y: y[0] == "field" and y[2] == ix["streams"] and y[1][0] == "param")
    recvs = [blk for blk, t in b.calls_to(r"WebsocketStream::recv_nonblocking$|WebsocketStream::recv$")]
    chk.floor("poll sites", len(recvs), 1)
    execs = {}
    for blk, t in b.calls_to(r"ThreadPool::execute$"):
        name, cl = handler_field_of(prog, b, blk, ix)
        execs.setdefault(name, []).append((blk, cl))
        pool = describe(prog, b, t["args"][0])
        chk.ob("R6.single_queue", fn, f"dispatch of {name} goes through self.thread_pool", desc_contains(pool, lambda y: y[0] == "field" and y[2] == ix["thread_pool"]), "", where=b.where(blk))
    for n, fl in (("on_message", 1), ("on_connect", 1), ("on_disconnect", 1)):
        chk.floor(f"dispatch sites for {n}", len(execs.get(n, [])), fl)
    unset = {}   # handler name -> edges where the Option<handler> is None
    for s in range(len(b.blocks)):
        t = b.term(s)
        if t and t["k"] == "switch":
            info = switch_info(prog, b, s)
            if info and info["kind"] == "enum" and info.get("src") is not None and "None" in info["edges"]:
                d = core.describe(prog, b, {"k": "copy", "pl": info["src"]})
                for n in ("on_message", "on_connect", "on_disconnect", "shutdown"):
                    if desc_contains(d, lambda y: y[0] == "field" and y[2] == ix[n] and y[1][0] == "param"):
                        unset.setdefault(n, set()).add((s, info["edges"]["None"]))
    # ---- R1 messages
    for rb in recvs:
        t = b.term(rb)
        recv_d = describe(prog, b, t["args"][0])
        gm = [c for c in core.desc_calls(recv_d) if c[1].endswith("HashMap::<K, V, S, A>::get_mut") and on_streams(c[2][0])]
        chk.ob("R3.polled_from_streams", fn, "messages are polled only from entries of self.streams", bool(gm), f"receiver {panics.short_desc(recv_d)}", where=b.where(rb))
    # a stream is registered under its own peer address: the key of `streams.insert` is peer_addr() of the stream stored with it, computed per
    # element (in the admission loop or in a closure of its iterator chain) — never taken from a second list paired by position, where one
    # failed peer_addr() shifts every later stream onto its neighbour's address
    for blk, t in b.calls_to(r"HashMap::<K, V, S, A>::insert$"):
        if not (t["args"] and the_table0(describe(prog, b, t["args"][0]), ix)) or len(t["args"]) < 3:
            continue
        kd = describe(prog, b, t["args"][1])
        vd = describe(prog, b, t["args"][2])
        pairing = [c[1] for c in core.desc_calls(kd) + core.desc_calls(vd) if core.re.search(r"::(zip|unzip|enumerate|nth|get|skip|rev|chain)$|ops::Index", c[1])]
        direct = desc_contains(kd, lambda y: y[0] == "call" and y[1].endswith("::peer_addr"))
        via_closure = any(y[0] == "closure" and y[1] in prog.bodies and prog.bodies[y[1]].calls_to(r"::peer_addr$") for y in core.desc_subterms(kd) if isinstance(y, tuple) and y)
        k_next = {c[3] for c in core.desc_calls(kd) if c[1].endswith("::next") and len(c) > 3}
        v_next = {c[3] for c in core.desc_calls(vd) if c[1].endswith("::next") and len(c) > 3}
        same_elem = bool(k_next) and k_next <= v_next if not direct else True
        chk.ob("R2.admission", fn, "a new stream is stored under its own peer address (address and stream come from the same element)", (direct or via_closure) and same_elem and not pairing,
               f"address from {'peer_addr' if direct or via_closure else 'elsewhere'}, pairing adaptors {[core.short(x) for x in pairing][:3]}, same element: {same_elem}", where=b.where(blk))
    # every pass polls every stream in the table: the set of addresses walked by the poll loop is taken from self.streams anew in each pass
    # (a list kept across passes and refreshed only when the table's size changed misses a client admitted in the pass another one left)
    def the_table(d):
        d = panics._strip(d)
        return isinstance(d, tuple) and d[0] == "field" and d[2] == ix["streams"] and d[1][0] == "param"
    walks = [blk for blk, t in b.calls_to(r"HashMap::<K, V, S, A>::(keys|iter|iter_mut|values_mut|values|into_keys|drain)$|IntoIterator>?::into_iter$")
             if t["args"] and the_table(describe(prog, b, t["args"][0]))]
    passes = [blk for blk, t in b.calls_to(r"mpsc::Receiver::<T>::try_iter$|mpsc::Receiver::<T>::try_recv$")
              if t["args"] and desc_contains(describe(prog, b, t["args"][0]), lambda y: y[0] == "field" and y[2] == ix["incoming_streams"])]
    # (only the walks the polled address / stream comes from count: the heartbeat's own walk does not refresh the poll list)
    feeding = set()
    for rb in recvs:
        rd = describe(prog, b, b.term(rb)["args"][0])
        feeding |= {c[3] for c in core.desc_calls(rd) if len(c) > 3 and isinstance(c[3], int)}
    walks = [w_ for w_ in walks if w_ in feeding]
    # the head of the run loop: the block of the cycle through the poll site that dominates every other block of that cycle
    heads = []
    for rb in recvs[:1]:
        scc = {x for x in b.reachable(b.succs(rb)) if rb in b.reachable([x])} | {rb}
        heads = [h for h in scc if all(b.dominates(h, o) for o in scc)]
    chk.floor("head of the run loop", len(heads), 1)
    for a_ in heads[:1]:
        w = core.must_pass(b, b.succs(a_), [a_], through_nodes=walks)
        chk.ob("R3.polled_from_streams", fn, "each pass walks self.streams as it is in that pass (the address list is rebuilt unconditionally)", w is None and bool(walks),
               "a pass can run with the address list of an earlier pass: a stream admitted meanwhile is not polled, its messages and its disconnect are not seen", path=w)
        key = gm[0][2][1] if gm else None
        # every registered stream is polled on every round, whatever handlers are set: closes, pings and pongs are only seen by polling
        hand = []
        for s_, lab, gd, info in core.guards_dominating(prog, b, rb):
            for n_ in ("on_message", "on_connect", "on_disconnect"):
                if isinstance(gd, tuple) and desc_contains(gd, lambda y: y[0] == "field" and y[2] == ix[n_] and isinstance(y[1], tuple) and y[1][0] == "param"):
                    hand.append((n_, lab))
        chk.ob("R1.poll_unconditional", fn, "the poll of a stream does not depend on which handlers are registered", not hand,
               f"recv_nonblocking runs only under {hand}: an app without that handler never reads its streams (a clean close is never reported, pongs are "
               "never seen, so every live client is timed out by the heartbeat)", where=b.where(rb))
        for (s, tgt) in some_edge_of(prog, b, rb, "Ok"):
            mex = [blk for blk, cl in execs.get("on_message", [])]
            w = core.must_pass(b, [tgt], recvs + core.return_blocks(b), through_nodes=mex, through_edges=unset.get("on_message", set()), after_from=False)
            chk.ob("R1.message_dispatch", fn, "received message -> next poll passes one message dispatch (or handler unset)", w is None,
                   "a received message can be dropped without being dispatched", path=w, where=b.where(s))
        for blk, cl in execs.get("on_message", []):
            seen = b.reachable(b.succs(blk), removed_nodes=set(recvs))
            chk.ob("R1.message_dispatch", fn, "a message is dispatched at most once per poll", not any(x in seen for x, _ in execs.get("on_message", [])), "", where=b.where(blk))
            ops = cl[2]
            has_msg = any(desc_contains(o, lambda y: y[0] == "call" and len(y) > 3 and y[3] == rb) for o in ops)
            chk.ob("R1.message_dispatch", fn, "the dispatched closure captures the message just received", has_msg, "the handler is given another message", where=b.where(blk))
            asn = [c for o in ops for c in core.desc_calls(o) if c[1].endswith("AsyncStream::<StreamState>::new")]
            same_addr = bool(asn) and key is not None and panics._strip(asn[0][2][0]) == panics._strip(key)
            chk.ob("R1.message_dispatch", fn, "the handler's AsyncStream carries the polled client's address", same_addr,
                   f"AsyncStream address {panics.short_desc(asn[0][2][0]) if asn else None} vs polled key {panics.short_desc(key) if key else None}", where=b.where(blk))
        # ---- R2 disconnects
        removes = []
        for blk, t2 in b.calls_to(r"HashMap::<K, V, S, A>::remove$"):
            if on_streams(describe(prog, b, t2["args"][0])) and key is not None and panics._strip(describe(prog, b, t2["args"][1])) == panics._strip(key):
                removes.append(blk)
        chk.floor("streams.remove(addr) sites", len(removes), 1)
        for (s, tgt) in some_edge_of(prog, b, rb, "Err"):
            w = core.must_pass(b, [tgt], recvs, through_nodes=removes, after_from=False)
            chk.ob("R2.disconnect", fn, "receive error -> the stream is removed before any further poll", w is None,
                   "a closed stream stays in the map and is polled again (disconnect dispatched repeatedly)", path=w, where=b.where(s))
            dex = [blk for blk, cl in execs.get("on_disconnect", [])]
            w = core.must_pass(b, [tgt], removes, through_nodes=dex, through_edges=unset.get("on_disconnect", set()), after_from=False)
            chk.ob("R2.disconnect", fn, "receive error -> disconnect handler dispatched (or unset) before removal", w is None, "a disconnect is not reported", path=w, where=b.where(s))
        for blk, cl in execs.get("on_disconnect", []):
            w = core.must_pass(b, [blk], recvs + [x for x, _ in execs.get("on_disconnect", []) if x != blk and False], through_nodes=removes)
            chk.ob("R2.disconnect", fn, "disconnect dispatch -> streams.remove(addr) before the next poll", w is None,
                   "after the disconnect handler was dispatched the stream can be polled again", path=w, where=b.where(blk))
            asn = [c for o in cl[2] for c in core.desc_calls(o) if c[1].endswith("AsyncStream::<StreamState>::disconnected")]
            same_addr = bool(asn) and key is not None and panics._strip(asn[0][2][0]) == panics._strip(key)
            chk.ob("R2.disconnect", fn, "the disconnect handler gets the closed client's address (marked disconnected)", same_addr, "", where=b.where(blk))
        # heartbeat timeout edge
        lpi = next((i for i, x in enumerate(prog.structs.get("humphrey_ws::stream::WebsocketStream", {}).get("fields", [])) if x["name"] == "last_pong"), None)
        # (the comparison of last_pong's age with the timeout — not the "is a ping due" test on last_ping)
        ge = [(blk, t2) for blk, t2 in b.calls_to(r"PartialOrd::ge$|PartialOrd::gt$")
              if desc_contains(describe(prog, b, t2["args"][0]), lambda y: y[0] == "call" and y[1].endswith("Instant::elapsed") and desc_contains(y[2], lambda z: z[0] == "field" and z[2] == lpi))]
        chk.floor("heartbeat timeout test", len(ge), 1)
        for blk, t2 in ge:
            sw = core.bool_test_of_call(b, blk)
            if sw:
                nxt = [x for x, _ in b.calls_to(r"vec::IntoIter<T, A> as std::iter::Iterator>::next$")]
                w = core.must_pass(b, [sw[1]], recvs + nxt, through_nodes=removes, after_from=False)
                chk.ob("R2.disconnect", fn, "heartbeat timeout -> the stream is removed before the next client is polled", w is None, "", path=w, where=b.where(blk))
                dex = [x for x, _ in execs.get("on_disconnect", [])]
                w = core.must_pass(b, [sw[1]], removes, through_nodes=dex, through_edges=unset.get("on_disconnect", set()), after_from=False)
                chk.ob("R2.disconnect", fn, "heartbeat timeout -> disconnect handler dispatched (or unset)", w is None, "", path=w, where=b.where(blk))
        # liveness is judged from last_pong, which only an answer to a ping refreshes: when a ping is due every registered stream gets
        # one — nothing about the stream's recent traffic may suppress it (a client that is busy sending would otherwise time out)
        hbi = next((i for i, x in enumerate(prog.structs.get("humphrey_ws::async_app::AsyncWebsocketApp", {}).get("fields", [])) if x["name"] == "heartbeat"), None)
        pings = b.calls_to(r"WebsocketStream::ping$")
        chk.floor("heartbeat ping site", len(pings), 1)
        for pb_, pt_ in pings:
            odd = []
            for s_, lab, gd, info in core.guards_dominating(prog, b, pb_):
                if info and info.get("pseudo"):
                    gdesc = gd
                else:
                    gdesc = gd
                okg = False
                if isinstance(gdesc, tuple) and gdesc:
                    if lab in ("Some", "Ok", "Continue", "None", "Err") and gdesc[0] == "call" and core.re.search(r"Iterator>?::next$|HashMap::<K, V, S, A>::(get_mut|get)$|recv_nonblocking$|try_recv$|peer_addr$", gdesc[1]):
                        okg = True
                    elif desc_contains(gdesc, lambda y: y[0] == "field" and y[2] == hbi and y[1][0] == "param"):
                        okg = True       # "is a ping due" (heartbeat configuration / last ping time)
                    elif desc_contains(gdesc, lambda y: y[0] == "call" and y[1].endswith("Instant::elapsed")):
                        okg = True       # the timeout test on last_pong
                    elif info and info.get("kind") == "enum":
                        okg = True       # which Restion / Result arm the poll took is handled by the rules above
                    elif desc_contains(gdesc, lambda y: y[0] == "call" and core.re.search(r"mpsc::Receiver::<T>::(try_recv|recv|recv_timeout)$|mpsc::Receiver::(try_recv|recv)$", y[1]) is not None):
                        okg = True       # the shutdown / channel polls of the outer loop
                if not okg and isinstance(gdesc, tuple) and gdesc and gdesc[0] == "multi" and len(gdesc) > 4 and len(gdesc[1]) == len(gdesc[4]) and \
                        all(a in (("lit", True), ("lit", False)) for a in gdesc[1]):
                    # a flag computed earlier (`let will_ping = match &self.heartbeat { Some(c) if elapsed >= c.interval => true, _ => false }`):
                    # what it depends on are the guards of its definitions
                    inner = [g2 for db in gdesc[4] for s2, l2, g2, i2 in core.guards_dominating(prog, b, db)]
                    okg = bool(inner) and all(isinstance(g2, tuple) and g2 and (
                        desc_contains(g2, lambda y: y[0] == "field" and y[2] == hbi and y[1][0] == "param") or
                        desc_contains(g2, lambda y: y[0] == "call" and y[1].endswith("Instant::elapsed")) or
                        desc_contains(g2, lambda y: y[0] == "call" and core.re.search(r"mpsc::Receiver::<T>::(try_recv|recv|recv_timeout)$|Iterator>?::next$|HashMap::<K, V, S, A>::(get_mut|get)$", y[1]) is not None)) and
                        # ... and nothing about what the stream itself has just delivered
                        not desc_contains(g2, lambda y: y[0] == "call" and core.re.search(r"recv_nonblocking$|WebsocketStream::recv$|message::Message::|frame::Frame::", y[1]) is not None)
                        for g2 in inner)
                if not okg:
                    odd.append((lab, core.short(str(gdesc))[:70]))
            chk.ob("R2.heartbeat", fn, "when a ping is due, every registered stream is pinged (no other condition on the ping)", not odd,
                   f"the ping also depends on {odd}: a live client for which that condition fails is never pinged, never answers, and is timed out", where=b.where(pb_))
    # ---- R3 incoming
    def drain_sites(field):
        """(block, label of the 'got one' edge): next() over try_iter() of the receiver field, or try_recv() on it (`while let Ok(..)`)."""
        out = []
        for blk, t in b.calls_to(r"Iterator>::next$|Iterator::next$"):
            d = describe(prog, b, t["args"][0])
            if desc_contains(d, lambda y: y[0] == "call" and y[1].endswith("Receiver::<T>::try_iter") and desc_contains(y[2], lambda z: z[0] == "field" and z[2] == ix[field])):
                out.append((blk, "Some"))
        for blk, t in b.calls_to(r"Receiver::<T>::try_recv$"):
            if desc_contains(describe(prog, b, t["args"][0]), lambda z: z[0] == "field" and z[2] == ix[field]):
                out.append((blk, "Ok"))
        return out
    inc_sites = drain_sites("incoming_streams")
    inc_next = [x for x, _ in inc_sites]
    got = dict(inc_sites)
    chk.floor("incoming stream iteration", len(inc_next), 1)
    for nb in inc_next:
        inserts = []
        for blk, t in b.calls_to(r"HashMap::<K, V, S, A>::insert$"):
            if on_streams(describe(prog, b, t["args"][0])):
                k, v = describe(prog, b, t["args"][1]), describe(prog, b, t["args"][2])
                from_next = lambda d: desc_contains(d, lambda y: y[0] == "call" and len(y) > 3 and y[3] == nb)
                chk.ob("R3.connect", fn, "accepted stream is stored under its own peer address", from_next(k) and from_next(v), f"insert({panics.short_desc(k)}, {panics.short_desc(v)})", where=b.where(blk))
                if from_next(k) and from_next(v):
                    inserts.append(blk)
        # a stream whose peer address cannot be read is skipped (by the filter_map adaptor, or by an explicit `Err(_) => continue`)
        skip_edges = set()
        for pb, pt in b.calls_to(r"peer_addr$"):
            if desc_contains(describe(prog, b, pt["args"][0]), lambda y: y[0] == "call" and len(y) > 3 and y[3] == nb):
                for e in some_edge_of(prog, b, pb, "Err"):
                    skip_edges.add(e)
        for (s, tgt) in some_edge_of(prog, b, nb, got[nb]):
            w = core.must_pass(b, [tgt], [nb] + core.return_blocks(b), through_nodes=inserts, through_edges=skip_edges, after_from=False)
            chk.ob("R3.connect", fn, "every accepted stream reaches streams.insert", w is None, "an accepted client is dropped", path=w)
            cex = [blk for blk, cl in execs.get("on_connect", [])]
            w = core.must_pass(b, [tgt], [nb] + core.return_blocks(b), through_nodes=cex, through_edges=set(unset.get("on_connect", set())) | skip_edges, after_from=False)
            chk.ob("R3.connect", fn, "every accepted stream gets one connect dispatch (or handler unset)", w is None, "", path=w)
        for blk, cl in execs.get("on_connect", []):
            seen = b.reachable(b.succs(blk), removed_nodes={nb})
            chk.ob("R3.connect", fn, "connect is dispatched at most once per accepted stream", not any(x in seen for x, _ in execs.get("on_connect", [])), "")
            asn = [c for o in cl[2] for c in core.desc_calls(o) if c[1].endswith("AsyncStream::<StreamState>::new")]
            chk.ob("R3.connect", fn, "the connect handler gets the new client's address", bool(asn) and desc_contains(asn[0][2][0], lambda y: y[0] == "call" and len(y) > 3 and y[3] == nb), "")
    # the filter keeps a stream only together with its own address
    # ---- R4 outgoing
    out_next = [x for x, _ in drain_sites("outgoing_messages")]
    chk.floor("outgoing message iteration", len(out_next), 1)
    for blk, t in b.calls_to(r"WebsocketStream::send$"):
        recv_d = describe(prog, b, t["args"][0])
        gm = [c for c in core.desc_calls(recv_d) if c[1].endswith("get_mut") and on_streams(c[2][0])]
        labs = [lab for s, lab, d, info in core.guards_dominating(prog, b, blk) if lab in ("Message", "Broadcast")]
        ok = bool(gm) and labs == ["Message"]
        if gm:
            k = gm[0][2][1]
            msg = describe(prog, b, t["args"][1])
            # key = field 0 and message = field 1 of the same OutgoingMessage::Message
            ok = ok and k[0] == "field" and k[2] == 0 and msg[0] == "field" and msg[2] == 1 and k[1] == msg[1]
        chk.ob("R4.unicast", fn, "unicast: streams.get_mut(<address in the message>).send(<that message>)", ok, f"{panics.short_desc(recv_d)}", where=b.where(blk))
    chk.floor("unicast send site", len(b.calls_to(r"WebsocketStream::send$")), 1)
    bc = b.calls_to(r"WebsocketStream::send_raw$")
    # `for stream in values_mut() { stream.send_raw(..) }`, or `values_mut().for_each(|stream| stream.send_raw(..))`
    bc_cl = []
    for blk, t in b.calls_to(r"Iterator::for_each$"):
        cd = describe(prog, b, t["args"][1])
        if cd[0] == "closure" and cd[1] in prog.bodies and prog.bodies[cd[1]].calls_to(r"WebsocketStream::send_raw$"):
            bc_cl.append((blk, t, prog.bodies[cd[1]]))
    # a failed write to one client does not end the broadcast for the others: the send is not inside a short-circuiting adaptor
    # (`values_mut().try_for_each(|s| s.send_raw(..)).ok()` stops at the first stream whose socket is gone; hash order decides who is behind it)
    sc = []
    for blk, t in b.calls_to(r"Iterator::(try_for_each|try_fold|all|any|find|find_map|position|map_while|take_while|skip_while)$"):
        for a_ in t["args"][1:]:
            cd = describe(prog, b, a_)
            if cd[0] == "closure" and cd[1] in prog.bodies:
                fam_ = [prog.bodies[cd[1]]] + prog.all_closures_of(cd[1])
                if any(x.calls_to(r"WebsocketStream::(send_raw|send)$") for x in fam_):
                    sc.append((blk, t))
    for blk, t in sc:
        chk.ob("R4.broadcast", fn, "broadcast: a failed send to one stream does not stop the sends to the others", False,
               f"the send sits in the closure of {core.short(t['callee'])}, which stops at the first error / false: clients later in the table's iteration order miss the broadcast "
               "whenever one stream's socket has gone away", where=b.where(blk))
    if sc:
        bc_cl += [(blk, t, prog.bodies[describe(prog, b, t["args"][1])[1]]) for blk, t in sc if describe(prog, b, t["args"][1])[0] == "closure"]
    chk.floor("broadcast send site", len(bc) + len(bc_cl), 1)
    for blk, t, cb in bc_cl:
        recv_d = describe(prog, b, t["args"][0])
        ok = desc_contains(recv_d, lambda y: y[0] == "call" and y[1].endswith("HashMap::<K, V, S, A>::values_mut") and on_streams(y[2][0])) and \
            not desc_contains(recv_d, lambda y: y[0] == "call" and core.re.search(r"::(take|skip|filter|step_by|nth|take_while|skip_while)$", y[1]) is not None)
        labs = [lab for s, lab, d, info in core.guards_dominating(prog, b, blk) if lab in ("Message", "Broadcast")]
        chk.ob("R4.broadcast", fn, "broadcast: every stream in self.streams", ok and labs == ["Broadcast"], f"{panics.short_desc(recv_d)} under {labs}", where=b.where(blk))
        for sb, st_ in cb.calls_to(r"WebsocketStream::send_raw$"):
            data = core.describe_r(prog, cb, st_["args"][1])
            chk.ob("R4.broadcast", fn, "broadcast data is the message's serialised frame", desc_contains(data, lambda y: y[0] == "call" and y[1].endswith("Message::to_frame")), f"{panics.short_desc(data)}")
            who = core.describe(prog, cb, st_["args"][0])
            chk.ob("R4.broadcast", fn, "each visited stream is the one sent to", desc_contains(who, lambda y: y[0] == "param"), f"{panics.short_desc(who)}")
    for blk, t in bc:
        recv_d = describe(prog, b, t["args"][0])
        ok = desc_contains(recv_d, lambda y: y[0] == "call" and y[1].endswith("HashMap::<K, V, S, A>::values_mut") and on_streams(y[2][0])) and \
            not desc_contains(recv_d, lambda y: y[0] == "call" and core.re.search(r"::(take|skip|filter|step_by|nth|take_while|skip_while)$", y[1]) is not None)
        labs = [lab for s, lab, d, info in core.guards_dominating(prog, b, blk) if lab in ("Message", "Broadcast")]
        chk.ob("R4.broadcast", fn, "broadcast: every stream in self.streams", ok and labs == ["Broadcast"], f"{panics.short_desc(recv_d)} under {labs}", where=b.where(blk))
        data = describe(prog, b, t["args"][1])
        chk.ob("R4.broadcast", fn, "broadcast data is the message's serialised frame", desc_contains(data, lambda y: y[0] == "call" and y[1].endswith("Message::to_frame")), f"{panics.short_desc(data)}")
    # ---- R7 the poll loop never blocks
    BLOCKING = (r"mpsc::Receiver::<T>::(recv|recv_timeout|iter)$|mpsc::Receiver<T> as std::iter::IntoIterator|WebsocketStream::recv$|message::Message::from_stream$|"
                r"JoinHandle::<T>::join$|std::sync::Condvar::wait|TcpListener::accept$|Incoming<'a> as std::iter::Iterator>::next$")
    for blk, t in b.calls():
        if core.call_matches(t, BLOCKING):
            chk.ob("R7.never_blocks", fn, f"blocking call {t['callee'].split('::')[-1]} in the poll loop", False,
                   f"{t['callee']} can block the single poll loop indefinitely: no client is polled, nothing is sent and the shutdown signal is not seen until it returns",
                   where=b.where(blk))
    chk.ob("R7.never_blocks", fn, "the poll loop uses only try_recv / try_iter / recv_nonblocking", True)
    from . import c11
    c11.probe_only_first(chk, prog, "R1.whole_messages")
    # "every message a client sends is delivered": nothing on the poll's read path takes bytes off the socket that it does not use (C10's rule)
    from . import c10 as _c10
    _c10.frame_integrity(chk, prog, "R1.frame_fields", "R1.no_read_ahead")
    # sends are write_all on a socket that must be blocking: the non-blocking probe has to put the socket back on every return
    c11.blocking_mode_restored(chk, prog, rule="R3.sends_on_blocking_socket")
    # ---- R5 shutdown
    keys = [blk for blk, t in b.calls_to(r"HashMap::<K, V, S, A>::keys$")]
    tr = [blk for blk, t in b.calls_to(r"Receiver::<T>::try_recv$") if desc_contains(describe(prog, b, t["args"][0]), lambda y: y[0] == "field" and y[2] == ix["shutdown"])]
    chk.floor("shutdown poll", len(tr), 1)
    chk.floor("outer loop marker (keys snapshot)", len(keys), 1)
    w = core.must_pass(b, keys, keys, through_nodes=tr, through_edges=unset.get("shutdown", set()))
    chk.ob("R5.shutdown", fn, "every outer iteration polls the shutdown receiver (or none is set)", w is None, "", path=w)
    stops = [blk for blk, t in b.calls_to(r"ThreadPool::stop$")]
    for tb in tr:
        isok = [blk for blk, t in b.calls_to(r"Result::<T, E>::is_ok$") if desc_contains(describe(prog, b, t["args"][0]), lambda y: y[0] == "call" and len(y) > 3 and y[3] == tb)]
        done = False
        for ib in isok:
            sw = core.bool_test_of_call(b, ib)
            if sw:
                seen = b.reachable([sw[1]])
                done = not any(k in seen for k in keys) and any(s in seen for s in stops)
        for (s, tgt) in some_edge_of(prog, b, tb, "Ok"):
            seen = b.reachable([tgt])
            done = done or (not any(k in seen for k in keys) and any(s_ in seen for s_ in stops))
        chk.ob("R5.shutdown", fn, "a received shutdown signal leaves the loop and reaches thread_pool.stop()", done, "the loop continues after the signal")
    w = core.must_pass(b, [0], core.return_blocks(b), through_nodes=stops, after_from=False)
    chk.ob("R5.shutdown", fn, "run() returns only through thread_pool.stop()", w is None and bool(stops), "", path=w)

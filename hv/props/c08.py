"""C08 — thread pool: tasks run exactly once, panics are isolated, shutdown terminates (structural clauses)."""
from .. import core, locks
from ..core import describe_r as describe, desc_contains, switch_info

SPAWN = r"^std::thread::(spawn|Builder::spawn|Builder::spawn_unchecked|scope)"
JOIN = r"^std::thread::JoinHandle::<T>::join$"
CALL_ONCE = r"FnOnce(<Args>|<\(\)>)?>?::call_once$|^std::ops::FnOnce::call_once$"


def spawned_closures(prog):
    """(spawning body, block, closure body) for every thread spawn in humphrey::thread."""
    out = []
    for p, b in prog.bodies.items():
        if not p.startswith("humphrey::thread::") or "promoted" in p:
            continue
        for blk, t in b.calls_to(SPAWN):
            for a in t["args"]:
                d = core.describe(prog, b, a)
                if d[0] == "closure" and d[1] in prog.bodies:
                    out.append((b, blk, prog.bodies[d[1]]))
    return out


def diverges(body):
    """No `return` reachable from entry over normal edges."""
    seen = body.reachable([0])
    return not any(body.term(b)["k"] == "return" for b in seen)


def owner_struct(prog, spawn_body, spawn_block):
    """Struct type (path) into which the JoinHandle returned by this spawn is stored in the same fn."""
    # find aggregates in spawn_body whose operands derive from the spawn call
    for blk_i, blk in enumerate(spawn_body.blocks):
        for s in blk["stmts"]:
            rv = s.get("rv")
            if rv and rv.get("k") == "agg" and rv.get("agg") == "adt" and rv.get("adt", "").startswith("humphrey::thread::"):
                for o in rv["ops"]:
                    d = core.describe(prog, spawn_body, o)
                    if desc_contains(d, lambda y: y[0] == "call" and len(y) > 3 and y[3] == spawn_block):
                        return rv["adt"]
    return None


def locks_taken(prog, root):
    """Lock types acquired by a body and its local callees / closures."""
    out = set()
    for p in prog.reach_bodies([root.path]):
        b = prog.bodies[p]
        for blk, t in b.calls_to(r"^std::sync::(Mutex::<T>::lock|RwLock::<T>::(read|write))$"):
            ty = t["arg_tys"][0] if t.get("arg_tys") else ""
            m = core.re.search(r"(Mutex|RwLock)<(.*)>$", ty)
            if m:
                out.add(m.group(2))
    return out


def worker_rules(chk, prog, w, spawn_body):
    fn = w.path
    we = prog.elab.get(fn)
    chk.floor("worker elaborated body", 1 if we else 0, 1)
    recv = [blk for blk, t in w.calls_to(r"mpsc::Receiver::<T>::(recv|recv_timeout|try_recv)$")]
    chk.floor("worker recv site", len(recv), 1)
    calls = [blk for blk, t in w.calls_to(CALL_ONCE)]
    chk.floor("task call site", len(calls), 1)
    rets = core.return_blocks(w)
    # ---- R2: received task is always called
    fun_edges = []
    shutdown_edges = []
    for s in range(len(w.blocks)):
        t = w.term(s)
        if t and t["k"] == "switch":
            info = switch_info(prog, w, s)
            if info and info["kind"] == "enum" and "pool::Message" in (info.get("src_ty") or ""):
                if "Function" in info["edges"]:
                    fun_edges.append((s, info["edges"]["Function"]))
                if "Shutdown" in info["edges"]:
                    shutdown_edges.append((s, info["edges"]["Shutdown"]))
    chk.floor("Message::Function arm", len(fun_edges), 1)
    chk.floor("Message::Shutdown arm", len(shutdown_edges), 1)
    task_calls = []
    for blk in calls:
        d = core.describe(prog, w, w.term(blk)["args"][0])
        if desc_contains(d, lambda y: y[0] == "call" and y[1].endswith("::recv")) or desc_contains(d, lambda y: y[0] == "multi" and y[2] == "task"):
            task_calls.append(blk)
    chk.ob("R2.at_least_once", fn, "the called closure is the received Message::Function payload", len(task_calls) >= 1,
           "the worker's call_once does not take the received task")
    for (s, tgt) in fun_edges:
        wp = core.must_pass(w, [tgt], recv + rets, through_nodes=task_calls, after_from=False)
        chk.ob("R2.at_least_once", fn, "Message::Function arm -> next recv/exit passes the task call", wp is None,
               "a received task can be dropped without being run", path=wp, where=w.where(s))
    # ---- R2c: between taking a task off the queue and calling it nothing can panic: a panic there (an overload report that divides by a
    # count of zero, an index, an unwrap) unwinds past the task, which is dropped without having run, and costs a worker restart
    from .. import panics as _pn
    from . import c03 as _c03
    _allow = _pn.load_allow()
    region = set()
    for (s, tgt) in fun_edges:
        fw = w.reachable([tgt], removed_nodes=set(task_calls))
        region |= {n for n in fw if any(c in w.reachable([n]) for c in task_calls)}
    n_sites = 0
    for st_ in _pn.sites_of(prog, w):
        if st_.block not in region or st_.block in task_calls:
            continue
        n_sites += 1
        how, why = _pn.try_discharge(prog, st_)
        if how is None and st_.fingerprint in _allow:
            ok_, why2_ = _c03.check_allow_cond(prog, st_, _allow[st_.fingerprint], {w.path})
            if ok_:
                how, why = "reviewed", f"{_allow[st_.fingerprint]['reason']} [{why2_}]"
        chk.ob("R2.no_panic_before_run", fn, f"{st_.kind} {core.short(st_.what)} between dequeue and the task call cannot fire", how is not None,
               f"{st_.kind} {st_.what} can panic after the task was taken off the queue and before it is called ({why or 'no discharge idiom applies'}): "
               "the task is dropped unrun and the worker is restarted", where=w.where(st_.block))
    chk.extra["dequeue_to_call_panic_sites"] = n_sites
    chk.ob("R2.no_panic_before_run", fn, "blocks between the Function arm and the task call examined", len(region) >= 1, f"{len(region)} blocks")
    # (at most once is a typing fact: Task = Box<dyn FnOnce()> is moved into its call; see the thorough-tier witness)
    # ---- R3: queue lock not held while the task runs
    if we:
        ecalls = [blk for blk, t in we.calls_to(CALL_ONCE)]
        chk.floor("task call site (elaborated)", len(ecalls), 1)
        for blk in ecalls:
            held = locks.held_locks(we, blk)
            bad = {l: ty for l, ty in held.items() if ty and "Receiver" in ty}
            chk.ob("R3.lock_free_run", fn, "no guard on the task queue is live at the task call", not bad,
                   f"the worker runs the task while holding the queue lock ({bad}): tasks are serialised and a panicking task poisons the queue",
                   where=we.where(blk))
        # lock must be released on the shutdown/err exits too: nothing to check (thread ends)
    # ---- R4a: drop guard alive across the task call
    if we:
        for blk in [b_ for b_, t in we.calls_to(CALL_ONCE)]:
            t = we.term(blk)
            uw = t.get("unwind")
            ok = False
            if uw is not None:
                seen = we.reachable([uw], unwind=True)
                for c in seen:
                    ct = we.term(c)
                    if ct and ct["k"] == "drop" and ct.get("ty", "").endswith("recovery::PanicMarker"):
                        ok = True
            chk.ob("R4.panic_marker", fn, "unwinding out of the task drops a PanicMarker", ok,
                   "a panicking task does not notify the recovery thread: the pool silently loses a worker", where=we.where(blk))
    # ---- R2b: no other dequeued-but-not-run task is alive across a task call
    if we:
        for blk in [b_ for b_, t in we.calls_to(CALL_ONCE)]:
            uw = we.term(blk).get("unwind")
            held = []
            if uw is not None:
                for c in we.reachable([uw], unwind=True):
                    ct = we.term(c)
                    if ct and ct["k"] == "drop":
                        ty = ct.get("ty", "")
                        if core.re.search(r"(VecDeque|Vec|BinaryHeap|LinkedList|\[)[^;]*(pool::Message|dyn std::ops::FnOnce)", ty) or core.re.search(r"std::(vec|collections)::.*<.*pool::Message", ty):
                            held.append(ty)
            chk.ob("R2.no_hoarding", fn, "no collection of dequeued tasks is alive while a task runs", not held,
                   f"a worker holds further dequeued tasks ({held[:1]}) while running one: if that task panics the others are dropped unrun, and they wait "
                   f"behind it although other workers are idle", where=we.where(blk))
    # ---- R5: exits (followed on the product with variant tags, so `recv().ok()` + `while let Some(..)` and helper functions are
    # treated like the nested `match .. { Err(_) => break }`)
    from .. import absreach

    def leaves_loop(call_blk, variant):
        t_ = w.term(call_blk)
        if t_.get("target") is None or t_["dest"]["p"]:
            return False
        seen_ = absreach.feasible_from(w, [t_["target"]], prog, init={("var", t_["dest"]["l"]): variant})
        return not any(r in seen_ for r in recv)
    for rblk in recv:
        chk.ob("R5.worker_exit", fn, "recv() Err (channel closed) leaves the loop", leaves_loop(rblk, "Err"),
               "a worker keeps looping after the channel was closed: drop of the pool leaves spinning/blocked workers", where=w.where(rblk))
    for (s, tgt) in shutdown_edges:
        seen = absreach.feasible_from(w, [tgt], prog)
        chk.ob("R5.worker_exit", fn, "Message::Shutdown leaves the loop", not any(r in seen for r in recv), "", where=w.where(s))
    for blk, t in w.calls_to(r"^std::sync::Mutex::<T>::lock$"):
        chk.ob("R5.worker_exit", fn, "poisoned queue lock leaves the loop (no busy loop)", leaves_loop(blk, "Err"), "", where=w.where(blk))


def _edges_of_result(prog, body, call_block, label):
    from .c01 import some_edge_of
    return some_edge_of(prog, body, call_block, label)


def marker_drop(chk, prog):
    fs = prog.impl_fn(r"^<humphrey::thread::recovery::PanicMarker as std::ops::Drop>$", "drop")
    chk.floor("Drop for PanicMarker", len(fs), 1)
    for f in fs:
        b = prog.bodies[f]
        sends = b.calls_to(r"mpsc::Sender::<T>::send$")
        chk.floor("PanicMarker send site", len(sends), 1)
        for blk, t in sends:
            gs = core.guards_dominating(prog, b, blk)
            ok = any(lab == "true" and desc_contains(d, lambda y: y[0] == "call" and y[1].endswith("thread::panicking")) for s, lab, d, info in gs)
            chk.ob("R4.marker_drop", f, "id sent only (and exactly) when panicking()", ok,
                   "the marker notifies the recovery thread on the wrong condition", where=b.where(blk))
            a0, a1 = core.describe(prog, b, t["args"][0]), core.describe(prog, b, t["args"][1])
            ok = desc_contains(a1, lambda y: y[0] == "field" and y[2] == 0) and desc_contains(a0, lambda y: y[0] == "field" and y[2] == 1)
            chk.ob("R4.marker_drop", f, "sends self.0 (thread id) through self.1", ok, f"send({a0}, {a1})", where=b.where(blk))
        # the not-panicking path sends nothing
        for s in range(len(b.blocks)):
            t = b.term(s)
            if t and t["k"] == "switch" and t.get("discr_ty") == "bool":
                d = core.describe(prog, b, t["discr"])
                if desc_contains(d, lambda y: y[0] == "call" and y[1].endswith("thread::panicking")):
                    info = switch_info(prog, b, s)
                    seen = b.reachable([info["edges"]["false"]])
                    chk.ob("R4.marker_drop", f, "normal drop sends nothing", not any(blk in seen for blk, _ in sends), "")


def recovery_rules(chk, prog, r):
    fn = r.path
    nexts = [blk for blk, t in r.calls_to(r"Iterator>?::next$|mpsc::Receiver::<T>::recv$")]
    chk.floor("recovery receive site", len(nexts), 1)
    news = r.calls_to(r"^humphrey::thread::pool::Thread::new$")
    chk.floor("Thread::new in recovery", len(news), 1)
    from .c01 import some_edge_of
    for nb in nexts:
        edges = some_edge_of(prog, r, nb, "Some") + some_edge_of(prog, r, nb, "Ok")
        for (s, tgt) in edges:
            good_new = []
            for blk, t in news:
                a0 = core.describe(prog, r, t["args"][0])
                a1 = core.describe(prog, r, t["args"][1])
                same_id = desc_contains(a0, lambda y: y[0] == "call" and len(y) > 3 and y[3] == nb)
                shared_rx = desc_contains(a1, lambda y: y[0] == "call" and y[1].endswith("Clone>::clone") or (y[0] == "call" and y[1].endswith("::clone")))
                chk.ob("R4.restart", fn, "restarted worker gets the panicked id and a clone of the task receiver", same_id and shared_rx,
                       f"Thread::new({a0}, {a1}, ..)", where=r.where(blk))
                if same_id and shared_rx:
                    good_new.append(blk)
            rets = core.return_blocks(r)
            wq = core.must_pass(r, [tgt], rets, through_nodes=nexts, after_from=False)
            chk.ob("R4.recovery_lives", fn, "a received id never ends the recovery thread (it stops only when its channel closes)", wq is None,
                   "some received value makes the recovery loop exit while workers can still panic: tasks queued behind a later panic are never run "
                   "because the dead worker is not replaced", path=wq)
            wp = core.must_pass(r, [tgt], nexts + rets, through_nodes=good_new, after_from=False)
            chk.ob("R4.restart", fn, "every received id leads to Thread::new before the next receive", wp is None,
                   "a panicked worker may not be replaced: the pool shrinks", path=wp)
            # stored at threads[id]
            stores = []
            assign_blocks = set()
            for blk, t in r.calls_to(r"IndexMut<I>>::index_mut$|ops::IndexMut::index_mut$"):
                idx = core.describe(prog, r, t["args"][1])
                if desc_contains(idx, lambda y: y[0] == "call" and len(y) > 3 and y[3] == nb):
                    # the element is assigned the new thread
                    dest = t["dest"]["l"]
                    assigned = False
                    for b2 in r.reachable(r.succs(blk)):
                        for st in r.blocks[b2]["stmts"]:
                            from ..fmt import _deref_chain as _dc
                            if "pl" in st and (st["pl"]["l"] == dest or _dc(r, st["pl"]["l"]) == dest) and st["pl"]["p"] and st["pl"]["p"][0][0] == "d" and len(st["pl"]["p"]) == 1:
                                v = core.describe(prog, r, st["rv"]["o"]) if st["rv"]["k"] == "use" else None
                                if v and desc_contains(v, lambda y: y[0] == "call" and y[1].endswith("pool::Thread::new")):
                                    assigned = True
                                    assign_blocks.add(b2)
                    if assigned:
                        stores.append(blk)
            wp = core.must_pass(r, [tgt], nexts, through_nodes=stores, after_from=False)
            chk.ob("R4.restart", fn, "the new worker is stored at threads[id]", wp is None,
                   "the restarted worker is stored under another index (or not at all): a later panic of it joins/replaces the wrong thread", path=wp)
            # the handle that is joined is the dead worker's: once the replacement sits in threads[id], a take()+join() of that slot waits for
            # the live replacement while the lock on the worker list is held
            joins = [blk for blk, t in r.calls_to(JOIN)]
            for sb in sorted(assign_blocks):
                after = r.reachable(r.succs(sb), removed_nodes=set(nexts))
                late = [j for j in joins if j in after]
                chk.ob("R4.restart", fn, "the panicked worker is joined before its slot is given to the replacement", not late,
                       "the join comes after threads[id] = <new worker>: it takes the replacement's handle and waits for a healthy worker while holding the "
                       "worker-list lock (a second panic is never handled; drop blocks forever)", where=r.where(late[0]) if late else "")


def isolation_rules(chk, prog):
    """The worker / PanicMarker / recovery rules on their own (also used by C01 and C20: a panicking handler costs only its own connection;
    tasks queued before the shutdown message still run)."""
    sp = spawned_closures(prog)
    worker = [(sb, blk, c) for sb, blk, c in sp if c.calls_to(CALL_ONCE)]
    recovery = [(sb, blk, c) for sb, blk, c in sp if c.calls_to(r"^humphrey::thread::pool::Thread::new$")]
    chk.floor("worker closure", len(worker), 1)
    chk.floor("recovery closure", len(recovery), 1)
    for sb, blk, c in worker:
        worker_rules(chk, prog, c, sb)
    marker_drop(chk, prog)
    for sb, blk, c in recovery:
        recovery_rules(chk, prog, c)


def run(chk):
    prog = chk.use(core.load("A", fresh=(chk.tier == "thorough")))
    chk.explanation = (
        "Static decision of C08's structural clauses on the worker closure, the recovery closure, PanicMarker::drop, ThreadPool::{execute,stop,drop}: "
        "a received task is called on every path and at most once per receive; no queue-lock guard is live at the task call (guard typestate on "
        "drop-elaborated MIR); unwinding out of the task drops a PanicMarker which sends its id only when panicking; every received id leads to a "
        "restarted worker stored at the same index; Err/Shutdown/poison leave the loop; the task Sender is never cloned; no join on a thread that "
        "cannot return; no join while holding a lock the joined thread takes.")
    chk.not_decided = "all interleavings; 'up to N at once' beyond the lock rule; that a restarted worker panicking again is recovered (follows inductively)"
    chk.assumptions = ["rustc type checking / MIR construction / drop elaboration / callee resolution", "std::sync::mpsc is FIFO and delivers queued messages before reporting disconnection",
                       "Task = Box<dyn FnOnce()> is consumed by its call (type system)"]
    sp = spawned_closures(prog)
    chk.floor("thread spawns in humphrey::thread", len(sp), 2)
    worker = [(sb, blk, c) for sb, blk, c in sp if c.calls_to(CALL_ONCE)]
    recovery = [(sb, blk, c) for sb, blk, c in sp if c.calls_to(r"^humphrey::thread::pool::Thread::new$")]
    chk.floor("worker closure", len(worker), 1)
    chk.floor("recovery closure", len(recovery), 1)
    for sb, blk, c in worker:
        worker_rules(chk, prog, c, sb)
    marker_drop(chk, prog)
    for sb, blk, c in recovery:
        recovery_rules(chk, prog, c)
    execute_after_start(chk, prog, "A")
    # ---- execute sends exactly one Function message
    ex = prog.bodies.get("humphrey::thread::pool::ThreadPool::execute")
    chk.floor("ThreadPool::execute", 1 if ex else 0, 1)
    if ex:
        sends = []
        for blk, t in ex.calls_to(r"mpsc::Sender::<T>::send$"):
            d = core.describe(prog, ex, t["args"][1])
            if d[0] == "variant" and d[2] == "Function" and desc_contains(d, lambda y: y[0] == "param" and y[2] == "task"):
                sends.append(blk)
        wp = core.must_pass(ex, [0], core.return_blocks(ex), through_nodes=sends, after_from=False)
        chk.ob("R2.execute", ex.path, "every return of execute passed send(Message::Function(task, ..))", wp is None and bool(sends),
               "execute can return without queueing the task", path=wp)
        for sblk in sends:
            seen = ex.reachable(ex.succs(sblk))
            chk.ob("R2.execute", ex.path, "the task is queued once", not any(x in seen for x in sends), "")
    # ---- R5: the task Sender is never cloned
    n = 0
    for p, b in prog.bodies.items():
        if "promoted" in p:
            continue
        for blk, t in b.calls():
            if (t.get("callee") or "").endswith("Clone::clone") and t.get("arg_tys") and "mpsc::Sender<humphrey::thread::pool::Message>" in t["arg_tys"][0]:
                n += 1
                chk.ob("R5.sender_unique", p, "Sender<Message> cloned", False,
                       "a second task Sender keeps the channel open after the pool is dropped: workers never see the disconnect", where=b.where(blk))
    chk.ob("R5.sender_unique", "humphrey", "no clone of Sender<Message> in the workspace", n == 0)
    # stop() sends Shutdown
    st = prog.bodies.get("humphrey::thread::pool::ThreadPool::stop")
    chk.floor("ThreadPool::stop", 1 if st else 0, 1)
    if st:
        ok = any(core.describe(prog, st, t["args"][1])[0:3] == ("variant", "humphrey::thread::pool::Message", "Shutdown") for blk, t in st.calls_to(r"mpsc::Sender::<T>::send$"))
        chk.ob("R5.stop", st.path, "stop() queues Message::Shutdown behind the pending tasks", ok, "")
    join_rules(chk, prog, None)
    generation_rule(chk, prog)
    threads_len_rule(chk, prog)
    ids_are_indices(chk, prog)
    _typing_witness(chk)

def channel_close_sites(b):
    """blocks in which the pool's task Sender is overwritten or dropped (the channel the workers wait on is closed)"""
    out = []
    for i, blk in enumerate(b.blocks):
        for st in blk["stmts"]:
            if "pl" in st and "rv" in st and st["pl"]["p"] and st["pl"]["p"][-1][0] == "f" and "mpsc::Sender<humphrey::thread::pool::Message>" in str(st["pl"]["p"][-1][2]):
                out.append(i)
        t = b.term(i)
        if t and t["k"] == "call" and core.call_matches(t, r"mem::(replace|take|drop|swap)$") and any("mpsc::Sender<humphrey::thread::pool::Message>" in a for a in t.get("arg_tys", [])):
            out.append(i)
    return out


def ids_are_indices(chk, prog):
    """R4.ids_are_indices: a worker's id is its index in the pool's own thread vector (the recovery thread does `threads[id]`): start() numbers
    its workers 0 .. thread_count, in the order it pushes them.  Ids taken from anything else (a process-wide counter, an offset) agree with
    the indices only for the first pool of the process."""
    b = prog.bodies.get("humphrey::thread::pool::ThreadPool::start")
    if not b:
        return
    st = prog.structs.get("humphrey::thread::pool::ThreadPool", {}).get("fields", [])
    ci = next((i for i, x in enumerate(st) if x["name"] == "thread_count"), None)
    n = 0
    from . import shared as _shared
    sites = []
    for bb in _shared.family(prog, b.path):
        for blk, t in bb.calls_to(r"pool::Thread::new$"):
            d = core.describe(prog, bb, t["args"][0])
            if bb.kind == "closure" and isinstance(d, tuple) and d[0] == "param":
                # `(0..n).map(|id| Thread::new(id, ..))`: the id is the element of the range the closure is mapped over
                for hb in _shared.family(prog, b.path):
                    for hblk, ht in hb.calls_to(r"Iterator::map$|Iterator>?::map$"):
                        if len(ht["args"]) > 1 and core.describe(prog, hb, ht["args"][1])[0:2] == ("closure", bb.path):
                            recv = core.describe(prog, hb, ht["args"][0])
                            d = ("field", ("call", "std::iter::Iterator::next", [recv], hblk), 0)
            sites.append((bb, blk, d))
    for bb, blk, d in sites:
        n += 1
        rng = [y for y in core.desc_subterms(d) if isinstance(y, tuple) and y and y[0] == "variant" and y[1].endswith("ops::Range")] if hasattr(core, "desc_subterms") else []
        ok = False
        why = f"id = {core.short(str(d))[:120]}"
        if rng and len(rng[0][3]) == 2:
            lo, hi = rng[0][3]
            ok = lo == ("lit", 0) and isinstance(hi, tuple) and hi[0] == "field" and hi[2] == ci and isinstance(hi[1], tuple) and hi[1][0] == "param" and \
                desc_contains(d, lambda y: y[0] == "call" and core.re.search(r"Iterator>?::next$|Iterator for std::ops::Range<A>>::next$", y[1]) is not None) and \
                not [c for c in core.desc_calls(d) if core.re.search(r"::(rev|skip|step_by|map|zip|chain|fetch_add|fetch_sub|load)$", c[1])]
        # enumerate() over the freshly built vector / a counter local starting at 0 would be equivalent spellings: accepted when the value is the
        # enumerate index of an iteration of length thread_count
        if not ok and desc_contains(d, lambda y: y[0] == "call" and y[1].endswith("Enumerate<I> as std::iter::Iterator>::next")) and \
                not [c for c in core.desc_calls(d) if core.re.search(r"::(fetch_add|fetch_sub|load|skip|rev|step_by)$", c[1])]:
            ok = True
        chk.ob("R4.ids_are_indices", b.path, "worker ids are 0 .. thread_count, the indices of the workers in the pool's thread vector", ok,
               f"{why}: the recovery thread indexes the vector with the id a panicking worker reports, so ids that are not the indices make it replace (or join) the wrong "
               "worker, or die on an out-of-bounds index", where=b.where(blk))
    chk.floor("Thread::new sites in start()", n, 1)


def threads_len_rule(chk, prog):
    """R4.threads_len: the recovery thread addresses workers by id = index into the shared Vec<Thread>; nothing may shorten or reorder that
    vector while a recovery thread can still run (it survives stop() and drop, detached): after `clear()` a late panic makes the recovery thread
    itself die on an out-of-bounds index, and the tasks still queued are never run."""
    SHRINK = r"Vec::<T, A>::(clear|truncate|pop|remove|swap_remove|drain|retain|retain_mut|dedup|dedup_by|dedup_by_key|split_off|insert|extract_if|splice)$|<impl \[T\]>::(reverse|swap|rotate_left|rotate_right|sort\w*)$"
    n = 0
    for p, b in sorted(prog.bodies.items()):
        if not p.startswith("humphrey::thread::") and "ThreadPool" not in p:
            continue
        if "promoted" in p:
            continue
        for blk, t in b.calls():
            tys = t.get("arg_tys") or []
            if not tys or "humphrey::thread::pool::Thread>" not in tys[0] and "[humphrey::thread::pool::Thread]" not in tys[0]:
                continue
            n += 1
            if core.call_matches(t, SHRINK):
                chk.ob("R4.threads_len", p, f"the worker list is not shortened or reordered ({core.short(t['callee']).split('::')[-1]})", False,
                       f"{core.short(t['callee'])} on the shared Vec<Thread>: worker ids are indices into it, and the detached recovery thread still uses them "
                       "(out-of-bounds panic of the recovery thread on the next worker panic; queued tasks are then never run)", where=b.where(blk))
    chk.floor("operations on the shared worker list", n, 3)


def generation_rule(chk, prog):
    """R4.generation: every start() gives its workers and its recovery thread a freshly allocated threads vector.  The recovery thread of an earlier
    start() survives stop() (it is only detached) and indexes its vector by worker id: sharing one vector between generations lets it take and join a
    healthy worker of the next generation while holding the vector's lock."""
    b = prog.bodies.get("humphrey::thread::pool::ThreadPool::start")
    chk.floor("ThreadPool::start", 1 if b else 0, 1)
    if not b:
        return
    st = prog.structs.get("humphrey::thread::pool::ThreadPool", {}).get("fields", [])
    ti = next((i for i, x in enumerate(st) if "Vec<humphrey::thread::pool::Thread>" in x["ty"]), None)
    rec = b.calls_to(r"RecoveryThread::new$")
    chk.floor("RecoveryThread::new in start()", len(rec), 1)
    fresh = []
    for i, blk in enumerate(b.blocks):
        for s_ in blk["stmts"]:
            if "pl" in s_ and "rv" in s_ and [e[1] for e in s_["pl"]["p"] if e[0] == "f"] == [ti] and s_["pl"]["l"] == 1:
                d = core.describe_rv(prog, b, s_["rv"])
                if isinstance(d, tuple) and d[0] == "call" and d[1].endswith("Arc::<T>::new"):
                    fresh.append(i)
    for blk, t in rec:
        for a in t["args"]:
            d = core.describe(prog, b, a)
            if not desc_contains(d, lambda y: y[0] == "field" and y[2] == ti and isinstance(y[1], tuple) and y[1][0] == "param"):
                if "Vec<humphrey::thread::pool::Thread>" in str(b.local_ty(core.op_local(a)) if core.op_local(a) is not None else ""):
                    d_ = d[2][0] if d[0] == "call" and d[1].endswith("Clone>::clone") and d[2] else d
                    ok = isinstance(d_, tuple) and d_[0] == "call" and d_[1].endswith("Arc::<T>::new")
                    chk.ob("R4.generation", b.path, "the recovery thread gets the threads vector allocated by this start()", ok, f"threads = {core.short(str(d))[:120]}", where=b.where(blk))
                continue
            wp = core.must_pass(b, [0], [blk], through_nodes=fresh, after_from=False) if fresh else [0, blk]
            chk.ob("R4.generation", b.path, "self.threads is a fresh Arc::new(..) on every path to RecoveryThread::new(.., self.threads.clone(), ..)", wp is None,
                   "start() reuses the vector of the previous generation: the detached recovery thread of an earlier start() indexes it with its own worker ids, "
                   "takes a healthy new worker's handle and joins it under the lock (pool never returns to N workers; drop blocks forever)", where=b.where(blk), path=wp)


def join_rules(chk, prog, prefix):
    """R6/R7: no join on a thread that cannot return; no join while holding a lock the joined thread takes."""
    r6 = "R6.join_immortal" if prefix is None else prefix
    r7 = "R7.lock_order" if prefix is None else prefix
    rid = "R6.join_identified" if prefix is None else prefix
    sp = spawned_closures(prog)
    owners = {}
    for sb, blk, c in sp:
        o = owner_struct(prog, sb, blk)
        if o:
            owners[o] = c
    chk.floor("JoinHandle owner structs", len(owners), 2)
    joins = 0
    for p, b in prog.bodies.items():
        if not p.startswith("humphrey::thread::") and "ThreadPool" not in p:
            continue
        if "promoted" in p:
            continue
        for blk, t in b.calls_to(JOIN):
            joins += 1
            visited = set()
            al = core.op_local(t["args"][0])
            core.slice_back(prog, b, al, visited=visited, transparent_extra=[r"Option::<T>::take$", r"mem::(take|replace)$", r"IndexMut", r"Index<", r"DerefMut"])
            tys = set()
            for (bp, l) in visited:
                bb = prog.bodies.get(bp)
                if bb is not None:
                    tys.add(bb.local_ty(l))
            joined = [c for o, c in owners.items() if any(o.split("::")[-1] in ty for ty in tys)]
            what = ",".join(sorted(core.short(c.path) for c in joined)) or "?"
            for c in joined:
                chk.ob(r6, p, f"join of a thread whose body can return ({core.short(c.path)})", not diverges(c),
                       f"{core.short(c.path)} has no reachable return (it loops forever and owns a Sender of its own channel), so this join never "
                       f"returns: dropping a started pool without stop() blocks the caller forever", where=b.where(blk))
                e = prog.elab.get(p)
                if e:
                    eb = [blk2 for blk2, t2 in e.calls_to(JOIN)]
                    for jb in eb:
                        held = set(v for v in locks.held_locks(e, jb).values() if v)
                        taken = locks_taken(prog, c)
                        clash = held & taken
                        chk.ob(r7, p, f"no lock of the joined thread held across join ({core.short(c.path)})", not clash,
                               f"join while holding {clash}, which the joined thread also takes: deadlock", where=e.where(jb))
            chk.ob(rid, p, f"joined thread identified: {what}", bool(joined), "could not tell which thread is joined", where=b.where(blk))
            # a worker (a thread that runs tasks) joined from the pool's own stop / drop path
            roots_ = [x for x in ("humphrey::thread::pool::ThreadPool::stop", "<humphrey::thread::pool::ThreadPool as std::ops::Drop>::drop") if x in prog.bodies]
            shutdown_path = prog.reach_bodies(roots_) if roots_ else set()
            if any(c.calls_to(CALL_ONCE) for c in joined) and p in shutdown_path:
                if prefix is not None:
                    chk.ob(prefix, p, "the shutdown path does not wait for worker threads", False,
                           "a worker is joined on the path that App::run takes after the shutdown signal (stop / drop of the pool): a worker that is handling an idle "
                           "keep-alive connection, an open WebSocket or a slow handler does not finish in bounded time, so neither does run()", where=b.where(blk))
                else:
                    closes = channel_close_sites(b)
                    wp = core.must_pass(b, [0], [blk], through_nodes=closes, after_from=False) if closes else [0, blk]
                    chk.ob("R6.join_worker", p, "a worker is joined only after the task channel was closed (self.tx replaced or dropped) on every path", wp is None,
                           "the Sender the workers wait on is still alive at the join (it is a field of the pool being stopped / dropped): every worker that was not "
                           "sent its own Shutdown message sits in recv() forever and the caller blocks forever", where=b.where(blk), path=wp)
    chk.extra["join_sites"] = joins


def _typing_witness(chk):
    """thorough tier: compile-fail witness with compiling twin (rustdoc `compile_fail,E0xxx` on nightly)."""
    if chk.tier != "thorough":
        return
    from .. import witness
    ok, res = witness.run("C08")
    chk.extra["typing_witness"] = res
    chk.ob("R1.typing_witness", "witness/typing", "a received task cannot be called twice (compile_fail E0382 + compiling twin)", ok, "Task is no longer consumed by its call: at-most-once is not guaranteed by the type: " + str(res)[:300])


def execute_after_start(chk, prog, cfg="A"):
    """R1.execute_after_start: "execute follows start" at every site of the workspace that submits to a pool: the `ThreadPool::execute` call is
    dominated by `ThreadPool::start` on the same pool in its own function, or — in a closure that captured the pool — the closure is built
    after the parent's `start()` on every path.  (A `start()` made conditional on which handlers are registered leaves an `execute` that
    asserts on a pool that was never started.)"""
    n = 0
    from ..inline import owner_fn
    newf = set(getattr(prog, "new_functions", []) or [])
    for p, b in sorted(prog.bodies.items()):
        if "promoted" in p or p.startswith("humphrey::thread::pool::") or owner_fn(p) in newf:
            continue        # (a helper that is new relative to the pinned tree is looked at where it was inlined)
        for blk, t in b.calls_to(r"thread::pool::ThreadPool::execute$"):
            n += 1
            d = core.describe(prog, b, t["args"][0])
            starts = [sb for sb, st in b.calls_to(r"thread::pool::ThreadPool::start$")]
            ok = any(b.dominates(sb, blk) for sb in starts)
            how = "start() dominates the call"
            if not ok and b.kind == "closure":
                site = core.closure_site(prog, b)
                if site:
                    host, hb = site
                    hs = [sb for sb, st in host.calls_to(r"thread::pool::ThreadPool::start$|app::App::<State>::start_thread_pool$")]
                    newf = set(getattr(prog, "new_functions", []) or [])
                    ok = any(host.dominates(sb, hb) for sb in hs)
                    how = "the closure is built after the parent's start()"
            chk.ob("R1.execute_after_start", p, "ThreadPool::execute is reached only after start() on that pool", ok,
                   "a task can be submitted to a pool that was not started on this path: execute asserts `started` and panics in the submitting thread" if not ok else how,
                   where=b.where(blk), cfg=cfg)
    chk.floor(f"ThreadPool::execute sites outside the pool [{cfg}]", n, 3)

"""C14.R2 — expansion corpus: a generated crate of derive / json_map! types and json! literals is compiled with the
driver (never run) and the expansions are compared structurally."""
import json
import os
import random
import shutil

from .. import core, extract
from ..core import hir_walk, hir_strip, hir_value

RENAMES = ["renamed", "with space", "ünï", 'quo"te', "back\\slash", "a:b", "{x}", "tab\there", "UPPER", "0digit", ""]
PRIMS = ["bool", "u8", "i32", "u64", "f64", "String"]


def rust_str(s):
    out = '"'
    for c in s:
        if c == '"':
            out += '\\"'
        elif c == "\\":
            out += "\\\\"
        elif c == "\n":
            out += "\\n"
        elif c == "\t":
            out += "\\t"
        else:
            out += c
    return out + '"'


class Gen:
    def __init__(self, seed, n_types, n_lits, max_depth):
        self.r = random.Random(seed)
        self.n_types, self.n_lits, self.max_depth = n_types, n_lits, max_depth
        self.types = []      # dicts
        self.lits = []
        self.src = []

    def field_ty(self, idx):
        r = self.r
        base = r.choice(PRIMS + [t["name"] for t in self.types[:idx] if t["kind"] != "skip"][-6:])
        w = r.random()
        if w < 0.2:
            return f"Option<{base}>"
        if w < 0.4:
            return f"Vec<{base}>"
        if w < 0.45:
            return f"Vec<Option<{base}>>"
        return base

    def gen_types(self):
        r = self.r
        for i in range(self.n_types):
            kind = ["named", "tuple", "enum", "mapped"][i % 4] if i < 8 else r.choice(["named", "named", "tuple", "enum", "mapped"])
            name = f"T{i}"
            t = {"name": name, "kind": kind}
            if kind in ("named", "mapped"):
                n = r.randint(1, 8)
                fields = []
                used = set()
                for j in range(n):
                    fname = f"f{j}"
                    key = fname
                    if r.random() < 0.4 or kind == "mapped":
                        key = r.choice(RENAMES) + (str(j) if r.random() < 0.7 else "")
                        while key in used:
                            key += "_"
                    used.add(key)
                    fields.append({"name": fname, "ty": self.field_ty(i), "key": key})
                t["fields"] = fields
            elif kind == "tuple":
                t["fields"] = [{"ty": self.field_ty(i)} for _ in range(r.randint(1, 6))]
            else:
                n = r.randint(1, 8)
                vs = []
                used = set()
                for j in range(n):
                    v = f"V{j}"
                    key = v
                    if r.random() < 0.4:
                        key = r.choice(RENAMES) + str(j)
                    while key in used:
                        key += "_"
                    used.add(key)
                    vs.append({"name": v, "key": key})
                t["variants"] = vs
            self.types.append(t)
        # fixed members of the corpus: spellings the random part does not produce — raw identifiers (`r#type`) as field names, and
        # doc comments next to `#[rename]` (a doc comment is an attribute too)
        self.types.append({"name": "TRaw", "kind": "named", "agree_only": True,
                           "fields": [{"name": "r#type", "ty": "i64", "key": "r#type"}, {"name": "r#ref", "ty": "Option<String>", "key": "r#ref"},
                                      {"name": "plain", "ty": "bool", "key": "plain"}]})
        self.types.append({"name": "TDoc", "kind": "named",
                           "fields": [{"name": "f0", "ty": "i64", "key": "documented key", "doc": "the first field"},
                                      {"name": "f1", "ty": "Option<String>", "key": "f1"}]})
        # boundary spellings: the empty string as a key (a valid JSON member name), and fields called like the generated code's own
        # bindings (`value`, `json`), not in last position
        self.types.append({"name": "TBoundary", "kind": "named",
                           "fields": [{"name": "value", "ty": "i64", "key": "value"}, {"name": "f1", "ty": "Option<String>", "key": ""},
                                      {"name": "json", "ty": "bool", "key": "json"}, {"name": "f3", "ty": "String", "key": "f3"}]})
        self.types.append({"name": "TBoundaryMap", "kind": "mapped",
                           "fields": [{"name": "value", "ty": "i64", "key": ""}, {"name": "f1", "ty": "String", "key": "value"}]})
        self.types.append({"name": "TDocEnum", "kind": "enum",
                           "variants": [{"name": "V0", "key": "in progress", "doc": "work has started"}, {"name": "V1", "key": "V1"},
                                        {"name": "V2", "key": "failed!", "doc": "it did not work"}]})

    def render_types(self):
        out = []
        for t in self.types:
            if t["kind"] == "named":
                out.append("#[derive(FromJson, IntoJson)]")
                out.append(f"pub struct {t['name']} {{")
                for f in t["fields"]:
                    if f.get("doc"):
                        out.append(f"    /// {f['doc']}")
                    if f["key"] != f["name"]:
                        out.append(f"    #[rename = {rust_str(f['key'])}]")
                    out.append(f"    pub {f['name']}: {f['ty']},")
                out.append("}")
            elif t["kind"] == "mapped":
                out.append(f"pub struct {t['name']} {{")
                for f in t["fields"]:
                    out.append(f"    pub {f['name']}: {f['ty']},")
                out.append("}")
                maps = ", ".join(f"{f['name']} => {rust_str(f['key'])}" for f in t["fields"])
                out.append(f"json_map! {{ {t['name']}, {maps} }}")
            elif t["kind"] == "tuple":
                out.append("#[derive(FromJson, IntoJson)]")
                out.append(f"pub struct {t['name']}(" + ", ".join("pub " + f["ty"] for f in t["fields"]) + ");")
            else:
                out.append("#[derive(FromJson, IntoJson)]")
                out.append(f"pub enum {t['name']} {{")
                for v in t["variants"]:
                    if v.get("doc"):
                        out.append(f"    /// {v['doc']}")
                    if v["key"] != v["name"]:
                        out.append(f"    #[rename = {rust_str(v['key'])}]")
                    out.append(f"    {v['name']},")
                out.append("}")
            out.append("")
        return out

    def gen_value(self, depth):
        r = self.r
        w = r.random()
        if depth >= self.max_depth or w < 0.35:
            c = r.random()
            if c < 0.3:
                return ("null",)
            return ("expr", r.choice(["1", "-2.5", "true", '"s"', "x", "x + 1", "(x * 2)", "name.clone()"]))
        if w < 0.7:
            return ("arr", [self.gen_value(depth + 1) for _ in range(r.randint(0, 4))], r.random() < 0.3)
        keys = []
        n = r.randint(0, 4)
        for j in range(n):
            k = r.choice(RENAMES) + str(j)
            keys.append((k, self.gen_value(depth + 1)))
        return ("obj", keys, r.random() < 0.3)

    def render_value(self, v):
        if v[0] == "null":
            return "null"
        if v[0] == "expr":
            return v[1]
        if v[0] == "arr":
            inner = ", ".join(self.render_value(x) for x in v[1])
            if v[2] and v[1]:
                inner += ","
            return "[" + inner + "]"
        inner = ", ".join(f"{rust_str(k)}: {self.render_value(x)}" for k, x in v[1])
        if v[2] and v[1]:
            inner += ","
        return "{" + inner + "}"

    def gen_lits(self):
        for i in range(self.n_lits):
            v = self.gen_value(0)
            if i == 0:
                v = ("arr", [("null",), ("expr", "1"), ("null",), ("arr", [("null",), ("expr", "x")], False)], False)   # nulls followed by more elements
            if i == 1:
                v = ("obj", [("a0", ("null",)), ("b1", ("arr", [], False)), ("c2", ("obj", [], False)), ("d3", ("expr", "x"))], True)
            self.lits.append(v)

    def render(self):
        self.gen_types()
        self.gen_lits()
        out = ["#![allow(dead_code, unused_variables, clippy::all)]", "use humphrey_json::prelude::*;", "use humphrey_json::{json, json_map, Value};", ""]
        out += self.render_types()
        for i, v in enumerate(self.lits):
            out.append(f"pub fn lit_{i}(x: i32, name: String) -> Value {{")
            out.append(f"    json!({self.render_value(v)})")
            out.append("}")
            out.append("")
        return "\n".join(out)


def expected_shape(v):
    if v[0] == "null":
        return ("null",)
    if v[0] == "expr":
        return ("expr",)
    if v[0] == "arr":
        return ("arr", [expected_shape(x) for x in v[1]])
    return ("obj", [(k, expected_shape(x)) for k, x in v[1]])


# ---- expansion readers -------------------------------------------------------------------------

def _find(node, pred):
    return [n for n in hir_walk(node) if pred(n)]


def value_tree(e):
    """Constructor tree of an expanded json! expression."""
    e = hir_strip(e)
    if not isinstance(e, dict):
        return ("?",)
    k = e.get("e")
    if k == "Path" and str(e.get("path", "")).endswith("Value::Null"):
        return ("null",)
    if k == "Call":
        f = hir_strip(e["f"])
        fp = f.get("path") or ""
        if fp.endswith("Value::Array"):
            return ("arr", [value_tree(x) for x in _vec_elems(e["args"][0])])
        if fp.endswith("Value::Object"):
            out = []
            for x in _vec_elems(e["args"][0]):
                x = hir_strip(x)
                if x.get("e") == "Tup" and len(x["xs"]) == 2:
                    kx = hir_strip(x["xs"][0])
                    key = None
                    if kx.get("e") == "MethodCall" and kx.get("name") == "to_string":
                        r = hir_strip(kx["recv"])
                        if r.get("e") == "Lit":
                            key = r.get("v")
                    out.append((key, value_tree(x["xs"][1])))
                else:
                    out.append((None, ("?",)))
            return ("obj", out)
        if fp.endswith("::from") or fp.endswith("From::from"):
            return ("expr",)
    if k == "Block" and e.get("tail") is not None:
        return value_tree(e["tail"])
    return ("?", k)


def _vec_elems(e):
    """Elements of a `vec![..]` expansion (or Vec::new())."""
    e = hir_strip(e)
    arrays = [n for n in hir_walk(e) if n.get("e") == "Array"]
    if arrays:
        # the outermost array literal
        return arrays[0]["xs"]
    return []


def _array_arity(body):
    """Number of elements of the vector handed to Value::Array in a to_json body: the literal `vec![..]` in place, or a local bound once to
    such a literal and used nowhere else (so nothing can have pushed to, popped from or truncated it).  -1 otherwise."""
    calls = [n for n in hir_walk(body) if n.get("e") == "Call" and str((hir_strip(n["f"]) or {}).get("path", "")).endswith("Value::Array")]
    if len(calls) != 1 or not calls[0].get("args"):
        return -1
    arg = hir_strip(calls[0]["args"][0])
    if isinstance(arg, dict) and arg.get("e") == "Path" and arg.get("res") == "Local":
        nm, lid = arg.get("name"), arg.get("id")
        uses = [n for n in hir_walk(body) if n.get("e") == "Path" and n.get("res") == "Local" and n.get("name") == nm and n.get("id") == lid]
        lets = [st for blk in hir_walk(body) if blk.get("e") == "Block" for st in blk.get("stmts", [])
                if st.get("s") == "Let" and st.get("init") is not None and [b for b in hir_walk(st["pat"]) if b.get("name") == nm]]
        if len(uses) != 1 or len(lets) != 1:
            return -1
        return len(_vec_elems(lets[0]["init"]))
    return len(_vec_elems(arg))


SUPPORT = {}     # {function path in humphrey_json: {"member": param index of the key | None, "arity": param index of the length | None}}


def support_helpers(prog):
    """Runtime support functions of humphrey_json that generated code may call instead of spelling the lookup out: a function whose body is
    `param_a.get(param_i)` (+ conversions) reads the member named by its argument i; one that compares a length with `param_j` checks the
    arity given as argument j.  Summarised from the helper's own HIR in the analysed tree, not from its name."""
    SUPPORT.clear()
    for path, h in prog.hir.items():
        if not path.startswith("humphrey_json::") or "{closure" in path:
            continue
        params = [p_.get("name") for p_ in h.get("params", []) if p_.get("p") == "Bind"]
        if len(params) != len(h.get("params", [])) or len(params) < 2:
            continue
        member = arity = None
        gets = _find(h["body"], lambda n: n.get("e") == "MethodCall" and n.get("name") == "get")
        if len(gets) == 1 and gets[0]["args"]:
            a = hir_strip(gets[0]["args"][0])
            r = hir_strip(gets[0]["recv"])
            if a.get("e") == "Path" and a.get("res") == "Local" and a.get("name") in params and r.get("e") == "Path" and r.get("name") in params:
                member = params.index(a["name"])
        for bn in _find(h["body"], lambda n: n.get("e") == "Binary" and n.get("op") in ("Ne", "Eq")):
            for side in (hir_strip(bn["l"]), hir_strip(bn["r"])) if "l" in bn else ():
                if side.get("e") == "Path" and side.get("res") == "Local" and side.get("name") in params and "usize" in str(h.get("sig", "usize")):
                    arity = params.index(side["name"])
        if member is not None or arity is not None:
            SUPPORT[path] = {"member": member, "arity": arity}
    return SUPPORT


def _support_call(n, what):
    """literal argument of a call of a support helper in the role `what` ('member' / 'arity'), else None"""
    if n.get("e") != "Call":
        return None
    f = hir_strip(n["f"])
    path = f.get("path") if f.get("e") == "Path" else None
    sup = SUPPORT.get(path) or SUPPORT.get((path or "").replace("::macros::", "::macros::"))
    if not sup or sup.get(what) is None or sup[what] >= len(n.get("args", [])):
        return None
    a = hir_strip(n["args"][sup[what]])
    return a.get("v") if a.get("e") == "Lit" else None


def _member_reads(x):
    """literal keys / indices read in expression x, in order: `.get(<lit>)` or a support helper called with the literal"""
    out = []
    for n in hir_walk(x):
        if n.get("e") == "MethodCall" and n.get("name") == "get" and n.get("args"):
            a = hir_strip(n["args"][0])
            if a.get("e") == "Lit":
                out.append(a.get("v"))
        else:
            v = _support_call(n, "member")
            if v is not None:
                out.append(v)
    return out


def keys_read(fn_hir):
    """from_json of a named struct: [(field, key)] in struct-literal order."""
    out = []
    for s in _find(fn_hir["body"], lambda n: n.get("e") == "Struct"):
        for f in s["fields"]:
            reads = _member_reads(f["x"])
            out.append((f["name"], reads[-1] if reads else None))
        break
    return out


def keys_written(fn_hir):
    """to_json of a named struct: [(field, key)] in emission order."""
    out = []
    t = value_tree(fn_hir["body"])
    tuples = _find(fn_hir["body"], lambda n: n.get("e") == "Tup" and len(n.get("xs", [])) == 2)
    for tp in tuples:
        kx = hir_strip(tp["xs"][0])
        if kx.get("e") == "MethodCall" and kx.get("name") == "to_string" and hir_strip(kx["recv"]).get("e") == "Lit":
            key = hir_strip(kx["recv"]).get("v")
            fields = [n.get("name") for n in hir_walk(tp["xs"][1]) if n.get("e") == "Field"]
            out.append((fields[-1] if fields else None, key))
    return out, t


def run(chk):
    thorough = chk.tier == "thorough"
    seed = chk.seed if thorough else 0
    gen = Gen(seed, 300 if thorough else 32, 400 if thorough else 40, 6 if thorough else 4)
    src = gen.render()
    d = os.path.join(extract.BUILD, "json_corpus")
    # one corpus crate directory: concurrent C14 runs (different trees, same /verif) take turns
    import fcntl
    os.makedirs(extract.BUILD, exist_ok=True)
    lock = open(os.path.join(extract.BUILD, "json_corpus.lock"), "w")
    fcntl.flock(lock, fcntl.LOCK_EX)
    chk._corpus_lock = lock
    if os.path.isdir(d):
        shutil.rmtree(d)
    os.makedirs(os.path.join(d, "src"))
    with open(os.path.join(d, "Cargo.toml"), "w") as fh:
        fh.write(f'[package]\nname = "hv_json_corpus"\nversion = "0.0.0"\nedition = "2021"\n\n[workspace]\n\n[dependencies]\n'
                 f'humphrey_json = {{ path = "{extract.REPO}/humphrey-json" }}\n')
    with open(os.path.join(d, "src", "lib.rs"), "w") as fh:
        fh.write(src)
    shutil.copy(os.path.join(extract.REPO, "Cargo.lock"), os.path.join(d, "Cargo.lock"))
    facts_dir, wall = extract.extract_crate(d, f"json-{extract.repo_digest()[0]}")
    with open(os.path.join(facts_dir, "hv_json_corpus.json")) as fh:
        facts = json.load(fh)
    fcntl.flock(lock, fcntl.LOCK_UN)
    lock.close()
    hir = facts["hir"]
    chk.extra["corpus"] = {"seed": seed, "types": len(gen.types), "literals": len(gen.lits), "compile_s": wall, "hir_bodies": len(hir)}

    def impl_hir(ty, trait, method):
        for p, h in hir.items():
            if p.endswith("::" + method) and f"::{trait}" in p and (f"hv_json_corpus::{ty} as" in p or f"for hv_json_corpus::{ty}>" in p):
                return p, h
        return None, None
    n_types = 0
    for t in gen.types:
        name = t["name"]
        pf, hf = impl_hir(name, "FromJson", "from_json")
        pt, ht = impl_hir(name, "IntoJson", "to_json")
        ok = hf is not None and ht is not None
        chk.ob("R2.corpus", f"corpus::{name}", f"{t['kind']}: both impls expanded", ok, "derive / json_map! produced no impl")
        if not ok:
            continue
        n_types += 1
        site = f"{t['kind']} {name}"
        if t["kind"] in ("named", "mapped"):
            want = [(f["name"], f["key"]) for f in t["fields"]]
            rd = keys_read(hf)
            wr, tree = keys_written(ht)
            if t.get("agree_only"):
                # raw identifiers: what the key of `r#type` should be is the derive's choice; that both directions make the same choice is not
                chk.ob("R2.key_maps_agree", f"corpus::{name}", f"{site}: from_json and to_json use the same keys, in the same order (raw-identifier fields)",
                       [k for _, k in rd] == [k for _, k in wr] and len(rd) == len(want), f"read {rd} / written {wr}")
                continue
            chk.ob("R2.from_json_keys", f"corpus::{name}", f"{site}: from_json reads each field from its declared key, in declaration order", rd == want,
                   f"reads {rd}, declared {want}")
            chk.ob("R2.to_json_keys", f"corpus::{name}", f"{site}: to_json writes each field under its declared key, in declaration order", wr == want,
                   f"writes {wr}, declared {want}")
            chk.ob("R2.key_maps_agree", f"corpus::{name}", f"{site}: from_json and to_json use the same key map", dict(rd) == dict(wr), f"read {rd} / written {wr}")
            keys = [k for _, k in wr]
            chk.ob("R2.key_maps_agree", f"corpus::{name}", f"{site}: keys are distinct", len(set(keys)) == len(keys), f"{keys}")
            chk.ob("R2.shape", f"corpus::{name}", f"{site}: serialises to an object", tree[0] == "obj" and len(tree[1]) == len(want), f"{tree[0]}")
        elif t["kind"] == "tuple":
            n = len(t["fields"])
            lits = [hir_value(x) for x in _find(hf["body"], lambda y: y.get("e") == "Binary" and y.get("op") in ("Ne", "Eq"))]
            ar = [v for v in lits if v[0] == "bin" and (v[3] == ("lit", n) or v[2] == ("lit", n))]
            ar = ar or [y for y in hir_walk(hf["body"]) if _support_call(y, "arity") == n]
            chk.ob("R2.tuple", f"corpus::{name}", f"{site}: arity test compares with the field count {n}", bool(ar), f"comparisons {lits}")
            idx = _member_reads(hf["body"])
            chk.ob("R2.tuple", f"corpus::{name}", f"{site}: from_json reads indices 0..{n} in order", idx == list(range(n)), f"reads {idx}")
            tree = value_tree(ht["body"])
            wr = [int(nm) for nm in [y.get("name") for y in hir_walk(ht["body"]) if y.get("e") == "Field"] if str(nm).isdigit()]
            chk.ob("R2.tuple", f"corpus::{name}", f"{site}: to_json writes an array of the fields 0..{n} in order", tree[0] == "arr" and wr == list(range(n)), f"{tree[0]} fields {wr}")
            # ... of exactly n elements, whatever the field values are: from_json insists on the arity, so an array that is shortened after it
            # was built (trailing nulls dropped, empty tails trimmed) does not read back
            n_el = _array_arity(ht["body"])
            chk.ob("R2.tuple", f"corpus::{name}", f"{site}: the array to_json returns is the {n}-element vector as built (not edited afterwards)", n_el == n,
                   f"Value::Array is given {'a vector that is not the literal vec![..] of the fields (built or changed elsewhere)' if n_el < 0 else f'{n_el} element(s)'}: "
                   "the length of the serialised array can differ from the arity from_json requires")
        else:
            want = {v["key"]: v["name"] for v in t["variants"]}
            rd = {}
            for m in _find(hf["body"], lambda y: y.get("e") == "Match"):
                for a in m["arms"]:
                    p = a["pat"]
                    # `Some("name") => ..` on the Option<&str> itself is the same row as `"name" => ..` under `Some(string) =>`
                    if p.get("p") == "TupleStruct" and str(p.get("path", "")).endswith("Some") and len(p.get("pats", [])) == 1 and \
                            p["pats"][0].get("p") == "Expr" and p["pats"][0]["expr"].get("e") == "Lit":
                        p = p["pats"][0]
                    if p.get("p") == "Expr" and p["expr"].get("e") == "Lit":
                        v = hir_value(a["body"])
                        inner = v[2][0] if v[0] == "call" and v[2] else None
                        rd[p["expr"]["v"]] = inner[1].rsplit("::", 1)[-1] if inner and inner[0] == "path" else None
            wr = {}
            for m in _find(ht["body"], lambda y: y.get("e") == "Match"):
                for a in m["arms"]:
                    p = a["pat"]
                    vn = None
                    for y in hir_walk(p):
                        if y.get("path") and "::" in str(y.get("path")):
                            vn = y["path"].rsplit("::", 1)[-1]
                    lit = [hir_strip(y) for y in hir_walk(a["body"]) if y.get("e") == "Lit"]
                    if vn and lit:
                        wr[lit[0].get("v")] = vn
            chk.ob("R2.enum", f"corpus::{name}", f"{site}: from_json maps each declared string to its variant", rd == want, f"reads {rd}, declared {want}")
            chk.ob("R2.enum", f"corpus::{name}", f"{site}: to_json writes each variant as its declared string", wr == want, f"writes {wr}, declared {want}")
    chk.floor("corpus types analysed", n_types, len(gen.types))
    n_l = 0
    for i, v in enumerate(gen.lits):
        h = hir.get(f"hv_json_corpus::lit_{i}")
        if not h:
            chk.ob("R2.literals", f"corpus::lit_{i}", "literal function present", False, "")
            continue
        n_l += 1
        got = value_tree(h["body"])
        want = expected_shape(v)
        chk.ob("R2.literals", f"corpus::lit_{i}", f"json!({gen.render_value(v)[:60]}) expands to a constructor tree of the same shape", got == want,
               f"expansion {got} differs from the literal's token tree {want}")
    chk.floor("corpus literals analysed", n_l, len(gen.lits))

"""C01 — one well-framed response per request on every connection, in order (structural clauses)."""
from .. import core, tables
from ..core import describe, desc_contains, is_variant, switch_info
from . import shared, c02

FROM_STREAM = r"^humphrey::http::request::Request::from_stream(_with_timeout)?$"
WRITE_ALL = r"(std::io::Write::write_all|tokio::io::AsyncWriteExt::write_all)$"
BODYLESS = {"NoContent", "NotModified", "Continue", "SwitchingProtocols"}
FRAMING = ["Connection", "Server", "Date", "ContentLength"]


def sig(prog, body, t):
    """Position-free label of a call: short callee + variant/literal arguments."""
    name = t.get("callee")
    if name:
        parts = name.split("::")
        short = "::".join(parts[-2:]) if len(parts) > 1 else name
    else:
        d = describe(prog, body, t.get("fn_operand"))
        short = "fnptr"
        for n in _walk(d):
            if n[0] in ("param", "local", "upvar") and isinstance(n[-1], str):
                short = f"(*{n[-1]})"
                break
    args = []
    for a in t["args"]:
        d = describe(prog, body, a)
        if d[0] == "variant":
            args.append(d[2])
        elif d[0] == "lit":
            args.append(repr(d[1]))
    return f"{short}({','.join(args)})"


def _walk(d):
    stack = [d]
    while stack:
        x = stack.pop()
        if isinstance(x, tuple):
            yield x
            stack.extend(reversed([y for y in x if isinstance(y, (tuple, list))]))
        elif isinstance(x, list):
            stack.extend(reversed(x))


def header_of(prog, body, op):
    d = describe(prog, body, op)
    if d[0] == "variant" and d[1].endswith("HeaderType"):
        return d[2]
    if d[0] == "lit" and isinstance(d[1], str):
        return d[1].replace("-", "").lower()
    return None


def find_loops(prog):
    """Role discovery: bodies with a cycle containing a Request::from_stream* call and a write_all."""
    out = []
    for p, b in prog.bodies.items():
        if "promoted" in p:
            continue
        P = [blk for blk, t in b.calls_to(FROM_STREAM)]
        W = [blk for blk, t in b.calls_to(WRITE_ALL)]
        if not P or not W:
            continue
        if any(p_ in b.reachable(b.succs(w)) for w in W for p_ in P):
            out.append(b)
    return out


PREDICATES = {"Some": (r"Option::<T>::is_some$", r"Option::<T>::is_none$"), "None": (r"Option::<T>::is_none$", r"Option::<T>::is_some$"),
              "Ok": (r"Result::<T, E>::is_ok$", r"Result::<T, E>::is_err$"), "Err": (r"Result::<T, E>::is_err$", r"Result::<T, E>::is_ok$")}


OTHER = {"Some": "None", "None": "Some", "Ok": "Err", "Err": "Ok"}
TRY_LABEL = {"Some": "Continue", "Ok": "Continue", "None": "Break", "Err": "Break"}


def _definitely(body, d, label):
    """Is the definition d (block, idx, kind, payload) certainly a value of variant `label`?"""
    if d[2] == "call":
        t = d[3]
        name = t.get("resolved") or t.get("callee") or ""
        if name.endswith("FromResidual<std::option::Option<std::convert::Infallible>>>::from_residual"):
            return label == "None"
        if core.re.search(r"FromResidual<std::result::Result<std::convert::Infallible, \w+>>>::from_residual$", name) and "result::Result<T, " in name:
            return label == "Err"
        return False
    if d[2] == "assign" and not d[3]["pl"]["p"]:
        rv = d[3]["rv"]
        return rv["k"] == "agg" and rv.get("agg") == "adt" and rv.get("variant") == label
    return False


def _captured_local(body, l, idx, depth=0):
    return core._captured_operand_local(body, l, idx, depth)


def _carriers(body, dest, label, call_block):
    """{local: merged} — locals that hold the call's result: copies of `dest`, and merge points whose other definitions are certainly
    the opposite variant (exact: `label` there implies the call returned it) or certainly `label` itself (merged: `label` there means
    the call or one of those other sources produced it)."""
    def others_ok(ds):
        merged = False
        for d in ds:
            if _definitely(body, d, OTHER[label]):
                continue
            if _definitely(body, d, label):
                merged = True
                continue
            return None
        return merged
    out = {dest: False}
    # the destination itself may be written on other paths (the return place of an inlined helper)
    extra = [d for d in body.defs().get(dest, []) if d[2] != "yield" and not (d[2] == "call" and d[0] == call_block)]
    if extra:
        m = others_ok(extra)
        if m is None:
            return {}
        out[dest] = m
    changed = True
    n = 0
    while changed and n < 8:
        changed = False
        n += 1
        for l, ds in body.defs().items():
            if l in out or l <= body.argc:
                continue
            whole = [d for d in ds if d[2] in ("assign", "call") and not (d[2] == "assign" and d[3]["pl"]["p"])]
            if not whole or len(whole) != len([d for d in ds if d[2] != "yield"]):
                continue
            from_call = []
            others = []
            srcs_ = []
            for d in whole:
                src = None
                if d[2] == "assign" and d[3]["rv"]["k"] == "use":
                    pl = core.op_place(d[3]["rv"]["o"])
                    if pl is not None and not pl["p"]:
                        src = pl["l"]
                    elif pl is not None and len(pl["p"]) == 1 and pl["p"][0][0] == "f":
                        # a value captured by an inlined closure / awaited async helper: (closure.i) is the i-th captured operand
                        src = _captured_local(body, pl["l"], pl["p"][0][1])
                if src in out:
                    from_call.append(d)
                    srcs_.append(src)
                else:
                    others.append(d)
            if not from_call:
                continue
            m = others_ok(others)
            if m is None:
                continue
            out[l] = m or any(out[x] for x in srcs_)
            changed = True
    return out


def some_edge_of(prog, body, call_block, label="Some", union=False):
    """(switch_block, target) edges taken when the result of the call in call_block is `label`: the arm of a match / if-let on the
    result (or on a copy of it, also across a merge with values that are certainly the other variant), the Continue / Break edge of
    `?` applied to it, or the matching edge of a test of `is_some()` / `is_none()` / `is_ok()` / `is_err()` applied to it.
    At a merge a None / Err edge only counts when the call dominates the test, unless `union` asks for every edge on which the call
    *or* one of the other, certainly-None / Err, sources produced the value."""
    dest = body.term(call_block)["dest"]["l"]
    carriers = _carriers(body, dest, label, call_block) if label in OTHER else {dest: False}
    edges = []
    for s in range(len(body.blocks)):
        t = body.term(s)
        if t and t["k"] == "switch":
            info = switch_info(prog, body, s)
            if info and info.get("src") is not None and info["src"]["l"] in carriers and not [e for e in info["src"]["p"] if e[0] == "f"]:
                merged = carriers[info["src"]["l"]]
                if merged and not union and not body.dominates(call_block, s):
                    continue
                if label in info["edges"]:
                    edges.append((s, info["edges"][label]))
    if label in TRY_LABEL:
        for tb, tt in body.calls_to(r"ops::Try>::branch$"):
            al = core.op_local(tt["args"][0]) if tt["args"] else None
            if al not in carriers or tt.get("dest") is None:
                continue
            if carriers[al] and not union and not body.dominates(call_block, tb):
                continue
            bd = tt["dest"]["l"]
            for s in range(len(body.blocks)):
                t = body.term(s)
                if t and t["k"] == "switch":
                    info = switch_info(prog, body, s)
                    if info and info.get("src") is not None and info["src"]["l"] == bd and not [e for e in info["src"]["p"] if e[0] == "f"]:
                        if TRY_LABEL[label] in info["edges"]:
                            edges.append((s, info["edges"][TRY_LABEL[label]]))
    pos, neg = PREDICATES.get(label, (None, None))
    if pos:
        for rx, want_true in ((pos, True), (neg, False)):
            for pb, pt in body.calls_to(rx):
                if not pt["args"] or pt.get("dest") is None:
                    continue
                al = core.op_local(pt["args"][0])
                # the receiver is a reference to (a copy of) the call's destination
                seen = 0
                while al is not None and al != dest and not (al in carriers and not carriers[al]) and seen < 6:
                    ds = body.defs().get(al, [])
                    if len(ds) != 1 or ds[0][2] != "assign" or ds[0][3]["pl"]["p"]:
                        break
                    rv = ds[0][3]["rv"]
                    if rv["k"] == "ref" and not [e for e in rv["pl"]["p"] if e[0] != "d"]:
                        al = rv["pl"]["l"]
                    elif rv["k"] == "use":
                        al = core.op_local(rv["o"]) if not (core.op_place(rv["o"]) or {}).get("p") else None
                    else:
                        break
                    seen += 1
                if al != dest and not (al in carriers and not carriers[al]):
                    continue
                sw = core.bool_test_of_call(body, pb)
                if sw is not None:
                    edges.append((sw[0], sw[1] if want_true else sw[2]))
    return edges


def _returns_directly(b, start, stop):
    """Every path from `start` reaches a return without passing a block of `stop` (the arm ends the connection at once)."""
    seen = b.reachable([start], removed_nodes=set(stop))
    rets = set(core.return_blocks(b))
    if not (seen & rets):
        return False
    # no path from start into a stop block
    full = b.reachable([start], removed_nodes=rets)
    return not (full & set(stop))


def analyse_loop(chk, prog, cfg, b, facts):
    fn = b.path
    chk.saw_fn(fn)
    P = [blk for blk, t in b.calls_to(FROM_STREAM)]
    W = [blk for blk, t in b.calls_to(WRITE_ALL)]
    S = [blk for blk, t in b.calls()
         if (t.get("callee") or "").endswith("Into::into") and t["arg_tys"] and t["arg_tys"][0].endswith("response::Response")
         and "Vec<u8>" in b.local_ty(t["dest"]["l"])]
    rets = core.return_blocks(b)
    chk.floor(f"parse sites [{cfg}]", len(P), 2 if cfg == "A" else 1)
    chk.floor(f"response write sites [{cfg}]", len(W), 1)
    chk.floor(f"serialisation sites [{cfg}]", len(S), 1)
    ws = [blk for blk, t in b.calls_to(r"::call_websocket_handler$")]

    def fact(rule, site, ok, detail="", where="", path=None):
        facts[(rule, site)] = ok
        chk.ob(rule, fn, site, ok, detail, where=where or b.file, cfg=cfg, path=path)

    # ---- R2: error mapping table (HIR)
    hfn = fn.replace("::{closure#0}", "")
    err_tables = [m for m in tables.fn_tables(prog, hfn) if "RequestError" in m.get("scrut_ty", "")]
    err_map = {}
    rest = []
    if err_tables:
        mp, rest, dup = tables.simple_map(err_tables[0], key_kinds=("path",))
        for k, v in mp.items():
            name = tables.variant_name(k)
            if v[0] == "call" and v[2] and v[2][0][0] == "path":
                err_map[name] = "respond:" + tables.variant_name(v[2][0][1])
            elif v[0] == "ret":
                err_map[name] = "return"
            else:
                err_map[name] = str(v[0])
    if len(err_map) < 4:
        # MIR form of the same table: the edge of a switch on a RequestError value per variant; under it either the error handler is
        # called with one status, or the function returns without serialising / writing anything
        err_map, rest = {}, []
        for sb in range(len(b.blocks)):
            tt = b.term(sb)
            if not tt or tt["k"] != "switch":
                continue
            info = switch_info(prog, b, sb)
            if not info or info.get("kind") != "enum" or not str(info.get("src_ty", "")).endswith("request::RequestError"):
                continue
            for lab, tgt in info["edges"].items():
                statuses = set()
                for cb_, ct in b.calls():
                    if ct.get("callee") is None and b.edge_dominates(sb, tgt, cb_):
                        for a in ct["args"]:
                            d_ = describe(prog, b, a)
                            if d_[0] == "variant" and d_[1].endswith("StatusCode"):
                                statuses.add(d_[2])
                if len(statuses) == 1:
                    err_map[lab] = "respond:" + next(iter(statuses))
                elif not statuses and _returns_directly(b, tgt, set(S) | set(W) | set(P)):
                    err_map[lab] = "return"
                else:
                    err_map[lab] = f"statuses {sorted(statuses)}, then the common path"
    chk.floor(f"RequestError table [{cfg}]", len(err_map), 1)
    if err_map:
        want = {"Request": "respond:BadRequest", "Timeout": "respond:RequestTimeout", "Disconnected": "return", "Stream": "return"}
        for k, w in want.items():
            fact("R2.error_map", f"RequestError::{k} -> {w}", err_map.get(k) == w,
                 f"RequestError::{k} is mapped to {err_map.get(k)!r}, the property requires {w!r}")
        fact("R2.error_map", "no catch-all arm", not rest, "a wildcard arm hides how new error kinds are answered")

    # error-arm creators and the Disconnected/Stream return edges
    err_creators = []
    creators = []
    for blk, t in b.calls():
        dty = b.local_ty(t["dest"]["l"])
        if "response::Response" not in dty:
            continue
        if any("response::Response" in a for a in t.get("arg_tys", [])):
            continue
        if core.call_matches(t, r"IntoFuture::into_future$|Future::poll$|Pin::<Ptr>::|::get_context$|::clone$"):
            continue
        if blk not in b.reachable([s for p_ in P for s in b.succs(p_)]):
            continue
        label = sig(prog, b, t) + (" [OPTIONS arm]" if _under_options(prog, b, blk) else "")
        vs = [describe(prog, b, a) for a in t["args"]]
        if t.get("callee") is None and any(v[0] == "variant" and v[2] in ("BadRequest", "RequestTimeout") for v in vs):
            err_creators.append((blk, label))
        else:
            creators.append((blk, label, t))
    chk.floor(f"response creators on well-formed requests [{cfg}]", len(creators), 4)
    chk.floor(f"error-arm creators [{cfg}]", len(err_creators), 2)
    err_blocks = [x[0] for x in err_creators]

    # ---- R1: exactly one write per parsed request
    # exits that are allowed without a write: the match arms returning on Disconnected/Stream, the WebSocket branch
    quiet_edges = set()
    for s in range(len(b.blocks)):
        t = b.term(s)
        if t and t["k"] == "switch":
            info = switch_info(prog, b, s)
            if info and info["kind"] == "enum" and "RequestError" in (info.get("src_ty") or ""):
                for lab in ("Disconnected", "Stream"):
                    if lab in info["edges"]:
                        quiet_edges.add((s, info["edges"][lab]))
    w = core.must_pass(b, P, P + rets, through_nodes=set(W) | set(ws), through_edges=quiet_edges)
    fact("R1.one_write", "parse -> next parse / exit passes write_all (except Disconnected/Stream/WebSocket)", w is None,
         "a parsed request can be left unanswered", path=w)
    w = core.must_pass(b, W, W, through_nodes=set(P))
    fact("R1.one_write", "write_all -> write_all passes a parse", w is None, "two responses can be written for one request", path=w)
    for wb in W:
        t = b.term(wb)
        d = describe(prog, b, t["args"][1])
        ok = desc_contains(d, lambda x: x[0] == "call" and len(x) > 3 and x[3] in S)
        fact("R1.bytes", "written bytes <- Vec<u8>::from(Response)", ok, f"write_all is given {core.short(str(d))[:120]}", where=b.where(wb))

    # ---- R3 / R7: framing headers on every well-formed-request path
    resp_fields = [x["name"] for x in prog.structs["humphrey::http::response::Response"]["fields"]]
    through = {h: {"nodes": set(), "edges": set()} for h in FRAMING}
    cl_from_len = True
    for blk, t in b.calls_to(r"^humphrey::http::headers::Headers::add$|^humphrey::http::response::Response::with_header$"):
        h = header_of(prog, b, t["args"][1])
        hh = next((x for x in FRAMING if h and x.lower() == h.lower()), None)
        if hh:
            if hh == "ContentLength":
                v = describe(prog, b, t["args"][2])
                ok = desc_contains(v, lambda x: x[0] == "call" and x[1].endswith("::len") and x[2] and desc_contains(x[2][0], lambda y: y[0] == "field" and y[2] == resp_fields.index("body")))
                fact("R3.content_length_value", f"Content-Length <- response.body.len() @{sig(prog, b, t)}", ok,
                     "the generated Content-Length is not the length of the response body", where=b.where(blk))
                if not ok:
                    continue
            through[hh]["nodes"].add(blk)
    for blk, t in b.calls_to(r"^humphrey::http::headers::Headers::(get|get_mut)$"):
        h = header_of(prog, b, t["args"][1])
        hh = next((x for x in FRAMING if h and x.lower() == h.lower()), None)
        if hh:
            d0 = describe(prog, b, t["args"][0])
            # only lookups on the *response's* headers count
            if desc_contains(d0, lambda x: x[0] == "field" and x[2] == 4 and False):
                continue
            recv_ty = b.local_ty(core.op_local(t["args"][0])) if core.op_local(t["args"][0]) is not None else ""
            if _is_request_headers(prog, b, t["args"][0]):
                continue
            for e in some_edge_of(prog, b, blk, "Some"):
                through[hh]["edges"].add(e)
    for (cb, label, t) in creators:
        for h in FRAMING:
            vs = [describe(prog, b, a) for a in t["args"]]
            if h == "ContentLength" and (t.get("callee") or "").endswith("Response::empty") and any(v[0] == "variant" and v[2] in BODYLESS for v in vs):
                fact("R7.self_delimiting", f"{label}: status forbids a body", True)
                continue
            w = core.must_pass(b, [cb], S, through_nodes=through[h]["nodes"], through_edges=through[h]["edges"])
            rule = "R7.self_delimiting" if h == "ContentLength" else "R3.framing"
            fact(rule, f"{label} -> serialise passes {h}", w is None,
                 f"a response created by {label} can be serialised without a {h} header"
                 + (" while the connection may be kept open (not self-delimiting)" if h == "ContentLength" else ""),
                 where=b.where(cb), path=w)

    # ---- R4: version echo
    vi = resp_fields.index("version")
    req_fields = [x["name"] for x in prog.structs["humphrey::http::request::Request"]["fields"]]
    rvi = req_fields.index("version")
    vnodes = set()
    for blk_i, blk in enumerate(b.blocks):
        for s in blk["stmts"]:
            if "pl" not in s:
                continue
            pl = s["pl"]
            fs = [e for e in pl["p"] if e[0] == "f"]
            if fs and fs[-1][1] == vi and b.local_ty(pl["l"]).lstrip("&mut ").endswith("response::Response"):
                d = describe(prog, b, s["rv"]["o"]) if s["rv"]["k"] == "use" else None
                if d and desc_contains(d, lambda x: x[0] == "field" and x[2] == rvi):
                    vnodes.add(blk_i)
    for (cb, label, t) in creators:
        w = core.must_pass(b, [cb], S, through_nodes=vnodes)
        fact("R4.version_echo", f"{label} -> serialise passes response.version = request.version", w is None,
             f"a response created by {label} is sent with the default version, not the request's", where=b.where(cb), path=w)

    # ---- R5: CORS
    gh = [blk for blk, t in b.calls_to(r"::get_handler$")]
    chk.floor(f"get_handler call sites [{cfg}]", len(gh), 2)
    cors_nodes = set(blk for blk, t in b.calls_to(r"^humphrey::http::cors::Cors::set_headers$"))
    for g in gh:
        for (sb, tgt) in some_edge_of(prog, b, g, "Some"):
            w = core.must_pass(b, [tgt], S, through_nodes=cors_nodes, after_from=False)
            fact("R5.cors", f"matched route -> serialise passes Cors::set_headers [{'OPTIONS' if _under_options(prog, b, g) else 'normal'}]", w is None,
                 "a matched route's CORS headers can be missing from the response", where=b.where(g), path=w)
    for blk in cors_nodes:
        t = b.term(blk)
        d0 = describe(prog, b, t["args"][0])
        d1 = describe(prog, b, t["args"][1])
        ok0 = desc_contains(d0, lambda x: x[0] == "call" and x[1].endswith("::get_handler"))
        ok1 = desc_contains(d1, lambda x: x[0] == "field" and x[2] == resp_fields.index("headers"))
        fact("R5.cors_args", f"set_headers(handler.cors, response.headers) @{'OPTIONS' if _under_options(prog, b, blk) else 'normal'}", ok0 and ok1,
             "CORS headers are taken from / written to the wrong object", where=b.where(blk))

    # ---- R6: keep-alive iff
    flags = [l for l, loc in enumerate(b.locals) if loc.get("name") == "keep_alive" and loc["ty"] == "bool"]
    if not flags:
        # role: the bool local tested on every write->parse path
        flags = _infer_flag(prog, b, W, P)
    chk.floor(f"keep-alive flag [{cfg}]", len(flags), 1)
    if flags:
        fl = flags[0]
        true_edges, false_targets = set(), []
        after_w = [s for w_ in W for s in b.succs(w_)]
        tail = b.reachable(after_w, removed_nodes=set(P))   # the part of an iteration after the write
        for s in sorted(tail):
            t = b.term(s)
            if t and t["k"] == "switch" and t.get("discr_ty") == "bool":
                pol = _flag_polarity(b, core.op_local(t["discr"]), fl)
                if pol is None:
                    continue
                info = switch_info(prog, b, s)
                tt, ff = info["edges"]["true"], info["edges"]["false"]
                if not pol:
                    tt, ff = ff, tt
                true_edges.add((s, tt))
                false_targets.append(ff)
        seen = b.reachable(after_w, removed_edges=true_edges)
        fact("R6.keep_alive", "loop continues after a response only if keep_alive", not any(p_ in seen for p_ in P),
             "the connection loop can read another request although the client did not ask for keep-alive")
        chk.floor(f"keep-alive test after the write [{cfg}]", len(true_edges), 1)
        ok = all(not any(p_ in b.reachable([ft]) for p_ in P) for ft in false_targets)
        fact("R6.keep_alive", "!keep_alive leaves the loop", ok, "the loop continues although keep_alive is false")
        defs = [d for d in b.defs().get(fl, []) if not (d[2] == "assign" and d[3]["pl"]["p"])]
        tests = sorted(set(s_ for s_, _ in true_edges))
        wfresh = core.must_pass(b, P, tests, through_nodes=[d[0] for d in defs])
        fact("R6.flag_fresh", "keep_alive is recomputed for every request (each path parse -> test assigns it)", wfresh is None and bool(defs),
             "a request can reach the keep-alive test without the flag having been assigned for it: the disposition of an earlier request on the connection is inherited",
             path=wfresh)
        for d in defs:
            if d[2] == "assign" and d[3]["rv"]["k"] == "use" and d[3]["rv"]["o"].get("k") == "const":
                fact("R6.flag_def", "keep_alive = false", d[3]["rv"]["o"].get("v") is False, "keep_alive is set to a constant true")
            else:
                dd = core._describe_def(prog, b, d, 0, set())
                has_lit = desc_contains(dd, lambda x: x == ("lit", "keep-alive"))
                ci = desc_contains(dd, lambda x: x[0] == "call" and ("to_ascii_lowercase" in x[1] or "eq_ignore_ascii_case" in x[1] or "to_lowercase" in x[1]))
                from_conn = desc_contains(dd, lambda x: x[0] == "call" and x[1].endswith("Headers::get") and any(is_variant(a, "HeaderType", "Connection") for a in x[2]))
                fact("R6.flag_def", "keep_alive = case-insensitive (request Connection header == 'keep-alive')", has_lit and ci and from_conn,
                     f"keep_alive is computed as {str(dd)[:200]}")

    # ---- R9: no read-ahead thrown away
    callees = set()
    for p_ in P:
        for n in core.callee_names(b.term(p_)):
            if n in prog.bodies:
                callees.add(n)
    reach = prog.reach_bodies(callees)
    for p in sorted(reach):
        pb = prog.bodies[p]
        for blk, t in pb.calls_to(r"BufReader::<R>::(new|with_capacity)$"):
            g = (t.get("gargs") or [""])[0]
            borrowed = g.startswith("&mut")
            ret_ty = pb.local_ty(0)
            escapes = "BufReader" in ret_ty
            fact("R9.read_ahead", f"{p.replace('::{closure#0}', '')}: BufReader over a borrowed stream dropped at return", not (borrowed and not escapes),
                 "a fresh BufReader is wrapped around the borrowed connection stream for each request and dropped when the parser returns: "
                 "bytes of a pipelined next request that were read ahead into its buffer are discarded", where=pb.where(blk))
    return {"P": P, "W": W, "S": S}


def _is_request_headers(prog, b, op):
    """the Headers value is a field of the parsed request (not of a response that was merely computed from the request)"""
    d = describe(prog, b, op)
    if desc_contains(d, lambda x: x[0] == "multi" and x[2] == "response"):
        return False
    # walk from the Headers value down to what it is a field of, through reference / unwrapping wrappers only
    x = d
    for _ in range(12):
        if not isinstance(x, tuple) or not x:
            return False
        if x[0] == "field":
            x = x[1]
            continue
        if x[0] == "call":
            if "Request::from_stream" in x[1]:
                return True
            if core.re.search(r"(::|>::)(as_ref|as_mut|deref|deref_mut|borrow|borrow_mut|unwrap|expect|branch|clone|as_deref)$", x[1]) and x[2]:
                x = x[2][0]
                continue
            return False
        if x[0] in ("ref", "deref", "cast") and len(x) > 1:
            x = x[1]
            continue
        return False
    return False


def _under_options(prog, b, blk):
    for s, lab, d, info in core.guards_dominating(prog, b, blk):
        if lab == "true" and desc_contains(d, lambda x: x[0] == "variant" and x[2] == "Options"):
            return True
    return False


def _flag_polarity(b, l, flag, depth=0):
    """True if local l is a copy of flag, False if its negation, None otherwise."""
    if l is None or depth > 6:
        return None
    if l == flag:
        return True
    ds = b.defs().get(l, [])
    if len(ds) != 1 or ds[0][2] != "assign":
        return None
    rv = ds[0][3]["rv"]
    if rv["k"] == "use":
        return _flag_polarity(b, core.op_local(rv["o"]), flag, depth + 1)
    if rv["k"] == "un" and rv["op"] == "Not":
        p = _flag_polarity(b, core.op_local(rv["o"]), flag, depth + 1)
        return None if p is None else (not p)
    return None


def _infer_flag(prog, b, W, P):
    cands = []
    for l, loc in enumerate(b.locals):
        if loc["ty"] == "bool" and loc.get("user"):
            edges = set()
            for s in range(len(b.blocks)):
                t = b.term(s)
                if t and t["k"] == "switch" and _flag_polarity(b, core.op_local(t["discr"]), l) is not None:
                    edges.add(s)
            if edges:
                seen = b.reachable([s for w in W for s in b.succs(w)], removed_nodes=edges)
                if not any(p in seen for p in P):
                    cands.append(l)
    return cands


def _one_byte(prog, b, blk):
    """Is the buffer of the read_exact at blk a [u8; 1] local?"""
    a = b.term(blk)["args"][1]
    l = core.op_local(a)
    seen = set()
    while l is not None and l not in seen:
        seen.add(l)
        if "[u8; 1]" in (b.local_ty(l) or ""):
            return True
        ds = b.defs().get(l, [])
        if len(ds) != 1 or ds[0][2] != "assign":
            return False
        rv = ds[0][3]["rv"]
        if rv["k"] in ("ref", "rawptr"):
            l = rv["pl"]["l"]
        elif rv["k"] in ("use", "cast"):
            l = core.op_local(rv["o"])
        else:
            return False
    return False


def cors_fields(chk, prog, cfg):
    """R5.cors_fields: Cors::set_headers looks at each of the three parts of the configuration (origins, methods, headers) on every path: what
    is written for one part does not depend on another part being set (a route configured with allowed methods only still gets them)."""
    b = prog.bodies.get("humphrey::http::cors::Cors::set_headers")
    chk.floor(f"Cors::set_headers [{cfg}]", 1 if b else 0, 1)
    if not b:
        return
    st = prog.structs.get("humphrey::http::cors::Cors", {}).get("fields", [])
    rets = core.return_blocks(b)
    for i, f in enumerate(st):
        sites = set()
        for bi, blk in enumerate(b.blocks):
            def reads(x):
                if isinstance(x, dict):
                    pl = x.get("pl") if x.get("k") in ("copy", "move", "ref", "discr") else None
                    if isinstance(pl, dict) and pl.get("l") == 1 and [e[1] for e in pl.get("p", []) if e[0] == "f"][:1] == [i]:
                        return True
                    return any(reads(v) for v in x.values())
                if isinstance(x, list):
                    return any(reads(v) for v in x)
                return False
            if any(reads(s_.get("rv")) for s_ in blk["stmts"] if "rv" in s_) or (blk["term"] and reads({k_: v for k_, v in blk["term"].items() if k_ in ("args", "discr")})):
                sites.add(bi)
        # (a header the handler has already set is left alone: the Some edge of headers.get(<that header>) is the one way round the field)
        want = {"allowed_origins": "AccessControlAllowOrigin", "allowed_methods": "AccessControlAllowMethods", "allowed_headers": "AccessControlAllowHeaders"}.get(f["name"])
        skip = set()
        for gb, gt in b.calls_to(r"Headers::get$"):
            if any(core.is_variant(describe(prog, b, a), "HeaderType", want) for a in gt["args"]):
                skip |= set(some_edge_of(prog, b, gb, "Some"))
        w = core.must_pass(b, [0], rets, through_nodes=sorted(sites), through_edges=skip, after_from=False) if sites else [0]
        chk.ob("R5.cors_fields", b.path, f"Cors.{f['name']} is consulted on every path through set_headers (unless the response already carries its header)", w is None,
               f"for some configuration of the other parts `{f['name']}` is never looked at: its Access-Control-* header is silently missing from the response", path=w, cfg=cfg)


def errorkind_outcomes(prog, fn):
    """[(body path, {ErrorKind variant: set of RequestError variants that can be built once that variant was seen})] for every switch on an
    io::ErrorKind in fn, its closures, the helpers inlined into it and the functions it hands over by name.  The walk from each edge is on
    the product with the boolean store, so `matches!(kind, A | B)` followed by `if` is read like the `match` it abbreviates."""
    from . import shared
    from .. import absreach
    out = []
    for b in shared.family(prog, fn):
        for s_ in range(len(b.blocks)):
            info = switch_info(prog, b, s_)
            if not info or info.get("kind") != "enum" or "io::ErrorKind" not in (info.get("src_ty") or "").replace("error::", ""):
                continue
            tab = {}
            for lab, tgt in info["edges"].items():
                seen = absreach.feasible_from(b, [tgt], prog)
                vs = set()
                for x in seen:
                    for st in b.blocks[x]["stmts"]:
                        rv = st.get("rv")
                        if rv and rv.get("k") == "agg" and rv.get("adt", "").endswith("RequestError"):
                            vs.add(rv.get("variant"))
                tab[lab] = vs
            out.append((b.path, tab))
    return out


def timeout_table(chk, prog):
    fn = "humphrey::http::request::Request::from_stream_with_timeout"
    ms = [m for m in tables.fn_tables(prog, fn) if "ErrorKind" in m.get("scrut_ty", "")]
    if not ms:
        # the mapper is a named function handed to map_err / a `matches!` / an or-pattern arm: read the same table off the MIR
        got = errorkind_outcomes(prog, fn)
        chk.floor("ErrorKind table in from_stream_with_timeout", len(got), 1)
        for where_, tab in got:
            for k in ("TimedOut", "WouldBlock"):
                chk.ob("R2.timeout_kinds", fn, f"ErrorKind::{k} -> RequestError::Timeout", tab.get(k) == {"Timeout"},
                       f"ErrorKind::{k} is mapped to {sorted(tab.get(k) or [])}: an idle connection would be treated as a disconnect (no 408)", cfg="A")
            others = {k: v for k, v in tab.items() if k not in ("TimedOut", "WouldBlock")}
            bad = sorted(k for k, v in others.items() if v != {"Disconnected"})
            chk.ob("R2.timeout_kinds", fn, "other kinds -> Disconnected", len(others) >= 10 and not bad, f"kinds not mapped to Disconnected: {bad[:5]}", cfg="A")
    if ms:
        mp, rest, dup = tables.simple_map(ms[0], key_kinds=("path",))
        got = {tables.variant_name(k): (tables.variant_name(v[1]) if v[0] == "path" else None) for k, v in mp.items()}
        for k in ("TimedOut", "WouldBlock"):
            chk.ob("R2.timeout_kinds", fn, f"ErrorKind::{k} -> RequestError::Timeout", got.get(k) == "Timeout",
                   f"ErrorKind::{k} is mapped to {got.get(k)}: an idle connection would be treated as a disconnect (no 408)", cfg="A")
        other = [v for keys, g, v, line in rest if keys == [("rest",)]]
        chk.ob("R2.timeout_kinds", fn, "other kinds -> Disconnected", bool(other) and other[0][0] == "path" and other[0][1].endswith("Disconnected"),
               f"other error kinds map to {other}", cfg="A")
    # the timeout is installed before the first read and cleared afterwards
    b = prog.bodies[fn]
    sets = [(blk, describe(prog, b, t["args"][1])) for blk, t in b.calls_to(r"Stream::set_timeout$")]
    reads = [blk for blk, t in b.calls_to(r"Read::read_exact$")]
    chk.floor("first-byte read in from_stream_with_timeout", len(reads), 1)
    armed = [blk for blk, d in sets if d[0] == "variant" and d[2] == "Some"]
    ok = bool(armed) and all(core.must_pass(b, [0], [r], through_nodes=armed, after_from=False) is None for r in reads)
    chk.ob("R2.timeout_armed", fn, "set_timeout(Some(timeout)) precedes the first read", ok, "the wait for a request is not bounded by the timeout", cfg="A")
    # ... and covers only the wait for the first byte: everything that reads the rest of the request runs after set_timeout(None)
    cleared = [blk for blk, d in sets if d[0] == "variant" and d[2] == "None"]
    rest_reads = [blk for blk, t in b.calls_to(r"Request::from_stream(_inner)?$")]
    chk.floor("readers of the rest of the request in from_stream_with_timeout", len(rest_reads), 1)
    for r in rest_reads:
        w = core.must_pass(b, armed, [r], through_nodes=cleared)
        chk.ob("R2.timeout_first_byte_only", fn, f"set_timeout(None) precedes {b.term(r)['callee'].split('::')[-1]} (the timeout bounds the idle wait, not the request's own segments)",
               w is None and bool(cleared),
               "the rest of the request is read with the idle timeout still armed: a request delivered in slow segments is cut off and answered as malformed / dropped",
               where=b.where(r), path=w, cfg="A")
    n_other = [blk for blk, t in b.calls() if core.call_matches(t, r"Read::read(_exact|_to_end|_to_string)?$|BufRead::read_(line|until)$") and blk not in reads]
    chk.ob("R2.timeout_first_byte_only", fn, "the only direct read under the timeout is the single first-byte read_exact", len(reads) == 1 and not n_other,
           f"{len(reads)} read_exact + {len(n_other)} other direct reads", cfg="A")
    for r in reads:
        d = describe(prog, b, b.term(r)["args"][1])
        ty = " ".join(b.term(r).get("arg_tys", []))
        chk.ob("R2.timeout_first_byte_only", fn, "the read under the timeout is one byte wide", "[u8; 1]" in ty or "[u8; 1]" in str(d) or _one_byte(prog, b, r),
               f"buffer {ty}", where=b.where(r), cfg="A")


def run(chk):
    chk.explanation = (
        "Static decision of structural clauses of C01 on both connection loops (threaded [A], tokio [B]): exactly one write per parsed "
        "request, error mapping 400/408/close, framing headers + version echo + CORS on every well-formed-request path, keep-alive iff the "
        "case-insensitive Connection test, self-delimiting when kept open, nothing after the body, no read-ahead discarded, "
        "segmentation-proof reads; plus equality of the two runtimes' fact sets. All paths of both loops, no execution.")
    chk.not_decided = ("response content; timing of the 408; isolation of a panicking handler in the tokio runtime (task isolation is tokio's); "
                       "behaviour of a user-supplied Content-Length")
    chk.assumptions = ["rustc type checking / MIR construction / callee resolution", "the .await desugaring is the standard poll loop",
                       "user handlers and the error handler are opaque function values"]
    facts = {}
    for cfg in ("A", "B"):
        prog = chk.use(core.load(cfg, fresh=(chk.tier == "thorough")))
        loops = find_loops(prog)
        chk.floor(f"connection loops [{cfg}]", len(loops), 1)
        facts[cfg] = {}
        for b in loops:
            analyse_loop(chk, prog, cfg, b, facts[cfg])
        shared.nothing_after_body(chk, prog, "R8.nothing_after_body", cfg=cfg)
        shared.start_line_exact(chk, prog, "R2.start_line", cfg=cfg)
        c02.reads(chk, prog, cfg)
        cors_fields(chk, prog, cfg)
        shared.eof_is_error(chk, prog, "R2.eof_is_error", r"^humphrey::http::request::Request::from_stream_inner(::\{closure#0\})?$", "request head", cfg=cfg)
        if cfg == "A":
            timeout_table(chk, prog)
            # "a panicking handler costs only its own connection" (threaded runtime): the pool's isolation rules of C08
            from . import c08
            c08.isolation_rules(chk, prog)
    # R-SIBLING
    a, b = facts.get("A", {}), facts.get("B", {})
    norm = lambda k: (k[0], k[1].replace("humphrey::tokio::", "humphrey::"))
    an = {norm(k): v for k, v in a.items()}
    bn = {norm(k): v for k, v in b.items()}
    an = {k: v for k, v in an.items() if not k[1].startswith("Request::from_stream_with_timeout")}
    for k in sorted(set(an) | set(bn)):
        if k[0] in ("R2.error_map",) or True:
            va, vb = an.get(k), bn.get(k)
            if "from_stream_with_timeout" in k[1] or "(*timeout)" in k[1]:
                continue
            chk.ob("R.sibling", "client_handler[A] vs client_handler[B]", f"{k[0]}: {k[1]}", va == vb,
                   f"the threaded and tokio connection loops disagree on this fact (threaded: {va}, tokio: {vb})")

"""Rule instances shared by several properties."""
from .. import core
from ..core import describe

UNSTABLE = r"sort_unstable|select_nth_unstable|BinaryHeap|collections::HashMap|collections::HashSet|hash::map::|hash::set::"


def header_order(chk, prog, rid, cfg=None):
    """No order-destroying operation reachable from header iteration / message serialisation.

    The sort key of `Headers::iter` is (category, name), equal for repeated names, so only a stable
    sort (or none) preserves the relative order of same-named fields."""
    chk.rule(rid, "R-CALLS: no unstable sort / hashed container reachable from Headers::iter and the "
                  "Request/Response serialisers (same-named header fields keep their relative order)")
    roots = []
    roots += [p for p in prog.bodies if p == "humphrey::http::headers::Headers::iter"]
    roots += prog.impl_fn(r"^<std::vec::Vec<u8> as std::convert::From<humphrey::http::response::Response>>$", "from")
    roots += prog.impl_fn(r"^<std::vec::Vec<u8> as std::convert::From<humphrey::http::request::Request>>$", "from")
    chk.floor("header serialisation roots", len(roots), 3)
    reach = prog.reach_bodies(roots)
    n = 0
    for p in sorted(reach):
        b = prog.bodies[p]
        for blk, t in b.calls():
            n += 1
            bad = core.call_matches(t, UNSTABLE)
            if bad:
                chk.ob(rid, p, f"order-destroying callee {t['callee']}", False,
                       f"{t['callee']} is reachable from header serialisation: equal keys (repeated header names, "
                       f"several Set-Cookie) may be reordered", where=b.where(blk), cfg=cfg)
    chk.call_sites += n
    chk.ob(rid, "header-serialisation", f"scanned {len(reach)} bodies", True, cfg=cfg)
    # the sort of Headers::iter orders by name only: a comparator that also looks at the value reorders same-named fields
    st = prog.structs.get("humphrey::http::headers::Header", {}).get("fields", [])
    vi = next((i for i, x in enumerate(st) if x["name"] == "value"), None)
    it = prog.bodies.get("humphrey::http::headers::Headers::iter")
    if it is not None and vi is not None:
        sorts = [blk for blk, t in it.calls() if core.call_matches(t, r"::(sort_by|sort_by_key|sort_by_cached_key|sort|binary_search_by|binary_search_by_key)$")]
        def walk(x, out):
            if isinstance(x, list):
                if len(x) == 3 and x[0] == "f" and x[1] == vi and x[2] == st[vi]["ty"]:
                    out.append(x)
                for y in x:
                    walk(y, out)
            elif isinstance(x, dict):
                for y in x.values():
                    walk(y, out)
        def closures_rec(path, acc):
            for c in prog.closures_of(path):
                if c.path not in acc:
                    acc[c.path] = c
                    closures_rec(c.path, acc)
            return acc
        cls = closures_rec(it.path, {})
        for cp, c in sorted(cls.items()):
            hits = []
            walk(c.blocks, hits)
            chk.ob(rid, cp, "the ordering closure of Headers::iter does not look at Header.value", not hits,
                   "the header value takes part in the sort order: fields with the same name are emitted in value order instead of arrival order "
                   "(get / get_all / the first Cookie or X-Forwarded-For field change after a relay)", cfg=cfg)
        if sorts:
            plain = [blk for blk in sorts if core.call_matches(it.term(blk), r"::sort$")]
            chk.ob(rid, it.path, "Headers::iter sorts with an explicit name-only key (no derived whole-Header ordering)", not plain,
                   "`sort()` uses Header's own ordering, which includes the value", cfg=cfg)
    # every other method that edits the list (remove, ..) keeps the relative order of what stays: no swap_remove / swap / reverse /
    # rotate / sort on the storage (the response parser calls `remove(TransferEncoding)` on every de-chunked response)
    nmut = 0
    for p2, b2 in sorted(prog.bodies.items()):
        if not core.re.search(r"^humphrey::http::headers::Headers::\w+(::\{closure#\d+\})*$", p2) or p2.endswith("::iter"):
            continue
        for blk, t in b2.calls():
            ty0 = (t.get("arg_tys") or [""])[0]
            if not (ty0.startswith("&mut std::vec::Vec<") and "Header" in ty0) and not ("Header" in ty0 and ty0.startswith("&mut [")):
                continue
            nmut += 1
            bad = core.call_matches(t, r"::(swap_remove|swap|reverse|rotate_left|rotate_right|sort|sort_by|sort_by_key|sort_unstable\w*|select_nth_unstable\w*|dedup\w*|drain|split_off|truncate)$")
            chk.ob(rid, p2, f"{core.short(t['callee'])} on the header list keeps the remaining fields in arrival order", not bad,
                   f"{t['callee']} moves or drops other fields: after it the remaining header lines are no longer in the order they were received", where=b2.where(blk), cfg=cfg)
    chk.floor("edits of the header list in Headers methods", nmut, 2)
    # storage order: Headers::add / push only push
    for fn in ("humphrey::http::headers::Headers::add", "humphrey::http::headers::Headers::push"):
        b = prog.bodies.get(fn)
        if not b:
            chk.floor(fn, 0, 1)
            continue
        muts = [t["callee"] for _, t in b.calls() if core.call_matches(t, r"^std::vec::Vec::<T, A>::(push|insert|sort|dedup|retain|swap|reverse|truncate)|^humphrey::http::headers::Headers::push$")]
        # (add may go through Headers::push, which is checked in its own right)
        chk.ob(rid, fn, "storage appended in arrival order", muts in (["std::vec::Vec::<T, A>::push"], ["humphrey::http::headers::Headers::push"]) and
               not (fn.endswith("::push") and muts != ["std::vec::Vec::<T, A>::push"]),
               f"Headers storage is mutated by {muts} (expected a single push)", cfg=cfg)


def _peel_bytes(d):
    """Strip the value-preserving views between a literal and the bytes appended (`as_bytes`, `as_ref`, `deref`, `borrow`, `as_slice`)."""
    while isinstance(d, tuple) and d and d[0] == "call" and core.re.search(r"::(as_bytes|as_ref|deref|borrow|as_slice|as_str|into|from)$", d[1]) and len(d[2]) == 1:
        d = d[2][0]
    return d


def nothing_after_body(chk, prog, rid, cfg=None):
    """In From<Response> for Vec<u8>, no byte is appended to the output after the body."""
    chk.rule(rid, "R-MUSTPASS/R-FLOW: no append to the serialised message after the body bytes")
    fs = prog.impl_fn(r"^<std::vec::Vec<u8> as std::convert::From<humphrey::http::response::Response>>$", "from")
    chk.floor("From<Response> for Vec<u8>", len(fs), 1)
    if not fs:
        return
    f = fs[0]
    body = prog.bodies[f]
    st = prog.structs["humphrey::http::response::Response"]["fields"]
    bi = next(i for i, x in enumerate(st) if x["name"] == "body")
    APPEND = r"Extend.*::extend$|::extend_from_slice$|::push$|::append$|::insert$|Write::write|::push_str$"
    sites = []
    for b, t in body.calls_to(APPEND):
        d = describe(prog, body, t["args"][1]) if len(t["args"]) > 1 else None
        from_body = d is not None and core.desc_contains(d, lambda x: x[0] == "field" and x[2] == bi and x[1][0] == "param")
        sites.append((b, t, d, from_body))
    body_sites = [s for s in sites if s[3]]
    chk.floor("body append site", len(body_sites), 1)
    for (b, t, d, _) in body_sites:
        recv = describe(prog, body, t["args"][0])
        after = body.reachable(body.succs(b))
        for (b2, t2, d2, fb2) in sites:
            if b2 in after and b2 != b and describe(prog, body, t2["args"][0]) == recv:
                d2 = _peel_bytes(d2)
                what = d2[1] if d2 and d2[0] == "lit" else d2
                if isinstance(what, str):
                    what = what.encode()        # `"\r\n".as_bytes()` and `b"\r\n"` are the same two bytes
                if not isinstance(what, (bytes, str)):
                    # a named constant / reference to one: use its bytes when they are known
                    from .. import byteset
                    cb = byteset.const_bytes(d2) if d2 is not None else None
                    what = bytes(cb) if cb is not None else what
                # (keyed by the bytes appended, not by which Vec method appends them)
                chk.ob(rid, f, f"append after body: {what!r}", False,
                       f"bytes {what!r} are appended after the body: the message is longer than its Content-Length "
                       f"and the surplus is read as the start of the next response on a kept-alive connection",
                       where=body.where(b2), cfg=cfg)
        chk.ob(rid, f, "body append located", True, where=body.where(b), cfg=cfg)


def response_reads(chk, prog, rid, cfg=None):
    """The response parser (and parse_chunk) read only through read_exact / read_until; a read_to_end (e.g. on a
    `take(n)`) is accepted only if every Ok exit is dominated by a length-equality test on that buffer."""
    from . import c02
    from .. import panics
    chk.rule(rid, "R-CALLS: Response::from_stream / parse_chunk read with read_exact / read_until only (short bodies are errors, not truncated successes)")
    good = 0
    for fn in ("humphrey::http::response::Response::from_stream", "humphrey::http::response::parse_chunk"):
        b = prog.bodies.get(fn)
        chk.floor(fn.split("::")[-1], 1 if b else 0, 1)
        if not b:
            continue
        oks = core.ok_return_blocks(b, "Ok") + core.ok_return_blocks(b, "Some")
        for blk, t in b.calls():
            if core.call_matches(t, c02.GOOD_READ):
                good += 1
            elif core.call_matches(t, r"Read::read_to_end$|Read::read_to_string$"):
                buf = panics._strip(describe(prog, b, t["args"][1]))
                after = [o for o in oks if o in b.reachable(b.succs(blk))]
                ok = bool(after)
                for o in after:
                    facts = panics.cmp_facts(prog, b, o)
                    if not any(op == "==" and (panics._len_of(a) == buf or panics._len_of(r) == buf) for (a, op, r) in facts):
                        ok = False
                chk.ob(rid, fn, "read_to_end result is length-checked before success", ok,
                       "the body is read with read_to_end (which stops quietly at end of stream) and returned without comparing its length with the claimed "
                       "length: an upstream that disconnects mid-body yields a truncated 200 instead of an error", where=b.where(blk), cfg=cfg)
            elif core.call_matches(t, c02.BARE_READ):
                chk.ob(rid, fn, f"bare read {t['callee'].split('::')[-1]} in the response parser", False,
                       "a partial read would be taken for complete data", where=b.where(blk), cfg=cfg)
    chk.floor("exact reads in the response parser", good, 3)


SPLIT_FAMILY = r"str::<impl str>::(split|splitn|rsplit|rsplitn|split_once|rsplit_once|split_terminator|rsplit_terminator|split_inclusive|split_at|split_at_checked|find|rfind|split_whitespace|split_ascii_whitespace|match_indices|rmatch_indices)$"


def first_split(d, sep):
    """How a piece of a line was cut out at the character `sep`: every split-family call on `sep` in description d.  (ok, text) where ok
    means "split at the FIRST occurrence, into at most two pieces": splitn(2, sep) or split_once(sep) (an arm that keeps the whole value
    when there is no `sep` contributes no call)."""
    pats = (("lit", sep), ("lit", chr(sep)))
    hits = [c for c in core.desc_calls(d) if core.re.search(SPLIT_FAMILY, c[1]) and any(a in pats for a in c[2][1:])]
    # string patterns that contain the separator (": ") are cuts at the separator as well
    hits += [c for c in core.desc_calls(d) if core.re.search(SPLIT_FAMILY, c[1]) and c not in hits and
             any(isinstance(a, tuple) and a and a[0] == "lit" and isinstance(a[1], str) and chr(sep) in a[1] for a in c[2][1:])]
    if not hits:
        return False, f"no split at {chr(sep)!r} found"
    texts, ok = [], True
    for c in hits:
        name = c[1].rsplit("::", 1)[-1]
        args = ", ".join(repr(a[1]) if isinstance(a, tuple) and a and a[0] == "lit" else ".." for a in c[2][1:])
        texts.append(f"{name}({args})")
        if name == "splitn" and len(c[2]) == 3:
            ok = ok and c[2][1] == ("lit", 2) and c[2][2] in pats
        elif name == "split_once" and len(c[2]) == 2:
            ok = ok and c[2][1] in pats
        elif name == "find" and len(c[2]) == 2 and c[2][1] in pats:
            # `match t.find(sep) { Some(i) => (&t[..i], &t[i + 1..]), None => (t, "") }`: the first occurrence, spelled with an index
            ok = ok and True
        else:
            ok = False
    return ok, " / ".join(sorted(set(texts)))


def header_line_split(chk, prog, rid, fn, cfg=None):
    """Header lines are cut at their first ':' — in both the request and the response parser (a string pattern such as ": ", or the
    last ':', rejects or mis-names valid header lines, and puts the two parsers out of step)."""
    b = prog.impl_body(fn) if hasattr(prog, "impl_body") else prog.bodies.get(fn)
    if b is None:
        return
    n = 0
    for blk, t in b.calls_to(r"http::headers::Headers::add$"):
        if len(t["args"]) < 3:
            continue
        nd, vd = describe(prog, b, t["args"][1]), describe(prog, b, t["args"][2])
        if nd[0] == "variant" or not core.desc_contains(nd, lambda y: y[0] == "call" and y[1].endswith("HeaderType as std::convert::From<&str>>::from")):
            continue        # a header the parser adds itself
        n += 1
        for what, d in (("name", nd), ("value", vd)):
            ok, how = first_split(d, 58)
            chk.ob(rid, b.path, f"header {what}: the line is split at its first ':'", ok,
                   f"header {what} is cut out with {how}: a valid header line (no space after the colon, a value containing ': ', a second colon) is rejected or mis-split",
                   where=b.where(blk), cfg=cfg)
    chk.floor(f"header lines parsed in {fn.split('::')[-2]}::{fn.split('::')[-1]}" + (f" [{cfg}]" if cfg else ""), n, 1)


def target_split(chk, prog, rid, cfg=None):
    """The request target is cut at its FIRST '?': path before it, query after it (later '?' belong to the query)."""
    fn = "humphrey::http::request::Request::from_stream_inner"
    b = prog.impl_body(fn)
    if b is None:
        return
    n = 0
    for blk_ in b.blocks:
        for s_ in blk_["stmts"]:
            rv = s_.get("rv")
            if rv and rv.get("k") == "agg" and str(rv.get("adt", "")).endswith("http::request::Request") and "uri" in rv.get("fields", []):
                n += 1
                f = dict(zip(rv["fields"], rv["ops"]))
                for what in ("uri", "query"):
                    ok, how = first_split(describe(prog, b, f[what]), 63)
                    chk.ob(rid, b.path, f"request {what}: the target is split at its first '?'", ok,
                           f"{what} is cut out of the target with {how}: a target with two '?' is split in the wrong place (the path then carries part of the query, or the query is truncated)",
                           cfg=cfg)
    chk.floor(f"Request construction sites" + (f" [{cfg}]" if cfg else ""), n, 1)


def eof_is_error(chk, prog, rid, fn_rx, what, cfg=None, floor=1):
    """At end of input (the peer closed the connection: read / read_until / read_line report Ok(0) and leave the buffer untouched) a line loop of a
    message parser must fail, not end as if its terminator had been read.  The EOF scenario of every read loop (hv.eofscan, abstract execution
    of the cycle with an empty buffer) is followed past the loop: it has to reach `return Err(..)`, or at least stop at a point from which no
    `Ok(..)` return can be reached."""
    from .. import eofscan
    n = 0
    for p, b in sorted(prog.bodies.items()):
        if not core.re.search(fn_rx, p) or "promoted" in p:
            continue
        oks = core.ok_return_blocks(b, "Ok")
        for r in eofscan.scan(prog, b, set()):
            if r[1] != "exit" or r.outcome is None:
                continue
            n += 1
            kind, v = r.outcome
            if kind == "returned":
                accepted = not (isinstance(v, tuple) and v[0] == "variant" and v[1] == "Err")
                if isinstance(v, tuple) and v[0] == "future":
                    accepted = not (isinstance(v[1], tuple) and v[1][0] == "variant" and v[1][1] == "Err")
                if v is None:
                    accepted = False        # the abstract store lost the returned value: not decided, never an alarm
            else:
                accepted = any(o in b.reachable([v]) for o in oks)
            chk.ob(rid, p, f"end of input inside the {what}: the read loop around {core.short(b.term(r[0])['callee'])} ends in an error", not accepted,
                   f"when the peer closes the connection at a line boundary the loop ends as if the terminating blank line had been read: a truncated {what} is "
                   "accepted as complete", where=b.where(r[0]), cfg=cfg)
    chk.floor(f"read loops followed past end of input [{cfg or 'A'}] ({what})", n, floor)



def family(prog, root_path):
    """The bodies a rule about `root_path` looks at: the function, its closures, and — since a refactoring may hand a named helper where a
    closure stood (`.filter_map(parse_pair)`) — every function that is new relative to the pinned tree and is referenced as a value (a function
    item operand) or called from one of those bodies, with its closures."""
    root = prog.bodies.get(root_path)
    if root is None:
        return []
    new = set(getattr(prog, "new_functions", []) or [])
    out, work = [], [root]
    seen = set()
    while work:
        b = work.pop()
        if b.path in seen:
            continue
        seen.add(b.path)
        out.append(b)
        for c in prog.closures_of(b.path):
            work.append(c)
        refs = set()

        def walk(x):
            if isinstance(x, dict):
                if x.get("k") == "const" and x.get("fn") in new:
                    refs.add(x["fn"])
                for v in x.values():
                    walk(v)
            elif isinstance(x, list):
                for v in x:
                    walk(v)
        walk(b.blocks)
        for blk, t in b.calls():
            r = t.get("resolved")
            if r in new:
                refs.add(r)
        for r in refs:
            if r in prog.bodies:
                work.append(prog.bodies[r])
    # a closure whose body was inlined into a member of the family (combinator lowering, closure calls) is looked at there, not twice
    inlined = set()
    for b in out:
        for blk in b.blocks:
            fc = blk.get("from_closure")
            if fc:
                inlined.add(fc)
    return [b for b in out if b.path not in inlined or b.path == root_path]


LENIENT = r"str>?::(trim|trim_end|trim_start|trim_matches|trim_end_matches|trim_start_matches|trim_right|trim_left|split_whitespace|split_ascii_whitespace|lines|to_lowercase|to_uppercase|to_ascii_lowercase|to_ascii_uppercase)$|core::str::<impl str>::(trim|trim_end|trim_start|trim_matches|trim_end_matches|trim_start_matches|split_whitespace|split_ascii_whitespace|lines)$"


def start_line_exact(chk, prog, rid, cfg=None):
    """The three tokens of the request line are taken as they are: none of them passes through a trimming / whitespace-splitting call on its
    way into the Request (`trim_end()` on the version accepts a bare LF, a trailing blank and a fourth token, which a request parser must
    answer with 400)."""
    n = 0
    for p, b in sorted(prog.bodies.items()):
        if not core.re.search(r"http::request::Request::from_stream(_inner)?(::\{closure#\d+\})*$", p):
            continue
        for bi, blk in enumerate(b.blocks):
            for st in blk["stmts"]:
                rv = st.get("rv")
                if not (rv and rv.get("k") == "agg" and rv.get("adt", "").endswith("http::request::Request") and "version" in (rv.get("fields") or [])):
                    continue
                for f in ("method", "uri", "version"):
                    d = describe(prog, b, rv["ops"][rv["fields"].index(f)])
                    n += 1
                    bad = [c[1] for c in core.desc_calls(d) if core.re.search(LENIENT, c[1])]
                    if f == "uri" and not bad:
                        # the path is the target up to its first `?`, byte for byte: no search-and-slice, replacement or decoding on the way
                        # (a "reduce absolute-form" step that looks for `://` anywhere truncates `/login?next=https://..`)
                        bad = [c[1] for c in core.desc_calls(d) if core.re.search(
                            r"::(find|rfind|split_at|replace|replacen|strip_prefix|strip_suffix|get|get_unchecked|rsplit|rsplitn|rsplit_once|split_off|truncate|drain|pop|remove|percent_decode|to_lowercase|to_ascii_lowercase)$|"
                            r"ops::Index<[^>]*Range[^>]*>>?::index$|str::traits::<impl std::ops::Index<I> for str>::index$", c[1])]
                        # (the split at the first `?` itself may be spelled `find('?')` + `[..i]`: every search is for that separator)
                        finds_ = [c for c in core.desc_calls(d) if c[1].endswith("::find")]
                        if bad and finds_ and all(len(c[2]) == 2 and c[2][1] in (("lit", 63), ("lit", "?")) for c in finds_) and \
                                all(core.re.search(r"::find$|Index<[^>]*>>?::index$|for str>::index$", x) for x in bad):
                            bad = []
                    chk.ob(rid, p, f"request line: the {f} token is taken exactly (no trimming / whitespace splitting)", not bad,
                           f"the {f} passes through {core.short(bad[0]) if bad else ''}: the request line is not taken as it was sent (a bare LF, a trailing blank or an extra token is accepted, or part of the target is cut away)",
                           where=b.where(bi), cfg=cfg)
    chk.floor(f"request-line tokens [{cfg or 'A'}]", n, 3)


def response_framing_by_headers(chk, prog, rid, cfg=None):
    """The response parser decides how the body is framed from the headers alone (Transfer-Encoding, Content-Length) and accepts every
    HTTP version token: no branch of Response::from_stream on the status (a 204 / 304 that carries Content-Length would lose its body and
    leave it on the wire) and no comparison of the start line's version token with a literal (an `HTTP/1.0` upstream answer is valid)."""
    fn = "humphrey::http::response::Response::from_stream"
    fam = family(prog, fn)
    chk.floor("Response::from_stream", len(fam), 1)
    n = 0
    for b in fam:
        for s_ in range(len(b.blocks)):
            t = b.term(s_)
            if not t or t["k"] != "switch":
                continue
            info = core.switch_info(prog, b, s_)
            n += 1
            if info and info.get("kind") == "enum" and (info.get("src_ty") or "").lstrip("&").replace("mut ", "").strip() == "humphrey::http::status::StatusCode":
                chk.ob(rid, b.path, "body framing does not depend on the status code", False,
                       "the parser branches on the StatusCode: for some statuses the announced body is not read (it stays in the stream and the parsed response differs from the one sent)",
                       where=b.where(s_), cfg=cfg)
        for blk, t in b.calls():
            if not core.call_matches(t, r"PartialEq.*::(eq|ne)$|::starts_with$|::ends_with$|eq_ignore_ascii_case$|::strip_prefix$|::contains$"):
                continue
            ds = [describe(prog, b, a) for a in t["args"]]
            lits = [a[1] for a in ds if isinstance(a, tuple) and a and a[0] == "lit" and isinstance(a[1], str) and a[1].upper().startswith("HTTP/") and len(a[1]) > 5]
            if lits:
                chk.ob(rid, b.path, "every HTTP version token of the status line is accepted", False,
                       f"the version token is compared with {lits}: a valid answer in another HTTP/1.x version is rejected", where=b.where(blk), cfg=cfg)
    chk.ob(rid, fn, f"{n} branch(es) of the response parser examined: none on the status code or on a literal version token", True, cfg=cfg)


def every_header_line_stored(chk, prog, rid, fn, cfg=None):
    """Every header line the parser reads becomes an entry of the header list: a cycle of the header loop (from one read of a line to the next)
    passes a `Headers::add` of the parsed line.  A cap or filter that reads a line and goes on without storing it hides that field from
    everything downstream (the forwarded chain, Content-Length, cookies) while the request is still served."""
    b = prog.impl_body(fn) if hasattr(prog, "impl_body") else prog.bodies.get(fn)
    chk.floor(f"{fn.rsplit('::', 1)[-1]} body [{cfg}]" if cfg else fn, 1 if b is not None else 0, 1)
    if b is None:
        return
    adds = []
    for blk, t in b.calls_to(r"http::headers::Headers::add$"):
        if len(t["args"]) < 3:
            continue
        nd = describe(prog, b, t["args"][1])
        if nd[0] == "variant":
            continue        # a header the parser adds itself
        adds.append(blk)
    # `headers.push(parse_header_line(line)?)`: a whole Header appended
    adds += [blk for blk, t in b.calls_to(r"http::headers::Headers::push$") if len(t["args"]) == 2]
    adds += [blk for blk, t in b.calls_to(r"^std::vec::Vec::<T, A>::push$") if t.get("arg_tys") and "headers::Header" in t["arg_tys"][0]]
    reads = [blk for blk, t in b.calls_to(r"(BufRead|AsyncBufReadExt)(<[^>]*>)?>?::(read_line|read_until)$|::read_line$|::read_until$")]
    loop_reads = [r for r in reads if r in b.reachable(b.succs(r))]
    chk.floor(f"header-line reads inside the header loop [{cfg}]", len(loop_reads), 1)
    chk.floor(f"Headers::add of a parsed line [{cfg}]", len(adds), 1)
    for r in loop_reads:
        same_loop = [a for a in adds if a in b.reachable(b.succs(r)) and r in b.reachable(b.succs(a))]
        if not same_loop:
            # the lines are collected first and parsed in a second pass: this rule does not follow the collection, and says so
            chk.extra.setdefault("not_decided_on_this_tree", []).append(f"every header line stored [{cfg}]: lines are read and parsed in separate loops")
            chk.ob(rid, fn, "every header line read is stored in the header list before the next one is read", True,
                   "not decided on this tree: the header lines are read in one loop and added in another", cfg=cfg, where=b.where(r))
            continue
        again = r in b.reachable(b.succs(r), removed_nodes=set(adds))
        w = None
        if again:
            w = b.path_to(b.succs(r), r, removed_nodes=set(adds))
        chk.ob(rid, fn, "every header line read is stored in the header list before the next one is read", not again,
               "the header loop can read a line and go on to the next without adding it to the header list (a cap / filter on the fields kept): "
               "a field sent after that point — X-Forwarded-For, Content-Length, Cookie — is invisible to the server although the request is served",
               path=w, cfg=cfg, where=b.where(r))


def request_address_fixed(chk, prog, rid, cfg=None):
    """`Request.address` is what the parser derived from this request's own peer address and headers: nothing outside the request parser
    assigns the field (a connection-scoped or cached address carries the first request's forwarded chain over to the next request on the
    connection)."""
    st = prog.structs.get("humphrey::http::request::Request", {}).get("fields", [])
    idx = next((i for i, x in enumerate(st) if x["name"] == "address"), None)
    chk.floor(f"Request.address field [{cfg}]", 0 if idx is None else 1, 1)
    if idx is None:
        return
    n = 0
    for p, b in sorted(prog.bodies.items()):
        if not (p.startswith("humphrey::") or p.startswith("<humphrey::") or p.startswith("humphrey_server::")) or "promoted" in p:
            continue
        n += 1
        if core.re.match(r"^<?humphrey::(tokio::)?http::request::", p):
            continue        # the parser may build the request step by step
        for bi, blk in enumerate(b.blocks):
            if blk.get("cleanup"):
                continue
            for s in blk["stmts"]:
                if "pl" not in s or "rv" not in s:
                    continue
                rv = s["rv"]
                cands = [(s["pl"], "assigned")]
                if rv.get("k") in ("ref", "rawptr") and rv.get("mut", rv.get("k") == "rawptr") and rv.get("pl"):
                    cands.append((rv["pl"], "mutably borrowed"))
                for pl, how in cands:
                    cur = b.local_ty(pl["l"]) or ""
                    for e in pl["p"]:
                        if e[0] == "f":
                            base = cur
                            while base.startswith("&"):
                                base = base[1:].lstrip()
                                if base.startswith("mut "):
                                    base = base[4:]
                            if base.endswith("http::request::Request") and e[1] == idx:
                                chk.ob(rid, p, "Request.address is set by the request parser only", False,
                                       f"`request.address` is {how} outside the parser: the address that is tested / logged need not be the one derived from this request",
                                       where=b.where(bi), cfg=cfg)
                            cur = e[2]
                        elif e[0] == "d":
                            while cur.startswith("&"):
                                cur = cur[1:].lstrip()
                                if cur.startswith("mut "):
                                    cur = cur[4:]
                                break
                            if cur.startswith("std::boxed::Box<"):
                                cur = cur[len("std::boxed::Box<"):-1]
    chk.ob(rid, "humphrey", f"bodies scanned for writes to Request.address [{cfg}]", n >= 50, f"{n} bodies", cfg=cfg)


class RuleFilter:
    """Runs another property's rule set for the sake of a few of its rules: obligations of the rules in `keep` ({their id: id here}) are
    forwarded to the real check, everything else (other rules, the owner's floors, its explanation texts) is dropped.  The owner keeps the
    shape floors; the borrower only requires that the borrowed rules produced obligations at all."""

    def __init__(self, chk, keep):
        object.__setattr__(self, "_chk", chk)
        object.__setattr__(self, "_keep", dict(keep))
        object.__setattr__(self, "forwarded", 0)
        object.__setattr__(self, "extra", {})

    def ob(self, rule, *a, **k):
        if rule in self._keep:
            object.__setattr__(self, "forwarded", self.forwarded + 1)
            return self._chk.ob(self._keep[rule], *a, **k)

    def floor(self, *a, **k):
        return None

    def use(self, prog):
        return self._chk.use(prog)

    def __getattr__(self, name):
        if name == "tier":
            return "quick"      # the owner's thorough-only extras (witness builds, fresh extraction) belong to the owner's own run
        return getattr(object.__getattribute__(self, "_chk"), name)

    def __setattr__(self, name, value):
        return None


def no_blind_consume(chk, prog, rid, prefix_rx, cfg=None):
    """Input is skipped by reading it.  `BufRead::consume(n)` only drops bytes that are already in the buffer: with a constant `n` (the CRLF
    after a chunk) it silently skips less when the buffer happens to end there — a flush of the peer between the chunk data and its CRLF, or
    data that ends exactly at the buffer's capacity — and the next read starts in the wrong place.  A `consume` is accepted only when its
    amount is derived from what `fill_buf` returned."""
    n = 0
    for p, b in sorted(prog.bodies.items()):
        if not core.re.search(prefix_rx, p) or "promoted" in p:
            continue
        n += 1
        for blk, t in b.calls_to(r"BufRead(<[^>]*>)?>?::consume$|AsyncBufReadExt(<[^>]*>)?>?::consume$|::consume$"):
            if len(t["args"]) < 2:
                continue
            d = describe(prog, b, t["args"][1])
            from_buf = core.desc_contains(d, lambda y: y[0] == "call" and core.re.search(r"::fill_buf$|::buffer$", y[1]) is not None)
            chk.ob(rid, p, "consume(n) skips only what fill_buf showed to be buffered", from_buf,
                   f"consume({panics_short(d)}) with an amount that does not come from fill_buf: when fewer bytes are buffered the rest is not skipped and the parser loses its place "
                   "(a chunked body is cut short or mis-framed depending on how the peer's writes were segmented)", where=b.where(blk), cfg=cfg)
    chk.ob(rid, "parsers", f"parser bodies scanned for consume() [{cfg}]", n >= 2, f"{n} bodies", cfg=cfg)


def panics_short(d):
    from .. import panics as _p
    try:
        return _p.short_desc(d)
    except Exception:
        return str(d)[:60]

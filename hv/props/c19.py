"""C19 — a blacklisted address never receives content (structural clauses)."""
from .. import core, tables, panics
from ..core import describe_r as describe, desc_contains, switch_info
from .c01 import some_edge_of

HANDLERS = {
    "file": "humphrey_server::server::static::file_handler",
    "directory": "humphrey_server::server::static::directory_handler",
    "proxy": "humphrey_server::server::proxy::proxy_handler",
    "redirect": "humphrey_server::server::static::redirect_handler",
}
CONTENT_SINK = (r"^std::fs::|^std::net::TcpStream::connect|^humphrey::http::proxy::proxy_request$|route::try_find_path$|"
                r"cache::Cache::get$|LoadBalancer::select_target$|^std::sync::RwLock::<T>::(read|write)$")


def fidx(prog, struct, name):
    return next(i for i, x in enumerate(prog.structs[struct]["fields"]) if x["name"] == name)


def is_membership(prog, body, t, ix):
    """Call `<blacklist list>.contains(x)`; returns the description of x or None."""
    if not core.call_matches(t, r"::contains$"):
        return None
    if len(t["args"]) < 2:
        return None
    recv = describe(prog, body, t["args"][0])
    ok = desc_contains(recv, lambda y: y[0] == "field" and y[2] == ix["list"] and y[1][0] == "field" and y[1][2] == ix["blacklist"])
    if not ok:
        return None
    return describe(prog, body, t["args"][1])


def address_fields_in(d, ix):
    """Which Address fields (of request.address) a description mentions."""
    out = set()
    def walk(y):
        if isinstance(y, tuple):
            if y and y[0] == "field" and isinstance(y[1], tuple) and y[1] and y[1][0] == "field" and y[1][2] == ix["req_address"]:
                out.add(y[2])
            for z in y:
                walk(z)
        elif isinstance(y, list):
            for z in y:
                walk(z)
    walk(d)
    return out


PARTIAL = (r"::(skip|take|skip_while|take_while|step_by|last|first|nth|filter|filter_map|rev|zip|get|get_mut|get_unchecked|split_last|split_first|split_at|split_off|"
           r"chunks|chunks_exact|windows|rchunks|truncate|drain|pop|remove|swap_remove|retain|dedup|first_chunk|last_chunk|split_at_checked|max|min|find|position)$")


def whole_collection(recv):
    """the iterated collection is all of the field: no adapter that drops elements and no sub-slice (`v[..n]`, `v[1..]`) between the field and the test"""
    for c2 in core.desc_calls(recv):
        if core.re.search(PARTIAL, c2[1]):
            return False
        if core.re.search(r"Index(Mut)?<[^>]*>>?::index(_mut)?$", c2[1]):
            ix_ = c2[2][1] if len(c2[2]) > 1 else None
            if not (isinstance(ix_, tuple) and ix_[0] == "variant" and ix_[2] == "RangeFull"):
                return False
    return True


def membership_facts(prog, body, ix):
    """For every bool switch whose condition is a blacklist membership test (direct, or an iterator
    `any` whose closure performs one): block -> set of Address fields tested."""
    out = {}
    for s in range(len(body.blocks)):
        t = body.term(s)
        if not t or t["k"] != "switch" or t.get("discr_ty") != "bool":
            continue
        d = core.describe(prog, body, t["discr"])
        fields = set()
        found = False
        for c in core.desc_calls(d):
            blk = c[3] if len(c) > 3 else None
            if blk is None:
                continue
            ct = body.term(blk)
            arg = is_membership(prog, body, ct, ix)
            if arg is not None:
                found = True
                fields |= address_fields_in(arg, ix)
            if core.call_matches(ct, r"Iterator>?::any$|Iterator::any$"):
                cl = describe(prog, body, ct["args"][1]) if len(ct["args"]) > 1 else None
                if cl and cl[0] == "closure" and cl[1] in prog.bodies:
                    cb = prog.bodies[cl[1]]
                    inner = [x for x in (is_membership(prog, cb, tt, ix) for _, tt in cb.calls()) if x is not None]
                    if inner:
                        found = True
                        recv_ = describe(prog, body, ct["args"][0])
                        fields |= address_fields_in(recv_, ix)
                        # every element of the collection is tested (no skip / take / last / rev in front of `any`)
                        if whole_collection(recv_):
                            fields.add("chain")
        if found:
            out[s] = fields
    return out


def loop_membership(prog, body, ix, mem):
    """Loop form of `proxies.iter().any(|p| list.contains(p))`: `for p in &address.proxies { if list.contains(p) { <leave> } }`.
    Returns {switch block of the loop's next(): fields} such that on that switch's None edge (the loop ran out) no element was listed."""
    out = {}
    for nb, t in body.calls_to(r"Iterator>?::next$|Iterator::next$"):
        recv = describe(prog, body, t["args"][0])
        fields = address_fields_in(recv, ix)
        if not fields:
            continue
        cyc = {x for x in body.reachable(body.succs(nb)) if nb in body.reachable([x])} | {nb}
        tests = []
        for s_ in cyc:
            tt = body.term(s_)
            if not tt or tt["k"] != "switch" or tt.get("discr_ty") != "bool":
                continue
            d = core.describe(prog, body, tt["discr"])
            for c in core.desc_calls(d):
                blk = c[3] if len(c) > 3 else None
                if blk is None:
                    continue
                arg = is_membership(prog, body, body.term(blk), ix)
                if arg is not None and desc_contains(arg, lambda y: y[0] == "call" and len(y) > 3 and y[3] == nb):
                    info = core.switch_info(prog, body, s_)
                    # listed -> the loop is left (the true edge never comes back to next())
                    if nb not in body.reachable([info["edges"]["true"]], removed_nodes=[]) or info["edges"]["true"] not in cyc:
                        tests.append(s_)
        if tests:
            # every cycle of the loop passes one of the tests
            if core.must_pass(body, [nb], [nb], through_nodes=tests) is None:
                whole = whole_collection(recv)
                for e in some_edges(prog, body, nb, "None"):
                    out[e[0]] = set(fields) | ({"chain"} if whole else set())
    return out


def some_edges(prog, body, call_block, variant):
    from .c01 import some_edge_of
    return some_edge_of(prog, body, call_block, variant)


def not_listed_fields(prog, body, blk, ix, mem, wrappers):
    """Address fields known not to be on the blacklist at block blk (union over dominating guards)."""
    fields = set()
    loops = loop_membership(prog, body, ix, mem)
    for s, lab, d, info in core.guards_dominating(prog, body, blk):
        if s in mem and lab == "false":
            fields |= mem[s]
        if s in loops and lab == "None":
            fields |= loops[s]
        # None edge of a wrapper's result
        if lab == "None" and info.get("src") is not None:
            src = core.describe(prog, body, {"k": "copy", "pl": info["src"]})
            for c in core.desc_calls(src):
                if c[1] in wrappers:
                    fields |= wrappers[c[1]]
    return fields


def wrapper_summaries(chk, prog, ix):
    """Functions returning Option<Response>: Some only when listed (403), None only when not listed."""
    out = {}
    for p, b in prog.bodies.items():
        if not p.startswith("humphrey_server::server::") or "promoted" in p or b.kind != "fn":
            continue
        if "Option<humphrey::http::response::Response>" not in b.local_ty(0):
            continue
        mem = membership_facts(prog, b, ix)
        if not mem:
            continue
        nones, somes = core.ok_return_blocks(b, "None"), core.ok_return_blocks(b, "Some")
        fields = None
        for nb in nones:
            f = not_listed_fields(prog, b, nb, ix, mem, {})
            fields = f if fields is None else (fields & f)
        fields = fields or set()
        # Some(..) must be the 403 and must be dominated by a `listed` edge
        ok_some = True
        for sb in somes:
            for s_ in b.blocks[sb]["stmts"]:
                rv = s_.get("rv")
                if rv and rv.get("k") == "agg" and rv.get("variant") == "Some" and s_["pl"]["l"] == 0:
                    d = core.describe(prog, b, rv["ops"][0])
                    forb = desc_contains(d, lambda y: y[0] == "call" and y[1].endswith("Response::empty") and core.is_variant(y[2][0], "StatusCode", "Forbidden"))
                    chk.ob("R1.wrapper", p, "Some(response) is the 403", forb, f"wrapper returns {core.short(str(d))[:80]}", where=b.where(sb))
                    ok_some = ok_some and forb
        out[p] = fields
        chk.ob("R1.wrapper", p, f"returns None only when not listed (tests fields {sorted(map(str, fields))})", bool(fields), "", where=b.file)
    return out


def handler_rules(chk, prog, ix):
    wrappers = wrapper_summaries(chk, prog, ix)
    tested_by_handler = {}
    for kind, fn in HANDLERS.items():
        b = prog.bodies.get(fn)
        chk.floor(f"{kind} handler", 1 if b else 0, 1)
        if not b:
            continue
        mem = membership_facts(prog, b, ix)
        sites = []
        for blk, t in b.calls():
            chk.call_sites += 1
            name = t.get("resolved") or t.get("callee") or ""
            dty = b.local_ty(t["dest"]["l"])
            is_resp = "response::Response" in dty and not any("response::Response" in a for a in t.get("arg_tys", []))
            if name in wrappers:
                continue
            if is_resp:
                vs = [core.describe(prog, b, a) for a in t["args"]]
                if any(core.is_variant(v, "StatusCode", "Forbidden") for v in vs):
                    continue
                sites.append((blk, "response " + core.short(name).split("::")[-1] + "(" + ",".join(v[2] for v in vs if v[0] == "variant") + ")"))
            elif core.call_matches(t, CONTENT_SINK) or (name.startswith("humphrey_server::server::") and name not in wrappers and "logger" not in name.lower() and "Logger" not in name):
                sites.append((blk, core.short(name).split("::")[-1]))
        chk.floor(f"content sites in {kind} handler", len(sites), 1)
        allf = None
        for blk, label in sites:
            f = not_listed_fields(prog, b, blk, ix, mem, wrappers)
            allf = f if allf is None else (allf & f)
            chk.ob("R1.dominated", fn, f"{label}: dominated by the not-listed edge of the blacklist test", bool(f),
                   f"{label} can run for a request whose address is on the blacklist", where=b.where(blk))
        tested_by_handler[kind] = allf or set()
        # non-403 returns: every return block that is not reached through a `listed` edge must see not-listed
    return tested_by_handler


def address_cases(chk, prog, ix, tested):
    """R4: in every Address construction case the test covers a field holding the socket peer address."""
    cases = {}
    nb = prog.bodies.get("humphrey::http::address::Address::new")
    fb = prog.bodies.get("humphrey::http::address::Address::from_headers")
    chk.floor("Address construction functions", (1 if nb else 0) + (1 if fb else 0), 2)
    names = [x["name"] for x in prog.structs["humphrey::http::address::Address"]["fields"]]
    def socket_fields(b, rv):
        out = set()
        for i, o in enumerate(rv["ops"]):
            d = core.describe(prog, b, o)
            # the socket address: derived from the `addr` parameter via SocketAddr::ip
            if desc_contains(d, lambda y: y[0] == "call" and y[1].endswith("SocketAddr::ip")):
                out.add(i)
        return out
    for b, label in ((nb, "Address::new"), (fb, "Address::from_headers (X-Forwarded-For branch)")):
        if not b:
            continue
        for blk in b.blocks:
            for s in blk["stmts"]:
                rv = s.get("rv")
                if rv and rv.get("k") == "agg" and rv.get("adt", "").endswith("address::Address"):
                    sf = socket_fields(b, rv)
                    # `proxies` holds the peer when it is pushed into the vector that becomes the field
                    pi = names.index("proxies")
                    pv = core.describe(prog, b, rv["ops"][pi])
                    for blk2, t in b.calls_to(r"Vec::<T, A>::push$"):
                        if desc_contains(core.describe(prog, b, t["args"][1]), lambda y: y[0] == "call" and y[1].endswith("SocketAddr::ip")):
                            sf.add(pi)
                    cases[label] = sf
    chk.floor("Address construction cases", len(cases), 2)
    for kind, fields in tested.items():
        for label, sf in cases.items():
            ok = bool(fields & sf)
            chk.ob("R4.peer_covered", HANDLERS[kind], f"{label}: the blacklist test covers a field holding the socket peer",
                   ok, f"the {kind} handler tests Address fields {[names[i] for i in sorted(x for x in fields if isinstance(x, int))]} but in this case the connecting peer is only in "
                       f"{[names[i] for i in sorted(sf)]}: a listed client that sends 'X-Forwarded-For: <unlisted address>' is served", where="")
        chk.ob("R4.origin_covered", HANDLERS[kind], "the blacklist test covers origin_addr (forwarded-for client)", names.index("origin_addr") in fields,
               "a request forwarded on behalf of a listed address would be served")
        chk.ob("R4.chain_covered", HANDLERS[kind], "the blacklist test covers every address of the forwarded chain (all of address.proxies)", "chain" in fields,
               "only some elements of the X-Forwarded-For chain are tested (e.g. proxies.last()): a request relayed through a listed hop that is not the last entry is served")


ADDR_REWRITE = (r"(Ipv6Addr::to_ipv4|Ipv6Addr::to_ipv4_mapped|Ipv4Addr::to_ipv6_mapped|Ipv4Addr::to_ipv6_compatible|IpAddr::to_canonical|Ipv6Addr::to_canonical|"
                r"Ipv4Addr::new|Ipv6Addr::new|Ipv4Addr::from_bits|Ipv6Addr::from_bits|Ipv4Addr::octets|Ipv6Addr::octets|Ipv6Addr::segments|"
                r"Ipv4Addr::from_octets|Ipv6Addr::from_segments|Ipv6Addr::from_octets)$|IpAddr as std::convert::From<\[u")


def address_identity(chk, prog):
    """R4: the addresses compared with the blacklist are the addresses as parsed / as reported by the socket: nothing between
    SocketAddr::ip() / IpAddr::from_str and `list.contains(..)` rewrites an address (mapping ::1 to 0.0.0.1, v4-mapped folding, ...),
    since the list entries are compared by equality and are not rewritten the same way."""
    roots = ["humphrey::http::address::Address::new", "humphrey::http::address::Address::from_headers",
             "humphrey_server::server::server::verify_connection"] + [v for v in HANDLERS.values()] + ["humphrey_server::server::static::blacklist_check"]
    roots = [r for r in roots if r in prog.bodies]
    chk.floor("address producers / blacklist testers", len(roots), 6)
    seen = set()
    bad = []
    n = 0
    for r in roots:
        fam = prog.reach_bodies([r], extra_edges=lambda bb: [c.path for c in prog.closures_of(bb.path)])
        # only follow helpers that handle addresses
        for pth in sorted(fam):
            if pth in seen:
                continue
            bb = prog.bodies[pth]
            if pth not in roots and not any("IpAddr" in (loc.get("ty") or "") or "Ipv6Addr" in (loc.get("ty") or "") or "Ipv4Addr" in (loc.get("ty") or "") for loc in bb.locals[:bb.argc + 1]):
                continue
            seen.add(pth)
            for blk, t in bb.calls():
                n += 1
                if core.call_matches(t, ADDR_REWRITE):
                    bad.append((bb, blk, t["callee"]))
                for a in t["args"]:
                    if a.get("k") == "const" and core.re.search(ADDR_REWRITE, str(a.get("fn") or "")):
                        bad.append((bb, blk, a.get("fn")))
    chk.floor("calls examined for address rewriting", n, 40)
    for bb, blk, c in bad:
        chk.ob("R4.address_identity", bb.path, f"address rewriting call {core.short(c)}", False,
               f"{c} changes an address between the socket / header and the blacklist comparison: a listed address in its original form no longer matches", where=bb.where(blk))
    chk.ob("R4.address_identity", "humphrey::http::address", "addresses reach the blacklist comparison as parsed / as reported by the socket", not bad, "")


def dispatcher(chk, prog):
    fn = "humphrey_server::server::server::inner_request_handler"
    ms = [m for m in tables.fn_tables(prog, fn) if "RouteType" in m.get("scrut_ty", "")]
    chk.floor("RouteType dispatch table", len(ms), 1)
    if not ms:
        return
    mp, rest, dup = tables.simple_map(ms[0], key_kinds=("path",))
    want = {"File": HANDLERS["file"], "Directory": HANDLERS["directory"], "Proxy": HANDLERS["proxy"], "Redirect": HANDLERS["redirect"]}
    for k, v in mp.items():
        name = tables.variant_name(k)
        if name in want:
            ok = v[0] == "call" and v[1] == want[name]
            if not ok:
                # the arm is a block (`{ let lb = ..; proxy_handler(..) }`): decide on the MIR — the handler's call sites sit under this variant's
                # edge, and no other route handler does
                b_ = prog.bodies.get(fn)
                if b_ is not None:
                    def under(blk_):
                        return [lab for s_, lab, gd, info in core.guards_dominating(prog, b_, blk_) if info and info.get("kind") == "enum" and "RouteType" in (info.get("src_ty") or "")]
                    mine = [blk_ for blk_, t_ in b_.calls() if (t_.get("resolved") or t_.get("callee")) == want[name]]
                    others = [blk_ for blk_, t_ in b_.calls() if (t_.get("resolved") or t_.get("callee")) in want.values() and (t_.get("resolved") or t_.get("callee")) != want[name]]
                    ok = bool(mine) and all(under(x) == [name] for x in mine) and not any(name in under(x) for x in others)
            chk.ob("R2.dispatch", fn, f"RouteType::{name} -> {want[name].split('::')[-1]}", ok, f"dispatches to {v[1] if v[0]=='call' else v[0]}")
        else:
            ok = v[0] == "call" and v[1] and v[1].endswith("Response::new") and v[2] and v[2][0][0] == "path" and v[2][0][1].endswith("NotFound")
            chk.ob("R2.dispatch", fn, f"RouteType::{name} -> constant 404 (no content)", ok, f"yields {v}")
    chk.ob("R2.dispatch", fn, "no catch-all arm", not rest, "")


def block_mode(chk, prog_by_cfg):
    prog = prog_by_cfg["A"]
    fn = "humphrey_server::server::server::verify_connection"
    b = prog.bodies.get(fn)
    chk.floor("verify_connection", 1 if b else 0, 1)
    if b:
        ix = {"blacklist": fidx(prog, "humphrey_server::config::config::Config", "blacklist"),
              "list": fidx(prog, "humphrey_server::config::config::BlacklistConfig", "list"),
              "mode": fidx(prog, "humphrey_server::config::config::BlacklistConfig", "mode")}
        # R-TRUTH (hv/booleval.py): once the peer address is known, the result as a function of M = (mode == Block) and
        # L = list.contains(peer ip) is exactly !(M && L), however it is spelled (nested ifs, a boolean local, its negation, ...)
        from .. import booleval
        from .c01 import some_edge_of
        peer_calls = [blk for blk, t in b.calls_to(r"TcpStream::peer_addr$")]
        chk.floor("peer_addr call in verify_connection", len(peer_calls), 1)
        peer_seen = {"ok": True, "n": 0}

        def atom_of(prog_, body_, blk, t):
            name = t.get("resolved") or t.get("callee") or ""
            args = [core.describe(prog_, body_, a) for a in t.get("args", [])]
            if core.re.search(r"PartialEq(<[^>]*>)?>?::(eq|ne)$", name) and any(core.is_variant(z, "BlacklistMode", "Block") for z in args) and \
                    any(desc_contains(z, lambda y: y[0] == "field" and y[2] == ix["mode"]) for z in args):
                return ("M", name.endswith("::eq"))
            if name.endswith("::contains") and len(args) > 1 and desc_contains(args[0], lambda y: y[0] == "field" and y[2] == ix["list"]):
                peer_seen["n"] += 1
                if not (desc_contains(args[1], lambda y: y[0] == "call" and y[1].endswith("TcpStream::peer_addr")) and
                        desc_contains(args[1], lambda y: y[0] == "call" and y[1].endswith("SocketAddr::ip"))):
                    peer_seen["ok"] = False
                return ("L", True)
            return None
        starts = [tgt for pb in peer_calls for (s_, tgt) in some_edge_of(prog, b, pb, "Ok")]
        chk.floor("Ok edge of peer_addr", len(starts), 1)
        tt = booleval.truth_table(prog, b, starts, atom_of, ["M", "L"]) if starts else {}
        want = {(False, False): {True}, (False, True): {True}, (True, False): {True}, (True, True): {False}}
        found = bool(tt) and tt.get((True, True)) == {False}
        chk.ob("R3.block_mode", fn, "returns false when mode == Block and the peer is listed", found,
               f"result for (mode == Block, listed) = (true, true) is {sorted(map(str, tt.get((True, True), [])))}: a listed peer is let through in block mode")
        for vals in ((False, False), (False, True), (True, False)):
            chk.ob("R3.block_mode", fn, f"`true` is not returned under the listed edge / other peers are accepted: (mode == Block, listed) = {vals}",
                   tt.get(vals) == want[vals], f"result is {sorted(map(str, tt.get(vals, [])))}")
        chk.ob("R3.block_mode", fn, "the address tested is the socket peer address", peer_seen["ok"] and peer_seen["n"] > 0,
               "block mode tests something other than stream.peer_addr().ip()")
    # installed
    mb = prog.bodies.get("humphrey_server::server::server::main")
    chk.floor("server main", 1 if mb else 0, 1)
    if mb:
        inst = [blk for blk, t in mb.calls_to(r"App::<State>::with_connection_condition$")
                if desc_contains(core.describe(prog, mb, t["args"][1]), lambda y: y[0] == "fn" and y[1].endswith("verify_connection"))]
        chk.ob("R3.installed", mb.path, "verify_connection is installed as the connection condition", bool(inst), "")
    # the accept loops respect it
    for cfg, fn_, in (("A", "humphrey::app::App::<State>::run"), ("D", "humphrey::app::App::<State>::run_tls"), ("B", "humphrey::tokio::app::App::<State>::run")):
        pg = prog_by_cfg.get(cfg)
        if pg is None:
            continue
        cands = [pg.impl_body(fn_)] + pg.all_closures_of(fn_) + (pg.all_closures_of(fn_ + "::{closure#0}") if cfg == "B" else [])
        n = 0
        for c in cands:
            if c is None:
                continue
            disp = [blk for blk, t in c.calls_to(r"ThreadPool::execute$|^tokio::spawn$|tokio::task::spawn$")]
            conds = []
            st = "humphrey::app::App" if cfg != "B" else "humphrey::tokio::app::App"
            ci = fidx(pg, st, "connection_condition")
            for blk, t in c.calls():
                if t.get("callee") is None:
                    d = describe(pg, c, t.get("fn_operand"))
                    if desc_contains(d, lambda y: (y[0] == "field" and y[2] == ci) or (y[0] == "upvar" and "connection_condition" in str(y[2]))):
                        conds.append(blk)
            for db in disp:
                # skip spawns that are not connection dispatches (force_https helper)
                dd = describe(pg, c, c.term(db)["args"][-1])
                if not conds:
                    continue
                n += 1
                ok = False
                for cb in conds:
                    sw = core.bool_test_of_call(c, cb)
                    if sw and c.edge_dominates(sw[0], sw[1], db):
                        ok = True
                if not ok:
                    # the verdict travels through a helper's return value / a guard clause (`if !admit(..) { continue }`): on the product with
                    # the boolean store, no dispatch is reachable once the condition has answered `false`
                    from .. import absreach
                    def refused_cannot_dispatch(cb):
                        ct = c.term(cb)
                        dl_ = ct["dest"]["l"] if ct.get("dest") and not ct["dest"]["p"] else None
                        if dl_ is None or ct.get("target") is None or dl_ not in absreach.Store(c, pg).flags:
                            return False
                        # (up to the next connection's verdict: the loop comes round to the condition call again)
                        return db not in absreach.feasible_from(c, [ct["target"]], pg, init={("flag", dl_): False}, stop=set(conds))
                    ok = all(refused_cannot_dispatch(cb) for cb in conds if db in c.reachable(c.succs(cb))) and any(db in c.reachable(c.succs(cb)) for cb in conds)
                if not ok and not any(core.must_pass(c, [cb], [db]) is None and False for cb in conds):
                    # a dispatch not reachable from the condition at all (e.g. the HTTPS redirect helper) is not a connection dispatch
                    reach = any(db in c.reachable(c.succs(cb)) for cb in conds)
                    if not reach:
                        n -= 1
                        continue
                chk.ob("R3.condition_respected", c.path, "connection dispatch dominated by connection_condition == true", ok,
                       "a connection is handed to a handler although the connection condition rejected it", where=c.where(db), cfg=cfg)
        chk.floor(f"condition-guarded dispatch [{cfg}]", n, 1)


def run(chk):
    chk.explanation = (
        "Static decision of C19's structural clauses: in each of the four route handlers every content-producing call is dominated by the not-listed "
        "edge of the blacklist membership test (directly or through a wrapper summarised from its own MIR: Some only = 403 when listed); the "
        "dispatcher reaches content only through those four; block mode: verify_connection returns false under (mode == Block && list.contains(peer "
        "socket address)), is installed as connection condition, and all accept loops dispatch only under its true edge; case analysis over the "
        "Address construction sites shows the tested fields cover the socket peer (not only the client-chosen forwarded address) and origin_addr.")
    chk.not_decided = "what the kernel delivers as peer address; WebSocket proxy routes (not in the property's list)"
    chk.assumptions = ["rustc type checking / MIR construction / callee resolution", "Vec::contains is exact membership"]
    a = chk.use(core.load("A", fresh=(chk.tier == "thorough")))
    ix = {"blacklist": fidx(a, "humphrey_server::config::config::Config", "blacklist"),
          "list": fidx(a, "humphrey_server::config::config::BlacklistConfig", "list"),
          "req_address": fidx(a, "humphrey::http::request::Request", "address")}
    tested = handler_rules(chk, a, ix)
    address_cases(chk, a, ix, tested)
    from . import c02
    c02.xff_elements(chk, a, "A", "R4.forwarded_recorded")
    # "whatever headers it sends": X-Forwarded-For is found under any capitalisation only because header names are matched case-insensitively
    c02.header_table(chk, a, "A")
    from . import shared as _sh
    _sh.every_header_line_stored(chk, a, "R4.every_header_seen", "humphrey::http::request::Request::from_stream_inner", cfg="A")
    _sh.request_address_fixed(chk, a, "R4.address_of_this_request", cfg="A")
    address_identity(chk, a)
    list_file(chk, a)
    dispatcher(chk, a)
    progs = {"A": a, "D": chk.use(core.load("D", fresh=(chk.tier == "thorough"))), "B": chk.use(core.load("B", fresh=(chk.tier == "thorough")))}
    block_mode(chk, progs)


LINES = r"str>?::lines$|core::str::<impl str>::(lines|split|split_terminator|split_inclusive)$"
# what a filter on the lines of the list file may look at without being able to drop an address: emptiness and a comment marker
BENIGN_TEST = r"str>?::(is_empty|trim|trim_start|trim_end|starts_with|len)$|core::str::<impl str>::(is_empty|trim|trim_start|trim_end|starts_with|len)$|::deref$|::as_str$|::as_ref$|::borrow$"


def _benign_filter(prog, clo):
    """A filter predicate that can only drop blank lines and comment lines: its result is built from is_empty / trim / starts_with(<literal>) of
    the line and nothing else."""
    if not (isinstance(clo, tuple) and clo and clo[0] == "closure" and clo[1] in prog.bodies):
        return False
    cb = prog.bodies[clo[1]]
    if prog.all_closures_of(cb.path):
        return False
    for blk, t in cb.calls():
        names = core.callee_names(t)
        if not any(core.re.search(BENIGN_TEST, n_) for n_ in names):
            return False
        if any(n_.endswith("starts_with") for n_ in names):
            pat = describe(prog, cb, t["args"][1]) if len(t["args"]) > 1 else None
            lit = pat[1] if isinstance(pat, tuple) and pat and pat[0] == "lit" else None
            if lit not in (35, 59, "#", ";", "//"):
                return False
    return True


def list_file(chk, prog):
    """R6.list_file: the enforced list is the whole blacklist file.  (a) load_list_file returns one entry per line of the file: the value it
    returns for a file that was read is `lines()` of the text, mapped and collected, with no adapter between that can drop a line which holds
    an address (a filter may only test for emptiness / a comment marker); (b) the configuration parses every entry of that list into
    BlacklistConfig.list: the loop over it covers the whole collection and pushes on every path that goes round again."""
    lf = prog.bodies.get("humphrey_server::config::config::load_list_file")
    chk.floor("load_list_file", 1 if lf else 0, 1)
    if lf:
        d = describe(prog, lf, 0)
        alts = d[1] if d[0] == "multi" else [d]
        n = 0
        for a in alts:
            if not (a[0] == "variant" and a[2] == "Ok"):
                continue
            v = a[3][0] if a[3] else None
            if not desc_contains(v, lambda y: y[0] == "call" and core.re.search(LINES, y[1]) is not None):
                continue
            n += 1
            bad = None
            for c in core.desc_calls(v):
                if core.re.search(PARTIAL, c[1]) or core.re.search(r"::(map_while|scan|flat_map|flatten|chain|peekable|next|nth)$", c[1]):
                    if core.re.search(r"::filter$", c[1]) and len(c[2]) > 1 and _benign_filter(prog, c[2][1]):
                        continue
                    if core.re.search(r"::(flat_map|flatten|chain|peekable)$", c[1]):
                        continue
                    bad = c[1]
            src = [c for c in core.desc_calls(v) if core.re.search(LINES, c[1])]
            whole = all(not desc_contains(c[2][0], lambda y: y[0] == "call" and (core.re.search(PARTIAL, y[1]) or core.re.search(r"Index(Mut)?<[^>]*>>?::index(_mut)?$", y[1]))) for c in src)
            chk.ob("R6.list_file", lf.path, "every line of the list file becomes an entry of the list (only blank / comment lines may be left out)", bad is None and whole,
                   f"the lines pass through {core.short(bad)}" if bad else ("only part of the text is split into lines" if not whole else ""))
        # a loop form (`for line in text.lines() { list.push(..) }`) is decided by the push-on-every-round rule below
        for nb, t in lf.calls_to(r"Iterator>?::next$|Iterator::next$"):
            recv = describe(prog, lf, t["args"][0])
            if not desc_contains(recv, lambda y: y[0] == "call" and core.re.search(LINES, y[1]) is not None):
                continue
            n += 1
            _push_every_round(chk, prog, lf, nb, recv, "every line of the list file becomes an entry of the list")
        chk.floor("load_list_file: list built from the lines of the file", n, 1)
    m = 0
    for p, b in sorted(prog.bodies.items()):
        if b.kind == "closure" or not p.startswith("humphrey_server::config::config::"):
            continue
        for nb, t in b.calls_to(r"Iterator>?::next$|Iterator::next$"):
            recv = describe(prog, b, t["args"][0])
            if not desc_contains(recv, lambda y: y[0] == "call" and y[1].endswith("config::load_list_file")):
                continue
            m += 1
            _push_every_round(chk, prog, b, nb, recv, "every entry of the blacklist file is parsed into BlacklistConfig.list")
        for blk, t in b.calls_to(r"Iterator>?::collect$|Iterator::collect$"):
            recv = describe(prog, b, t["args"][0])
            if not desc_contains(recv, lambda y: y[0] == "call" and y[1].endswith("config::load_list_file")):
                continue
            m += 1
            chk.ob("R6.list_file", p, "every entry of the blacklist file is parsed into BlacklistConfig.list", whole_collection(recv), f"{panics.short_desc(recv)}", where=b.where(blk))
    chk.floor("loops / chains over the loaded blacklist", m, 1)


def _push_every_round(chk, prog, b, nb, recv, what):
    ok_recv = whole_collection(recv)
    edges = some_edge_of(prog, b, nb)
    pushes = [blk for blk, _ in b.calls_to(r"Vec::<T, A>::push$|Vec::<T, A>::insert$|Vec::<T, A>::extend|Extend<[^>]*>>::extend$")]
    w = None
    for (sb, tgt) in edges:
        w = w or core.must_pass(b, [tgt], [nb], through_nodes=pushes, after_from=False)
    chk.ob("R6.list_file", b.path, what, ok_recv and bool(edges) and bool(pushes) and w is None,
           "the loop can go round without adding the entry" if (w or not pushes) else f"the loop covers {panics.short_desc(recv)}", where=b.where(nb), path=w)

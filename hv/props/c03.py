"""C03 — no input can crash, wedge or exhaust a parser (R-PANIC, R-RECUR, R-ALLOC, R-PROGRESS, R-PARTIALREAD)."""
import re

from .. import core, panics
from ..core import describe, desc_contains

ENTRIES_A = [
    "humphrey::http::request::Request::from_stream",
    "humphrey::http::request::Request::from_stream_with_timeout",
    "humphrey::http::request::Request::from_stream_inner",
    "humphrey::http::response::Response::from_stream",
    "humphrey::http::response::parse_chunk",
    "humphrey_ws::frame::Frame::from_stream",
    "humphrey_ws::frame::Frame::from_stream_nonblocking",
    "humphrey_ws::frame::Frame::from_stream_inner",
    "humphrey_ws::message::Message::from_stream",
    "humphrey_ws::message::Message::from_stream_nonblocking",
    "humphrey_json::parser::<impl humphrey_json::value::Value>::parse",
    "humphrey_json::parser::<impl humphrey_json::value::Value>::parse_max_depth",
    "humphrey_server::config::tree::parse_conf",
    "humphrey_server::config::config::Config::from_tree",
]
ENTRIES_B = [
    "humphrey::http::request::Request::from_stream",
    "humphrey::http::request::Request::from_stream_inner",
]

CONSUME = (r"(Read::read_exact|Read::read|BufRead::read_until|BufRead::read_line|AsyncReadExt::read_exact|AsyncBufReadExt::read_until|"
           r"Iterator>?::next|Iterator::next|::next_back|Peekable::<I>::next_if|Peekable::<I>::next_if_eq|mpsc::Receiver::<T>::recv|Read::read_to_end|Read::read_to_string|"
           r"Iterator::(for_each|fold|collect|any|all|find|position|count|last|sum)|Iterator>::(fold|for_each|collect))$")
LENGTH_SRC = r"<impl str>::parse$|from_str_radix$|::from_be_bytes$|::from_le_bytes$|::from_ne_bytes$|FromStr::from_str$"
ALLOC_SINK = r"^std::vec::from_elem$|Vec::<T>::with_capacity$|Vec::<T, A>::(with_capacity_in|reserve|reserve_exact|resize)$|String::(with_capacity|reserve)$|VecDeque::<T>::with_capacity$"


def check_allow_cond(prog, site, entry, reach):
    """Machine-check the condition attached to a reviewed allow entry. Returns (ok, why)."""
    cond = entry.get("cond", {})
    body, blk = site.body, site.block
    if "guard" in cond:
        # (a list of guards: any one of the equivalent spellings of the same test)
        alts = cond["guard"] if isinstance(cond["guard"], list) else [cond["guard"]]
        for g in alts:
            rx = re.compile(g["call"])
            for s, lab, d, info in core.guards_dominating(prog, body, blk):
                if lab != g["label"]:
                    continue
                hit = [c for c in core.desc_calls(d) if rx.search(c[1])]
                if not hit:
                    continue
                if "lit" in g and not desc_contains(d, lambda y: y == ("lit", g["lit"])):
                    continue
                return True, f"dominated by the {lab} edge of {g['call']}"
        g = alts[0]
        return False, f"the guard ({g['label']} edge of a test calling {g['call']}) no longer dominates the site"
    if "callee_ok_variant" in cond:
        c = cond["callee_ok_variant"]
        fb = prog.bodies.get(c["fn"])
        if not fb:
            return False, f"{c['fn']} not found"
        oks = core.ok_return_blocks(fb, "Ok")
        if not oks:
            return False, "no Ok return"
        for ob in oks:
            for s_ in fb.blocks[ob]["stmts"]:
                rv = s_.get("rv")
                if rv and rv.get("k") == "agg" and rv.get("variant") == "Ok" and s_["pl"]["l"] == 0:
                    d = core.describe(prog, fb, rv["ops"][0])
                    if not (d[0] == "variant" and d[2] == c["variant"]):
                        return False, f"{c['fn']} can return Ok({d[0]} {d[2] if len(d) > 2 else ''})"
        return True, f"every Ok of {c['fn'].split('::')[-1]} carries {c['variant']}"
    if "callers_guard" in cond:
        g = cond["callers_guard"]
        rx = re.compile(g["call"])
        n = 0
        for p in reach:
            cb = prog.bodies[p]
            for cblk, t in cb.calls():
                if body.path in core.callee_names(t):
                    n += 1
                    ok = False
                    for s, lab, d, info in core.guards_dominating(prog, cb, cblk):
                        if lab == g["label"] and any(rx.search(c[1]) for c in core.desc_calls(d)):
                            ok = True
                    if not ok:
                        return False, f"call from {cb.path} is not dominated by the {g['label']} edge of {g['call']}"
        return (n > 0), f"all {n} call sites dominated by the {g['label']} edge of {g['call']}"
    if "callee_some" in cond:
        fb = prog.bodies.get(cond["callee_some"])
        if not fb:
            return False, f"{cond['callee_some']} not found"
        nones = core.ok_return_blocks(fb, "None")
        somes = core.ok_return_blocks(fb, "Some")
        return (bool(somes) and not nones), f"{cond['callee_some'].split('::')[-1]} returns Some on every path"
    if "field_built_from" in cond:
        c = cond["field_built_from"]
        rx = re.compile(c["call"])
        n = 0
        for p, b in prog.bodies.items():
            if " as std::clone::Clone>::clone" in p:
                continue  # a clone preserves the field
            for blk in b.blocks:
                for s_ in blk["stmts"]:
                    rv = s_.get("rv")
                    if rv and rv.get("k") == "agg" and rv.get("adt") == c["struct"]:
                        n += 1
                        i = rv["fields"].index(c["field"])
                        d = core.describe(prog, b, rv["ops"][i])
                        if not any(rx.search(x[1]) for x in core.desc_calls(d)):
                            return False, f"{c['struct']} is built in {p} with {c['field']} = {d[0]}"
        return n > 0, f"all {n} construction sites of {c['struct'].split('::')[-1]} build {c['field']} from {c['call']}"
    if "assume" in cond:
        return True, "assumption: " + cond["assume"]
    return False, "allow entry has no checkable condition"


def panic_rule(chk, prog, cfg, entries):
    found = [e for e in entries if e in prog.bodies]
    chk.floor(f"parser entry points [{cfg}]", len(found), len(entries))
    bodies, sites = panics.inventory(prog, found)
    allow = panics.load_allow()
    chk.extra.setdefault("panic_inventory", {})[cfg] = {"bodies": len(bodies), "sites": len(sites)}
    classes = {}
    for s in sites:
        chk.call_sites += 1
        how, why = panics.try_discharge(prog, s)
        fp = s.fingerprint
        if how is None and fp in allow:
            ok, why2 = check_allow_cond(prog, s, allow[fp], bodies)
            if ok:
                how, why = "reviewed", f"{allow[fp]['reason']} [{why2}]"
            else:
                why = f"reviewed entry no longer applies: {why2}"
        classes[how or "open"] = classes.get(how or "open", 0) + 1
        site_label = fp.split("|", 1)[1]
        chk.ob("PANIC", s.body.path, site_label, how is not None,
               f"may panic on input: {s.kind} {s.what} ({why or 'no discharge idiom applies'})" if how is None else f"{how}: {why}",
               where=s.where(), cfg=cfg)
    chk.extra["panic_inventory"][cfg]["by_discharge"] = classes
    chk.floor(f"panic sites inventoried [{cfg}]", len(sites), 15 if cfg == "A" else 1)
    return bodies


def is_depth_gate(prog, fb):
    """fn(&mut self) -> Result: Ok only under the false edge of `counter ==/>= bound`, and it increments the counter."""
    oks = core.ok_return_blocks(fb, "Ok")
    if not oks:
        return False
    inc = any(blk["term"] and blk["term"]["k"] == "assert" and blk["term"]["akind"] == "overflow:Add" for blk in fb.blocks)
    if not inc:
        return False
    for ob in oks:
        good = False
        for s, lab, d, info in core.guards_dominating(prog, fb, ob):
            if d[0] == "bin" and ((d[1] in ("Eq", "Ge", "Gt") and lab == "false") or (d[1] in ("Lt", "Ne", "Le") and lab == "true")):
                good = True
        if not good:
            return False
    return True


def recursion_rule(chk, prog, cfg, bodies):
    """Every call-graph cycle among the parser bodies has a depth-guarded edge."""
    edges = {}
    for p in bodies:
        b = prog.bodies[p]
        for blk, t in b.calls():
            for n in core.callee_names(t):
                if n in bodies:
                    edges.setdefault(p, []).append((n, blk))
        for c in prog.closures_of(p):
            if c.path in bodies:
                edges.setdefault(p, []).append((c.path, None))
    gates = {p for p in prog.bodies if "promoted" not in p and prog.bodies[p].kind == "fn" or prog.bodies[p].kind == "method"}
    gates = {p for p in gates if is_depth_gate(prog, prog.bodies[p])}
    chk.extra.setdefault("depth_gates", {})[cfg] = sorted(gates)

    def guarded(p, blk):
        if blk is None:
            return False
        b = prog.bodies[p]
        for s, lab, d, info in core.guards_dominating(prog, b, blk):
            if lab in ("Continue", "Ok") and any(c[1] in gates for c in core.desc_calls(d)):
                return True
        return False
    # graph without guarded edges
    g = {p: set(n for n, blk in es if not guarded(p, blk)) for p, es in edges.items()}
    # find cycles (SCCs) in g
    idx, low, st, on, sccs, counter = {}, {}, [], set(), [], [0]

    def strong(v):
        stack = [(v, iter(g.get(v, ())))]
        idx[v] = low[v] = counter[0]
        counter[0] += 1
        st.append(v)
        on.add(v)
        while stack:
            u, it = stack[-1]
            adv = False
            for w in it:
                if w not in idx:
                    idx[w] = low[w] = counter[0]
                    counter[0] += 1
                    st.append(w)
                    on.add(w)
                    stack.append((w, iter(g.get(w, ()))))
                    adv = True
                    break
                elif w in on:
                    low[u] = min(low[u], idx[w])
            if not adv:
                stack.pop()
                if stack:
                    low[stack[-1][0]] = min(low[stack[-1][0]], low[u])
                if low[u] == idx[u]:
                    comp = []
                    while True:
                        w = st.pop()
                        on.discard(w)
                        comp.append(w)
                        if w == u:
                            break
                    sccs.append(comp)
    for v in list(g):
        if v not in idx:
            strong(v)
    all_cycles = 0
    # cycles in the full graph, for the count
    full = {p: set(n for n, blk in es) for p, es in edges.items()}
    rec_fns = set()
    for p in full:
        seen = set()
        work = list(full.get(p, ()))
        while work:
            q = work.pop()
            if q in seen:
                continue
            seen.add(q)
            work.extend(full.get(q, ()))
        if p in seen:
            rec_fns.add(p)
    chk.extra.setdefault("recursive_functions", {})[cfg] = sorted(rec_fns)
    bad = [c for c in sccs if len(c) > 1 or (c[0] in g.get(c[0], ()))]
    for comp in bad:
        # the finding is named after the functions of the cycle that exist on the pinned tree (helpers split off later do not rename it)
        new_fns = set(getattr(prog, "new_functions", []) or [])
        names = sorted(n for n in comp if n not in new_fns) or sorted(comp)
        chk.ob("RECUR", names[0], "recursion cycle without depth guard: " + " -> ".join(core.short(n).split("::")[-1] for n in names), False,
               "nesting depth chosen by the input drives unbounded recursion (stack overflow aborts the process); cycle: " + " -> ".join(core.short(n).split("::")[-1] for n in sorted(comp)),
               where=prog.bodies[names[0]].file, cfg=cfg)
    guarded_cycles = rec_fns - set(x for c in bad for x in c)
    for p in sorted(guarded_cycles):
        chk.ob("RECUR", p, "recursive function: every cycle through it passes a depth gate", True, cfg=cfg)
    if cfg == "A":
        d = core.const_value(prog, "humphrey_json::parser::MAX_DEPTH")
        chk.floor("JSON MAX_DEPTH constant", 1 if d else 0, 1)
        if d:
            chk.ob("RECUR", "humphrey_json::parser::MAX_DEPTH", "MAX_DEPTH <= 1024", d[0] == "lit" and isinstance(d[1], int) and d[1] <= 1024,
                   f"MAX_DEPTH = {d}: the default depth limit no longer protects the stack", cfg=cfg)
        chk.floor("recursive parser functions [A]", len(rec_fns), 3)


def repeatable(prog, chk, cfg):
    """functions that run once per token / element: the recursive parser functions and everything they call"""
    rec = chk.extra.get("recursive_functions", {}).get(cfg, [])
    return prog.reach_bodies([r for r in rec if r in prog.bodies]) if rec else set()


def alloc_rule(chk, prog, cfg, bodies):
    n = 0
    n_rest = [0]
    seen_sites = {}
    for p in sorted(bodies):
        b = prog.bodies[p]
        if "promoted" in p:
            continue
        for blk, t in b.calls_to(ALLOC_SINK):
            chk.call_sites += 1
            size_op = t["args"][-1] if core.call_matches(t, r"from_elem$|with_capacity|resize$") is False else (t["args"][1] if core.call_matches(t, r"from_elem$|reserve|resize$") else t["args"][0])
            if core.call_matches(t, r"^std::vec::from_elem$"):
                size_op = t["args"][1]
            elif core.call_matches(t, r"(reserve|reserve_exact|resize)$"):
                size_op = t["args"][1]
            else:
                size_op = t["args"][0]
            d = describe(prog, b, size_op)
            srcs = [c for c in core.desc_calls(d) if re.search(LENGTH_SRC, c[1])]
            # a buffer sized by what is LEFT of the input (size_hint / count / as_str().len() of the input cursor), allocated once per token or
            # element (the function runs inside the parser's recursion): the values of one document then hold memory quadratic in its length
            rest = [c for c in core.desc_calls(d) if re.search(r"(Iterator>?::size_hint|Iterator::size_hint|Iterator>?::count|Iterator::count|Chars::<'a>::as_str|Chars::as_str|ExactSizeIterator::len|ExactSizeIterator>::len)$", c[1])]
            if rest:
                n_rest[0] += 1
                rep = repeatable(prog, chk, cfg)
                if p in rep:
                    chk.ob("ALLOC", p, f"allocation per token sized by the remaining input: {t['callee'].split('::')[-1]} sized by {'/'.join(sorted(set(c[1].split('::')[-1] for c in rest)))}", False,
                           f"{t['callee'].split('::')[-1]}({panics.short_desc(d)}): every token / element reserves as much as is left of the input, so a document of n bytes "
                           "holding many small values keeps O(n^2) bytes allocated: memory is no longer bounded by a constant multiple of the bytes supplied",
                           where=b.where(blk), cfg=cfg)
            if not srcs:
                continue
            n += 1
            bounded = desc_contains(d, lambda y: y[0] == "call" and re.search(r"::(min|clamp)$", y[1]) is not None)
            if not bounded:
                for (a, op, r_) in panics.cmp_facts(prog, b, blk):
                    if a == panics._strip(d) and op in ("<", "<=") and (panics._const_int(r_) is not None or panics._len_of(r_) is not None):
                        bounded = True
            label = f"{t['callee'].split('::')[-1]}({panics.short_desc(d)})"
            # the finding is keyed by what is allocated from what kind of claimed number, not by the expression's spelling
            kinds = sorted(set(c[1].split("::")[-1] for c in srcs))
            site = f"{t['callee'].split('::')[-1]} sized by {'/'.join(kinds)}"
            seen_sites[(p, site)] = seen_sites.get((p, site), 0) + 1
            if seen_sites[(p, site)] > 1:
                site += f" #{seen_sites[(p, site)]}"
            chk.ob("ALLOC", p, f"allocation sized by a claimed length: {site}", bounded,
                   f"{label}: the size is a number parsed from the peer ({srcs[0][1].split('::')[-1]}) with no upper bound: a few header bytes "
                   f"make the parser allocate (and zero) that much memory before any payload arrives", where=b.where(blk), cfg=cfg)
    chk.floor(f"claimed-length allocation sites [{cfg}]", n, 4 if cfg == "A" else 1)


def _consuming_bodies(prog, bodies):
    direct = set()
    for p in bodies:
        if prog.bodies[p].calls_to(CONSUME):
            direct.add(p)
    # transitive: a body that calls a consuming body
    changed = True
    cons = set(direct)
    while changed:
        changed = False
        for p in bodies:
            if p in cons:
                continue
            if prog.local_callees(prog.bodies[p]) & cons:
                cons.add(p)
                changed = True
    return cons


def progress_rule(chk, prog, cfg, bodies):
    cons = _consuming_bodies(prog, bodies)
    loops = 0
    for p in sorted(bodies):
        b = prog.bodies[p]
        if "promoted" in p:
            continue
        # loop headers: targets of back edges (DFS)
        heads = set()
        color = {}
        stack = [(0, iter(b.succs(0)))]
        color[0] = 1
        while stack:
            u, it = stack[-1]
            adv = False
            for w in it:
                if color.get(w) == 1:
                    heads.add(w)
                elif w not in color:
                    color[w] = 1
                    stack.append((w, iter(b.succs(w))))
                    adv = True
                    break
            if not adv:
                color[u] = 2
                stack.pop()
        if not heads:
            continue
        cnodes = set()
        for blk, t in b.calls():
            if core.call_matches(t, CONSUME) or any(n in cons for n in core.callee_names(t)):
                cnodes.add(blk)
        for h in sorted(heads):
            loops += 1
            # await loops (poll/yield) are progress of the executor, not of the parser
            w = core.must_pass(b, [h], [h], through_nodes=cnodes | _yield_blocks(b))
            chk.ob("PROGRESS", p, f"loop#{sorted(heads).index(h)}: every cycle consumes input", w is None,
                   "a cycle of this loop consumes no input: some input can make the parser spin forever", where=b.where(h), path=w, cfg=cfg)
    chk.floor(f"parser loops [{cfg}]", loops, 10 if cfg == "A" else 3)
    # end of input: a cycle whose read reports Ok(0) must leave the loop (abstract execution of the EOF scenario)
    from .. import eofscan
    n_eof = n_und = 0
    stream_readers = {p for p in cons if prog.bodies[p].kind not in ("closure", "coroutine") and
                      any(prog.bodies[q].calls_to(eofscan.EOF_READ + "|(Read::read_exact|AsyncReadExt::read_exact)$") for q in prog.reach_bodies([p]))}
    for p in sorted(bodies):
        b = prog.bodies[p]
        if "promoted" in p:
            continue
        for r, verdict, detail in eofscan.scan(prog, b, stream_readers):
            n_eof += 1
            name = core.short(b.term(r)["callee"])
            chk.extra.setdefault("eof_scenario_examined", []).append(f"{cfg}|{p}|{name}@{b.where(r)}: {verdict}")
            if verdict == "undecided":
                n_und += 1
                chk.extra.setdefault("eof_scenario_undecided", []).append(f"{cfg}|{p}|{name}: {detail}")
                continue
            chk.ob("PROGRESS.eof", p, f"loop around {name}: at end of input (Ok(0), buffer unchanged) the cycle leaves the loop", verdict == "exit",
                   "at end of input this loop comes back to the same read with every branch decided: a truncated message makes the parser spin forever",
                   where=b.where(r), path=[b.where(x) for x in detail][:12] if verdict == "spin" else None, cfg=cfg)
    # (vacuity guard on the workspace configuration; the tokio configuration repeats one of its loops, which an `async fn` helper
    # between the loop and the read can hide from the scenario)
    if cfg == "A":
        chk.floor(f"read loops examined at end of input [{cfg}]", n_eof - n_und, 2)


def _yield_blocks(b):
    return {i for i, blk in enumerate(b.blocks) if blk["term"] and blk["term"]["k"] == "yield"}


def partial_read_rule(chk, prog, cfg, bodies):
    n = 0
    for p in sorted(bodies):
        b = prog.bodies[p]
        for blk, t in b.calls_to(r"(^|::)std::io::Read::read$|AsyncReadExt::read$"):
            n += 1
            dest = t["dest"]["l"]
            # how is Ok(n) used? find reads of ((dest as Ok).0)
            used_as_bound = False
            only_zero = True
            for b2, blk2 in enumerate(b.blocks):
                for s in blk2["stmts"]:
                    if "rv" not in s:
                        continue
                    rv = s["rv"]
                    for o in ([rv.get("o")] if rv["k"] in ("use", "cast") else [rv.get("l"), rv.get("r")] if rv["k"] == "bin" else []):
                        pl = core.op_place(o) if o else None
                        if pl and pl["l"] == dest and any(e[0] == "dc" and e[1] == "Ok" for e in pl["p"]):
                            used_as_bound = True
                t2 = blk2["term"]
                if t2 and t2["k"] == "switch":
                    pl = core.op_place(t2["discr"])
                    if pl and pl["l"] == dest and any(e[0] == "dc" and e[1] == "Ok" for e in pl["p"]):
                        vals = [v for v, _ in t2["targets"]]
                        if vals != [0]:
                            only_zero = False
            # a Read impl that forwards the inner stream's result unchanged hands the count to its caller
            if not used_as_bound:
                d0 = core.describe(prog, b, 0)
                if desc_contains(d0, lambda y: y[0] == "call" and len(y) > 3 and y[3] == blk):
                    used_as_bound = True
            ok = used_as_bound
            chk.ob("PARTIALREAD", p, "count returned by Read::read flows into a bound", ok,
                   "the result of a bare read() is only matched against 0: a short read (0 < n < requested) is treated as a full buffer, "
                   "so a frame header split across TCP segments is parsed from garbage", where=b.where(blk), cfg=cfg)
    if cfg == "A":
        chk.floor("bare read sites in the parsers [A]", n, 1)


def matcher_affix_assumption(chk, prog, cfg, rid="ASSUME.matcher_affixes"):
    """The panic inventory discharges `value[1..value.len() - 1]` in the configuration parser by the guard `wildcard_match("\"*\"", value)`:
    a match of `P*S` is taken to mean that the text has room for P and S side by side (len >= |P| + |S|).  The character-by-character
    matcher has that property by construction (every literal character of the pattern consumes its own character of the text).  A matcher
    that tests the two ends independently — `tame.starts_with(prefix) && tame.ends_with(suffix)` — does not: `"` matches `"*"`, and the slice
    panics.  If the matcher looks at both ends of the text with starts_with / ends_with, a comparison of the text's length with a sum must
    accompany it."""
    b = prog.bodies.get("humphrey::krauss::wildcard_match")
    chk.floor(f"krauss::wildcard_match [{cfg}]", 1 if b else 0, 1)
    if not b:
        return
    fam = [b] + prog.all_closures_of(b.path)
    def on_text(bb, t):
        d = core.describe(prog, bb, t["args"][0]) if t["args"] else None
        return d is not None and core.desc_contains(d, lambda y: y[0] == "param" and y[1] == 2) or (bb is not b)
    st = [(bb, blk) for bb in fam for blk, t in bb.calls_to(r"str>?::starts_with$|<impl str>::starts_with$|::strip_prefix$") if on_text(bb, t)]
    en = [(bb, blk) for bb in fam for blk, t in bb.calls_to(r"str>?::ends_with$|<impl str>::ends_with$|::strip_suffix$") if on_text(bb, t)]
    guarded = False
    for bb in fam:
        for blk in bb.blocks:
            for s_ in blk["stmts"]:
                rv = s_.get("rv")
                if rv and rv.get("k") == "bin" and rv.get("op") in ("Lt", "Le", "Gt", "Ge"):
                    l_, r_ = core.describe(prog, bb, rv["l"]), core.describe(prog, bb, rv["r"])
                    has_len = lambda d: core.desc_contains(d, lambda y: y[0] == "call" and str(y[1]).endswith("::len"))
                    has_sum = lambda d: core.desc_contains(d, lambda y: y[0] == "bin" and str(y[1]).startswith("Add"))
                    if (has_len(l_) and has_sum(r_)) or (has_len(r_) and has_sum(l_)):
                        guarded = True
    both = bool(st) and bool(en)
    chk.ob(rid, b.path, "a match of P*S leaves room for P and S side by side (both ends are not tested independently without a length test)", not both or guarded,
           "the matcher accepts when the text starts with the part before `*` and ends with the part after it, without comparing the text's length with the sum of the two: "
           "the two parts may overlap (`\"` matches `\"*\"`), and the configuration parser's `value[1..value.len() - 1]` behind that guard panics",
           where=b.where(st[0][1]) if st and st[0][0] is b else "", cfg=cfg)


def run(chk):
    chk.explanation = (
        "Static decision over the call graphs of the 16 parser entry points (14 in the default build, the 2 async request-parser entries in the tokio build): "
        "R-PANIC inventories every site that can panic (MIR Assert terminators for overflow/bounds/div, panicking std APIs, panic!/assert!) and discharges each "
        "by constant/interval reasoning, dominating guards on the same value (incl. repo assert wrappers recognised from their own MIR), "
        "infallible-by-construction idioms, or a reviewed table entry whose guard condition is re-checked; R-RECUR requires a depth gate on every "
        "call-graph cycle; R-ALLOC rejects allocations sized by an unbounded peer-claimed length; R-PROGRESS requires every loop cycle to consume input; "
        "R-PARTIALREAD requires the count of a bare read() to be used.")
    chk.not_decided = "wall-clock bounds; allocation inside std; termination beyond R-PROGRESS; panics inside std not listed in the panicking-API table"
    chk.assumptions = ["rustc type checking / MIR construction (overflow and bounds checks are explicit Assert terminators in the dev profile)",
                       "the frozen panicking-API table in hv/panics.py", "entries of allow/panic_sites.json (each with a machine-checked condition or a stated assumption)"]
    a = chk.use(core.load("A", fresh=(chk.tier == "thorough")))
    bodies = panic_rule(chk, a, "A", ENTRIES_A)
    recursion_rule(chk, a, "A", bodies)
    alloc_rule(chk, a, "A", bodies)
    progress_rule(chk, a, "A", bodies)
    partial_read_rule(chk, a, "A", bodies)
    matcher_affix_assumption(chk, a, "A")
    b = chk.use(core.load("B", fresh=(chk.tier == "thorough")))
    bodies_b = panic_rule(chk, b, "B", ENTRIES_B)
    alloc_rule(chk, b, "B", bodies_b)
    progress_rule(chk, b, "B", bodies_b)

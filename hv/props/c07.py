"""C07 — responses serialise to valid HTTP and parse back; client returns what was sent.

Decided (DESIGN.md §4 C07): R1 status tables, R2 header order, R3 Set-Cookie completeness,
R4 chunked fix-up, R5 redirect set, R6 nothing after the body."""
import json
import os

from .. import core, tables, fmt, panics
from ..core import describe, is_variant
from . import shared

ORACLES = os.path.join(os.path.dirname(os.path.dirname(os.path.dirname(os.path.abspath(__file__)))), "oracles")


def status_tables(chk, prog):
    """R1: TryFrom<u16>, From<StatusCode> for u16, From<StatusCode> for &str."""
    enum = prog.enums.get("humphrey::http::status::StatusCode")
    variants = [v["name"] for v in enum["variants"]] if enum else []
    chk.floor("StatusCode variants", len(variants), 39)
    fns = {
        "try_from": prog.impl_fn(r"^<humphrey::http::status::StatusCode as std::convert::TryFrom<u16>>$", "try_from"),
        "to_u16": prog.impl_fn(r"^<u16 as std::convert::From<humphrey::http::status::StatusCode>>$", "from"),
        "to_str": prog.impl_fn(r"^<&str as std::convert::From<humphrey::http::status::StatusCode>>$", "from"),
    }
    for k, v in fns.items():
        chk.floor(f"status table fn {k}", len(v), 1)
    if not all(fns.values()):
        return None
    with open(os.path.join(ORACLES, "http_status.json")) as fh:
        oracle = {int(k): v for k, v in json.load(fh).items() if not k.startswith("_")}

    # code -> variant
    f = fns["try_from"][0]
    m = tables.main_table(prog, f)
    code2var, rest, dup = tables.simple_map(m, key_kinds=("lit",))
    c2v = {}
    for code, val in code2var.items():
        inner = tables.unwrap_arm(prog, f, val, "Ok")
        ok = inner is not None and inner[0] == "path"
        chk.ob("R1.try_from.arm", f, f"code={code}", ok, "arm does not yield Ok(<StatusCode variant>)", where=prog.hir[f]["file"])
        if ok:
            c2v[code] = tables.variant_name(inner[1])
    for keys, guard, val, line in rest:
        is_err = tables.is_err_arm(val)
        chk.ob("R1.try_from.rest", f, f"keys={keys}", is_err and keys == [("rest",)],
               "every code that is not a listed literal must map to Err", where=f"{prog.hir[f]['file']}:{line}")
    chk.ob("R1.try_from.has_rest", f, "wildcard->Err", any(k == [("rest",)] for k, _, _, _ in rest), "no catch-all Err arm")
    # variant -> code, variant -> phrase: from the `match` in the source when its arms are literals, else from the MIR (one shared `match`
    # returning (code, phrase) behind accessor helpers reads like the two tables it replaced)
    def enum_table(fn_path, want_ty, label):
        m_ = tables.main_table(prog, fn_path)
        mp_, rest_, _ = tables.simple_map(m_, key_kinds=("path",)) if m_ is not None else ({}, [], None)
        lits = {tables.variant_name(vp): val[1] for vp, val in mp_.items() if val[0] == "lit" and isinstance(val[1], want_ty)}
        if len(lits) == len(mp_) and len(lits) >= len(variants) and not rest_:
            return lits, rest_, "source match"
        vm = tables.variant_map_mir(prog, fn_path)
        if vm and all(v[0] == "lit" and isinstance(v[1], want_ty) for v in vm.values()):
            return {k: v[1] for k, v in vm.items()}, [], "MIR"
        for vp, val in mp_.items():
            chk.ob(f"R1.{label}.arm", fn_path, f"variant={tables.variant_name(vp)}", val[0] == "lit" and isinstance(val[1], want_ty), "arm is not a literal of the expected type")
        return lits, rest_, "source match"
    g = fns["to_u16"][0]
    v2c, rest2, how2 = enum_table(g, int, "to_u16")
    for v_ in sorted(v2c):
        chk.ob("R1.to_u16.arm", g, f"variant={v_}", True)
    chk.ob("R1.to_u16.no_wildcard", g, "no catch-all", not rest2, f"unexpected catch-all / non-variant arms: {[(k) for k, _, _, _ in rest2]}")
    h = fns["to_str"][0]
    v2s, rest3, how3 = enum_table(h, str, "to_str")
    chk.ob("R1.to_str.no_wildcard", h, "no catch-all", not rest3, "reason-phrase table has a catch-all arm")
    chk.extra["status_tables_read_from"] = {"to_u16": how2, "to_str": how3}

    for v in variants:
        # totality + inverse
        codes = [c for c, vv in c2v.items() if vv == v]
        chk.ob("R1.total", "StatusCode", f"{v}: decodable", len(codes) == 1,
               f"variant {v} is produced by {len(codes)} codes {codes} in TryFrom<u16> (expected exactly 1)")
        chk.ob("R1.total", "StatusCode", f"{v}: encodable", v in v2c, f"variant {v} missing from From<StatusCode> for u16")
        if len(codes) == 1 and v in v2c:
            chk.ob("R1.inverse", "StatusCode", f"{v}: try_from(u16::from(v)) == v", codes[0] == v2c[v],
                   f"{v} encodes to {v2c[v]} but {codes[0]} decodes to it")
        if v in v2c:
            code = v2c[v]
            chk.ob("R1.range", "StatusCode", f"{v}: 100..=599", 100 <= code <= 599, f"code {code} outside 100..599")
            phrase = v2s.get(v)
            chk.ob("R1.phrase", "StatusCode", f"{v}: registered reason phrase", phrase is not None and phrase in oracle.get(code, []),
                   f"code {code} has reason phrase {phrase!r}; registry has {oracle.get(code)}")
    # injectivity of variant->code
    inv = {}
    for v, c in v2c.items():
        inv.setdefault(c, []).append(v)
    for c, vs in inv.items():
        chk.ob("R1.injective", "StatusCode", f"code {c} unique", len(vs) == 1, f"code {c} is emitted for variants {vs}")
    return {"v2c": v2c, "c2v": c2v}


def set_cookie(chk, prog):
    """R3: From<SetCookie> for Header reads every field; SameSite strings; attribute names."""
    fs = prog.impl_fn(r"^<humphrey::http::headers::Header as std::convert::From<humphrey::http::cookie::SetCookie>>$", "from")
    chk.floor("From<SetCookie> for Header", len(fs), 1)
    if not fs:
        return
    f = fs[0]
    body = prog.bodies[f]
    st = prog.structs.get("humphrey::http::cookie::SetCookie")
    fields = [x["name"] for x in st["fields"]] if st else []
    chk.floor("SetCookie fields", len(fields), 9)
    read = set()
    read_at = {}
    for bi, blk in enumerate(body.blocks):
        for s in blk["stmts"]:
            if "pl" not in s:
                continue
            rv = s["rv"]
            pls = []
            if rv["k"] in ("ref", "discr"):
                pls.append(rv["pl"])
            elif rv["k"] in ("use", "cast"):
                if core.op_place(rv["o"]):
                    pls.append(core.op_place(rv["o"]))
            for pl in pls:
                if pl["l"] == 1 and pl["p"] and pl["p"][0][0] == "f":
                    read.add(pl["p"][0][1])
                    read_at.setdefault(pl["p"][0][1], set()).add(bi)
        t = blk["term"]
        if t and t["k"] == "switch":
            pl = core.op_place(t["discr"])
            if pl and pl["l"] == 1 and pl["p"] and pl["p"][0][0] == "f":
                read.add(pl["p"][0][1])
                read_at.setdefault(pl["p"][0][1], set()).add(bi)
    rets = core.return_blocks(body)
    for i, name in enumerate(fields):
        chk.ob("R3.fields", f, f"field {name} read", i in read, f"SetCookie.{name} is never read by the Set-Cookie serialiser (attribute silently dropped)", where=body.file)
        if i in read:
            w = core.must_pass(body, [0], rets, through_nodes=sorted(read_at[i]), after_from=False)
            chk.ob("R3.independent", f, f"field {name} is looked at on every path (its attribute does not depend on another attribute being absent)", w is None,
                   f"SetCookie.{name} is only consulted on some paths: for some combination of the other attributes it is silently dropped", where=body.file, path=w)
    lits = " ".join(fmt.format_literals(body))
    # attribute names may also be appended with push_str("; Name=") instead of format!: every string constant of the function counts
    for fam_b in [body] + prog.all_closures_of(f) + [prog.bodies[h_] for h_ in getattr(prog, "inlined", {}).get(f, []) if h_ in prog.bodies]:
        for blk_ in fam_b.blocks:
            cands = []
            for st_ in blk_["stmts"]:
                rv_ = st_.get("rv") or {}
                cands += [rv_.get("o")] + list(rv_.get("ops") or [])
            t_ = blk_["term"]
            if t_ and t_["k"] == "call":
                cands += t_["args"]
            for o_ in cands:
                if isinstance(o_, dict) and o_.get("k") == "const" and isinstance(o_.get("v"), str):
                    lits += " " + o_["v"]
    # the pieces may also be collected and joined: `parts.join("; ")`
    joined = any(core.describe(prog, body, t_["args"][1]) == ("lit", "; ") for _, t_ in body.calls_to(r"(<impl \[\S+\]>|slice::<impl \[\S+\]>|Join<.*>>?)::join$|::join$") if len(t_["args"]) > 1)
    for attr in ("Expires=", "Max-Age=", "Domain=", "Path=", "SameSite=", "Secure", "HttpOnly"):
        chk.ob("R3.attr", f, f"attribute {attr}", ("; " + attr) in lits or (joined and attr in lits),
               f"no format piece '; {attr}' in the serialiser (RFC 6265 §4.1.1 attribute names)")
    # SameSite table
    ms = [m for m in tables.fn_tables(prog, f) if "SameSite" in m.get("scrut_ty", "")]
    chk.floor("SameSite table", len(ms), 1)
    if ms:
        mp, rest, dup = tables.simple_map(ms[0], key_kinds=("path",))
        for vp, val in mp.items():
            v = tables.variant_name(vp)
            chk.ob("R3.samesite", f, f"SameSite::{v}", val == ("lit", v), f"SameSite::{v} serialises as {val}")
        chk.ob("R3.samesite", f, "all three variants", len(mp) == 3 and not rest, f"table covers {sorted(mp)} rest={len(rest)}")


def head_line_breaks(chk, prog):
    """R6.line_breaks: "status line, one line per header, blank line, body" for ANY number of headers, zero included.  Counted on the serialiser:
    the CRLFs written unconditionally outside the header loop are exactly two (end of the status line and the blank line, in whatever grouping),
    every header iteration writes exactly one, and no `join("\r\n")` stands in for the loop (n headers give n-1 separators, so the count cannot be
    right for both n = 0 and n > 0)."""
    fs = prog.impl_fn(r"^<std::vec::Vec<u8> as std::convert::From<humphrey::http::response::Response>>$", "from")
    chk.floor("From<Response> for Vec<u8>", len(fs), 1)
    if not fs:
        return
    b = prog.bodies[fs[0]]
    rets = core.return_blocks(b)

    def crlfs(d):
        if isinstance(d, tuple) and d and d[0] == "lit":
            v = d[1]
            if isinstance(v, (bytes, bytearray)):
                return bytes(v).count(b"\r\n")
            if isinstance(v, str):
                return v.count("\r\n")
            if isinstance(v, int) and v == 10:
                return 0
        return 0
    fam = shared.family(prog, b.path)
    joins = []
    for bb in fam:
        for blk, t in bb.calls_to(r"::join$"):
            if len(t["args"]) > 1 and crlfs(core.describe(prog, bb, t["args"][1])) > 0:
                joins.append((bb, blk))
    uncond = in_loop = 0
    cond_sites = []
    n_ev = 0
    # (what follows the body — the CRLF the serialiser appends after a non-empty body is the subject of R8.nothing_after_body — is not the head)
    rf = [x["name"] for x in prog.structs.get("humphrey::http::response::Response", {}).get("fields", [])]
    bi_ = rf.index("body") if "body" in rf else None
    body_sites = [blk for blk, t in b.calls_to(r"Vec::<T, A>::(extend_from_slice|append)$|Extend<.*>>::extend$")
                  if len(t["args"]) > 1 and core.desc_contains(core.describe(prog, b, t["args"][1]), lambda y: y[0] == "field" and y[2] == bi_ and isinstance(y[1], tuple) and y[1][0] == "param")]
    after_body = set()
    for bs in body_sites:
        after_body |= set(b.reachable(b.succs(bs)))
    for blk, t in b.calls_to(r"Vec::<T, A>::(extend_from_slice|push)$|Extend<.*>>::extend$|String::push_str$"):
        n_ev += 1
        if blk in after_body:
            continue
        k = crlfs(panics._strip(core.describe(prog, b, t["args"][1]))) if len(t["args"]) > 1 else 0
        if not k:
            continue
        if blk in b.reachable(b.succs(blk)):
            in_loop += k
        elif all(b.dominates(blk, r) for r in rets):
            uncond += k
        else:
            cond_sites.append(blk)
    for blk_i, pieces in fmt.format_sites(b):
        k = sum(p_[1].count("\r\n") for p_ in pieces if p_[0] == "lit" and isinstance(p_[1], str))
        if not k:
            continue
        if blk_i in b.reachable(b.succs(blk_i)):
            in_loop += k
        elif all(b.dominates(blk_i, r) for r in rets):
            uncond += k
        else:
            cond_sites.append(blk_i)
    # header lines written by a closure handed to for_each / a helper called from it: one call per header
    for cb in fam:
        if cb is b or cb.kind != "closure":
            continue
        for blk, t in cb.calls_to(r"Vec::<T, A>::(extend_from_slice|push)$|Extend<.*>>::extend$|String::push_str$"):
            n_ev += 1
            in_loop += crlfs(panics._strip(core.describe(prog, cb, t["args"][1]))) if len(t["args"]) > 1 else 0
        for blk_i, pieces in fmt.format_sites(cb):
            in_loop += sum(p_[1].count("\r\n") for p_ in pieces if p_[0] == "lit" and isinstance(p_[1], str))
    chk.floor("byte-appending sites in the response serialiser", n_ev, 3)
    chk.ob("R6.line_breaks", b.path, "no join(\"\\r\\n\") stands in for the per-header line breaks", not joins,
           "header lines are joined with CRLF: n headers give n-1 separators, so a response without headers is written with one blank line too many "
           "(a stray CRLF in front of the next message on the connection)", where=b.where(joins[0][1]) if joins else "")
    if not cond_sites and not joins:
        chk.ob("R6.line_breaks", b.path, "outside the header loop exactly two CRLFs are written (end of the status line, blank line)", uncond == 2, f"{uncond} unconditional CRLF(s)")
        chk.ob("R6.line_breaks", b.path, "each header iteration writes exactly one CRLF", in_loop == 1, f"{in_loop} CRLF(s) per iteration")
    elif cond_sites:
        chk.extra.setdefault("not_decided_on_this_tree", []).append("CRLF accounting of the response serialiser (line breaks written under conditions)")


def chunk_size_hex(chk, prog):
    """R4.chunk_hex: a chunk-size line is hexadecimal "in either case" (RFC 9112 §7.1, HEXDIG is case-insensitive).  Either the size goes through
    `usize::from_str_radix(.., 16)`, or — for a hand-written digit parser — the set of bytes it accepts as digits, computed by the byte-class
    flow over its byte variable, is exactly 0-9 a-f A-F."""
    from .. import byteset
    fn = "humphrey::http::response::parse_chunk"
    if fn not in prog.bodies:
        chk.floor("parse_chunk", 0, 1)
        return
    fam = shared.family(prog, fn)
    std = []
    for bb in fam:
        for blk, t in bb.calls_to(r"from_str_radix$"):
            if len(t["args"]) > 1 and core.describe(prog, bb, t["args"][1]) == ("lit", 16):
                std.append((bb, blk))
    if std:
        chk.ob("R4.chunk_hex", fn, "the chunk size is parsed with from_str_radix(.., 16) (hex digits in either case)", True)
        return
    hexmask = byteset.set_mask(list(range(48, 58)) + list(range(65, 71)) + list(range(97, 103)))
    decided = False
    for bb in fam:
        for i in range(1, bb.argc + 1):
            if (bb.local_ty(i) or "").strip() not in ("u8", "&u8"):
                continue
            try:
                fl = byteset.ByteFlow(prog, bb, ("param", i, bb.local_name(i)))
            except Exception:
                continue
            reject = 0
            n_rej = 0
            for bi, blk_ in enumerate(bb.blocks):
                for st in blk_["stmts"]:
                    rv = st.get("rv")
                    if "pl" in st and st["pl"]["l"] == 0 and not st["pl"]["p"] and rv and rv.get("k") == "agg" and rv.get("variant") in ("None", "Err") and \
                            not any(lab in ("None", "Break", "Err") for s_, lab, gd, info in core.guards_dominating(prog, bb, bi)):
                        reject |= fl.at_term.get(bi, 0)
                        n_rej += 1
            if n_rej:
                decided = True
                accepted = byteset.ALL & ~reject
                chk.ob("R4.chunk_hex", bb.path, "the bytes accepted as chunk-size digits are exactly 0-9, a-f and A-F", accepted == hexmask,
                       f"accepted digit bytes: {''.join(chr(v) for v in byteset.members(accepted) if 32 < v < 127)!r}: a chunk size written in the other case ends the body early "
                       "(the client returns a silently truncated body)", where=bb.file)
    if not decided:
        chk.extra.setdefault("not_decided_on_this_tree", []).append("chunk-size digit set (no from_str_radix(16) and no byte-class the flow can follow)")


def chunked_fixup(chk, prog):
    """R4: on the chunked branch, TE removed and Content-Length = body.len() added before Ok."""
    f = "humphrey::http::response::Response::from_stream"
    body = prog.bodies.get(f)
    chk.floor("Response::from_stream", 1 if body else 0, 1)
    if not body:
        return
    chunk_calls = [b for b, t in body.calls_to(r"::parse_chunk$")]
    chk.floor("parse_chunk call sites in from_stream", len(chunk_calls), 1)
    oks = core.ok_return_blocks(body, "Ok")
    removes, adds = [], []
    body_vec = None
    for b, t in body.calls_to(r"^humphrey::http::headers::Headers::remove$"):
        if is_variant(describe(prog, body, t["args"][1]), "HeaderType", "TransferEncoding"):
            removes.append(b)
    # the vector the chunks are appended to
    ext = []
    for b, t in body.calls_to(r"Extend.*::extend$|::extend_from_slice$|::append$"):
        d = describe(prog, body, t["args"][1])
        if core.desc_contains(d, lambda x: x[0] == "call" and x[1].endswith("parse_chunk")):
            ext.append(describe(prog, body, t["args"][0]))
    chk.floor("chunk accumulation site", len(ext), 1)
    for b, t in body.calls_to(r"^humphrey::http::headers::Headers::add$"):
        if is_variant(describe(prog, body, t["args"][1]), "HeaderType", "ContentLength"):
            v = describe(prog, body, t["args"][2])
            lens = [c for c in core.desc_calls(v) if c[1].endswith("::len")]
            good = any(c[2] and c[2][0] in ext for c in lens)
            chk.ob("R4.len_source", f, "Content-Length <- len(chunk accumulator)", good,
                   f"Content-Length value is {v}, not the length of the de-chunked body", where=body.where(b))
            if good:
                adds.append(b)
    reach_ok = [o for o in oks if o in body.reachable([s for c in chunk_calls for s in body.succs(c)])]
    chk.floor("Ok exits reachable from the chunked branch", len(reach_ok), 1)
    w = core.must_pass(body, chunk_calls, reach_ok, through_nodes=removes)
    chk.ob("R4.remove_te", f, "parse_chunk -> Ok passes headers.remove(TransferEncoding)", w is None,
           "a chunked response can be returned still carrying Transfer-Encoding", path=w, where=body.file)
    w = core.must_pass(body, chunk_calls, reach_ok, through_nodes=adds)
    chk.ob("R4.add_cl", f, "parse_chunk -> Ok passes headers.add(ContentLength, body.len())", w is None,
           "a chunked response can be returned without the Content-Length of the decoded body", path=w, where=body.file)
    # the end of the chunk list is the end of the body, wherever it comes: from the `None` of every parse_chunk call (the terminating
    # zero-size chunk) an Ok return is feasible and no error exit is — a first chunk that is *required* rejects the empty chunked body
    from .. import absreach as _ar
    err_rets = set(core.ok_return_blocks(body, "Err")) | {b_ for b_, t_ in body.calls_to(r"FromResidual<.*>>::from_residual$|::from_residual$")}
    for cb in chunk_calls:
        t_ = body.term(cb)
        if t_.get("target") is None or t_["dest"]["p"]:
            chk.ob("R4.end_of_chunks", f, "parse_chunk's result is a plain local the rule can follow", False, "", where=body.where(cb))
            continue
        seen_ = _ar.feasible_from(body, [t_["target"]], prog, init={("var", t_["dest"]["l"]): "None"})
        bad_ = sorted(b_ for b_ in seen_ if b_ in err_rets)
        ok_ = [o for o in oks if o in seen_]
        chk.ob("R4.end_of_chunks", f, "parse_chunk -> None (terminating chunk) ends the body: Ok is returned, no error exit is reachable", bool(ok_) and not bad_,
               "the end of the chunk list can be answered with an error (e.g. when no data chunk came first): a chunked response with an empty body is rejected",
               where=body.where(bad_[0] if bad_ else cb))


def redirect_set(chk, prog, st):
    f = "humphrey::client::ClientRequest::<'a>::send"
    body = prog.bodies.get(f)
    chk.floor("ClientRequest::send", 1 if body else 0, 1)
    if not body or not st:
        return
    h = prog.hir[f]["body"]
    compared = set()
    test_closures = set()
    def scan(node, closure):
        for n in core.hir_walk(node):
            if n.get("e") == "Binary" and n.get("op") in ("Eq", "Ne"):
                for side in (n["l"], n["r"]):
                    v = core.hir_value(side)
                    if v[0] == "path" and v[1] and "::status::StatusCode::" in v[1]:
                        compared.add(tables.variant_name(v[1]))
            if n.get("e") == "Match" and "StatusCode" in n.get("scrut_ty", ""):
                for a in n["arms"]:
                    for k in core.pat_keys(a["pat"]):
                        if k[0] == "path" and k[1] and "StatusCode::" in k[1]:
                            bv = core.hir_value(a["body"])
                            if bv != ("lit", False):
                                compared.add(tables.variant_name(k[1]))
    scan(h, None)
    for helper in getattr(prog, "inlined", {}).get(f, []):
        if helper in prog.hir:
            scan(prog.hir[helper]["body"], None)
    codes = sorted(st["v2c"].get(v, -1) for v in compared)
    chk.ob("R5.set", f, "redirect statuses == {301,302,307}", codes == [301, 302, 307],
           f"the client follows redirects for status set {codes} (variants {sorted(compared)})", where=body.file)
    # recursion only under the test
    rec_closures = [c for c in prog.all_closures_of(f) if c.calls_to(r"ClientRequest::<'a>::send$")]
    direct = [blk for blk, t in body.calls_to(r"ClientRequest::<'a>::send$")]
    # `.and_then(Self::send)`: the function handed to a combinator as an item
    direct += [blk for blk, t in body.calls() if any(a.get("k") == "const" and str(a.get("fn") or "").endswith("ClientRequest::<'a>::send") for a in t.get("args", []))]
    chk.floor("recursive send site", len(rec_closures) + len(direct), 1)
    fr = next((i for i, x in enumerate(prog.structs["humphrey::client::ClientRequest"]["fields"]) if x["name"] == "follow_redirects"), None)
    # flat form (no closures): the re-send is a call in send() itself
    for b in direct:
        gs = core.guards_dominating(prog, body, b)

        def on_flag(lab, d):
            pos = core.desc_contains(d, lambda x: x[0] == "field" and x[2] == fr and x[1][0] == "param")
            neg = core.desc_contains(d, lambda x: x[0] == "un" and x[1] == "Not")
            return pos and ((lab == "true" and not neg) or (lab == "false" and neg))
        flag = any(on_flag(lab, d) for s_, lab, d, _ in gs)
        followed = {"MovedPermanently", "TemporaryRedirect", "Found"}
        st_labels = [lab for s_, lab, d, info in gs if info and (info.get("src_ty") or "").endswith("status::StatusCode")]
        status = bool(st_labels) and set(st_labels) <= followed
        chk.ob("R5.guard", f, "recursive send dominated by follow_redirects", flag, "the client may re-send without follow_redirects being set", where=body.where(b))
        chk.ob("R5.guard", f, "recursive send dominated by the redirect-status test", status, f"status conditions on the re-send: {sorted(set(st_labels))}", where=body.where(b))
        # once both tests hold, every way out is the re-send or an error about the Location value (never the redirect itself, never a counter)
        entry = None
        for s_, lab, d, info in gs:
            if info and (info.get("src_ty") or "").endswith("status::StatusCode") and lab in followed:
                entry = info["edges"][lab]
        if entry is not None:
            errs = [i for i, blk_ in enumerate(body.blocks) for s2 in blk_["stmts"] if "pl" in s2 and s2["pl"]["l"] == 0 and not s2["pl"]["p"] and
                    s2["rv"].get("k") == "agg" and s2["rv"].get("variant") == "Err"]
            errs += [blk for blk, t in body.calls_to(r"FromResidual>?::from_residual$") if t["dest"]["l"] == 0]
            w = core.must_pass(body, [entry], core.return_blocks(body), through_nodes=[b] + errs, after_from=False)
            chk.ob("R5.follows", f, "a redirect response with follow_redirects set is always followed (every path reaches the re-send)", w is None,
                   "between the redirect test and the re-send there is a way out that is not an error about the Location value", where=body.where(b), path=w)
            counters = []
            for s2 in sorted(body.reachable([entry], removed_nodes=[b])):
                t2 = body.term(s2)
                if t2 and t2["k"] == "switch":
                    dd = core.describe(prog, body, t2["discr"])
                    self_state = core.desc_contains(dd, lambda x: x[0] == "field" and x[1][0] == "param" and x[1][1] == 1) and \
                        not core.desc_contains(dd, lambda x: x[0] == "call" and core.re.search(r"Client::request|Headers::get|parse_url|starts_with", x[1]) is not None)
                    if self_state and t2.get("discr_ty") in ("bool",) or (self_state and "usize" in str(t2.get("discr_ty"))):
                        counters.append(body.where(s2))
            chk.ob("R5.follows", f, "between the redirect test and the re-send, branches depend on the response / Location only (not on client state)", not counters,
                   f"branch on client state at {counters}")
    for c in rec_closures:
        # construction site of (an ancestor of) this closure in `send`
        top = c
        while top.parent != f:
            top = prog.bodies[top.parent]
        sites = [b for b, blk in enumerate(body.blocks) for s in blk["stmts"]
                 if "rv" in s and s["rv"].get("k") == "agg" and s["rv"].get("def") == top.path]
        for b in sites:
            gs = core.guards_dominating(prog, body, b)
            flag = any(lab == "true" and core.desc_contains(d, lambda x: x[0] == "field" and x[2] == fr and x[1][0] == "param")
                       for s_, lab, d, _ in gs)
            status = any(lab == "true" and core.desc_contains(d, lambda x: x[0] == "closure") for s_, lab, d, _ in gs)
            chk.ob("R5.guard", f, "recursive send dominated by follow_redirects", flag,
                   "the client may re-send without follow_redirects being set", where=body.where(b))
            chk.ob("R5.guard", f, "recursive send dominated by the redirect-status test", status,
                   "the client may re-send although the response is not a redirect", where=body.where(b))
            # ... and conversely: once both tests hold, nothing (a hop counter, a visited set) can divert the client before it follows
            for s_, lab, d, info in gs:
                if lab == "true" and core.desc_contains(d, lambda x: x[0] == "closure") and info and "true" in info.get("edges", {}):
                    w = core.must_pass(body, [info["edges"]["true"]], core.return_blocks(body), through_nodes=[b], after_from=False)
                    chk.ob("R5.follows", f, "a redirect response with follow_redirects set is always followed (every path reaches the re-send)", w is None,
                           "between the redirect test and the re-send there is a way out (e.g. a redirect counter): some chain of redirects does not end at the final response",
                           where=body.where(s_), path=w)
            sw = [blk for blk in range(len(c.blocks)) if c.term(blk) and c.term(blk)["k"] == "switch"]
            odd = []
            for blk in sw:
                dd = core.describe(prog, c, c.term(blk)["discr"])
                if core.desc_contains(dd, lambda x: x[0] == "upvar") and not core.desc_contains(dd, lambda x: x[0] == "param"):
                    odd.append(c.where(blk))
            chk.ob("R5.follows", f, "inside the re-send closure, branches depend on the Location value only (not on client state)", not odd,
                   f"branch on captured client state at {odd}", where=c.file)
    # the non-redirect exit returns the transport result unchanged: every plain return of a value (not the re-send, not an error built
    # here) is the value that Client::request / request_tls produced
    plain, via_calls = [], []
    for d_ in body.defs().get(0, []):
        if d_[2] == "call":
            via_calls.append(d_[3].get("resolved") or d_[3].get("callee") or "?")
        elif d_[3]["rv"]["k"] == "use" and not d_[3]["pl"]["p"]:
            plain.append(core.describe(prog, body, d_[3]["rv"]["o"]))
    transport = lambda v: core.desc_contains(v, lambda x: x[0] == "call" and core.re.search(r"Client::request(_tls)?$", x[1]) is not None)
    ok_calls = all(core.re.search(r"::and_then$|ClientRequest::<'a>::send$|from_residual$", n) for n in via_calls)
    if plain:
        ok = all(transport(v) for v in plain) and ok_calls
    else:
        d0 = core.describe(prog, body, 0)
        ok = transport(d0) and ok_calls
    chk.ob("R5.final", f, "non-redirect result is the transport's response", ok, f"plain returns: {[core.short(str(v))[:60] for v in plain]}; returning calls: {via_calls}")


def run(chk):
    prog = chk.use(core.load("A", fresh=(chk.tier == "thorough")))
    chk.explanation = (
        "Static decision of structural clauses of C07 over rustc's type-checked program (HIR match tables, "
        "MIR CFG with resolved callees): status-code tables are total/inverse/registered (R1), header "
        "serialisation cannot reorder same-named fields (R2), the Set-Cookie serialiser reads every field (R3), "
        "the chunked branch of the response parser always replaces Transfer-Encoding by the decoded length (R4), "
        "the client follows exactly {301,302,307} and only under follow_redirects (R5), nothing is appended "
        "after the body (R6). No Humphrey code is executed.")
    chk.not_decided = ("byte-level validity of the serialisation, chunk-size arithmetic, termination on redirect loops, "
                       "client builders; the parse-back equality itself (only its table/ordering preconditions)")
    chk.assumptions = ["rustc type checking / MIR construction / callee resolution", "oracles/http_status.json transcribes the IANA registry"]
    chk.rule("R1", "R-TABLE: StatusCode <-> u16 <-> reason phrase total, injective, inverse, registered")
    chk.rule("R3", "R-FIELDS: every SetCookie field is read by From<SetCookie> for Header; SameSite strings; attribute names")
    chk.rule("R4", "R-MUSTPASS: parse_chunk -> Ok(..) through remove(Transfer-Encoding) and add(Content-Length, body.len())")
    chk.rule("R5", "R-TABLE + R-DOM: redirect status set and guards of the recursive send")
    st = status_tables(chk, prog)
    shared.header_order(chk, prog, "R2")
    # every header name the serialiser can print parses back to the same header (a variant without a name prints an empty field name)
    from . import c02
    c02.header_table(chk, prog, "A")
    set_cookie(chk, prog)
    chunked_fixup(chk, prog)
    chunk_size_hex(chk, prog)
    head_line_breaks(chk, prog)
    redirect_set(chk, prog, st)
    shared.nothing_after_body(chk, prog, "R6")
    shared.response_reads(chk, prog, "R7.reads")
    shared.response_framing_by_headers(chk, prog, "R7.framing")
    shared.header_line_split(chk, prog, "R7.header_split", "humphrey::http::response::Response::from_stream")
    shared.no_blind_consume(chk, prog, "R7.no_blind_consume", r"^humphrey::http::(response|request|proxy)::")

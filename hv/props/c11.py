"""C11 — WebSocket endpoint: valid handshake, well-formed frames out, ping/close answered (structural clauses)."""
from .. import core, tables, panics
from ..core import describe_r as describe, desc_contains, switch_info
from .c01 import some_edge_of

GUID = "258EAFA5-E914-47DA-95CA-C5AB0DC85B11"
WRITE = r"std::io::Write::(write_all|write)$"


def frame_bytes(prog, body, d):
    """Does description d denote serialised frame bytes? returns (ok, why)."""
    ok = False
    for c in core.desc_calls(d):
        if len(c) > 3 and c[3] is not None:
            pass
        name = c[1]
        if name.endswith("message::Message::to_frame"):
            ok = True
        if name.endswith("::into") or (name.endswith("::from") and "From<humphrey_ws::frame::Frame>" in name):
            # Into<Vec<u8>> applied to a Frame
            if c[2] and _is_frame(c[2][0]):
                ok = True
    bad = any(c[1].endswith("AsRef<[u8]>>::as_ref") and c[2] and _is_frame(c[2][0]) for c in core.desc_calls(d)) or \
        any("frame::Frame as std::convert::AsRef" in c[1] for c in core.desc_calls(d))
    return ok and not bad, bad


def _is_frame(d):
    return desc_contains(d, lambda y: y[0] == "call" and y[1].endswith("frame::Frame::new")) or (d[0] == "variant" and d[1].endswith("frame::Frame"))


def sinks(chk, prog):
    n = 0
    for p, b in sorted(prog.bodies.items()):
        if not (p.startswith("humphrey_ws::") or p.startswith("<humphrey_ws::")) or "promoted" in p:
            continue
        for blk, t in b.calls_to(WRITE):
            if not t.get("arg_tys") or "humphrey::stream::Stream" not in t["arg_tys"][0]:
                continue
            recv = describe(prog, b, t["args"][0])
            if not desc_contains(recv, lambda y: y[0] == "field"):
                continue   # a plain stream (the HTTP handshake), not the stream of a WebsocketStream
            n += 1
            d = describe(prog, b, t["args"][1])
            if desc_contains(d, lambda y: y[0] == "param") and not core.desc_calls_named(d, "frame::Frame::new") and p.endswith("send_raw"):
                # the data is a parameter: each caller is an instance
                callers = prog.callers_of(r"^humphrey_ws::stream::WebsocketStream::send_raw$")
                chk.floor("send_raw callers", len(callers), 1)
                for cb, cblk, ct in callers:
                    dd = describe(prog, cb, ct["args"][1])
                    ok, bad = frame_bytes(prog, cb, dd)
                    chk.ob("R1.frames_only", cb.path, f"send_raw(<serialised frame>) [{_what(dd)}]", ok,
                           f"send_raw is given {panics.short_desc(dd)}, which is not a serialised frame", where=cb.where(cblk))
                continue
            ok, bad = frame_bytes(prog, b, d)
            chk.ob("R1.frames_only", p, f"bytes written to the WebSocket stream are a serialised frame [{_what(d)}]", ok,
                   ("the frame's payload (frame.as_ref()) is written without its header: the peer receives unframed bytes / nothing for an empty payload"
                    if bad else f"written data {panics.short_desc(d)} is not derived from Vec<u8>::from(Frame) / Message::to_frame"), where=b.where(blk))
    chk.floor("WebSocket stream write sinks", n, 3)


def _what(d):
    ops = [c[2][0][2] for c in core.desc_calls(d) if c[1].endswith("frame::Frame::new") and c[2] and c[2][0][0] == "variant"]
    if ops:
        return "Frame::new(" + ",".join(sorted(set(ops))) + ")"
    if any(c[1].endswith("to_frame") for c in core.desc_calls(d)):
        return "Message::to_frame"
    return panics.short_desc(d)[:40]


def handshake(chk, prog):
    fn = "humphrey_ws::handler::handshake"
    b = prog.bodies.get(fn)
    chk.floor("handshake", 1 if b else 0, 1)
    if not b:
        return
    writes = b.calls_to(WRITE)
    chk.floor("handshake write", len(writes), 1)
    keyget = [blk for blk, t in b.calls_to(r"Headers::get$") if describe(prog, b, t["args"][1]) == ("lit", "Sec-WebSocket-Key")]
    chk.ob("R2.handshake", fn, "looks up Sec-WebSocket-Key", len(keyget) == 1, "")
    for blk, t in writes:
        ok = False
        for s, lab, d, info in core.guards_dominating(prog, b, blk):
            if lab in ("Some", "Ok", "Continue") and desc_contains(d, lambda y: y[0] == "call" and len(y) > 3 and y[3] in keyget):
                ok = True
        chk.ob("R2.handshake", fn, "101 written only when the key header is present", ok, "a request without Sec-WebSocket-Key is upgraded", where=b.where(blk))
        d = describe(prog, b, t["args"][1])
        resp = [c for c in core.desc_calls(d) if c[1].endswith("Response::empty")]
        ok = bool(resp) and core.is_variant(resp[0][2][0], "StatusCode", "SwitchingProtocols")
        chk.ob("R2.handshake", fn, "status 101 Switching Protocols", ok, "")
        hs = {}
        for c in core.desc_calls(d):
            if c[1].endswith("Response::with_header"):
                h = c[2][1]
                name = h[2] if h[0] == "variant" else (h[1] if h[0] == "lit" else None)
                hs[name] = c[2][2]
        chk.ob("R2.handshake", fn, "Upgrade: websocket", hs.get("Upgrade") == ("lit", "websocket"), f"{hs.get('Upgrade')}")
        chk.ob("R2.handshake", fn, "Connection: Upgrade", hs.get("Connection") == ("lit", "Upgrade"), f"{hs.get('Connection')}")
        acc = hs.get("Sec-WebSocket-Accept")
        ok = False
        why = f"{panics.short_desc(acc) if acc else None}"
        if acc and acc[0] == "call" and acc[1].endswith("Base64Encode>::encode") and acc[2] and acc[2][0][0] == "call" and acc[2][0][1].endswith("SHA1Hash>::hash"):
            inner = acc[2][0][2][0]
            # format!("{}{}", key, MAGIC)
            fb = [c[3] for c in core.desc_calls(inner) if "fmt::Arguments" in c[1]]
            from .. import fmt
            parts = fmt.format_parts(b, fb[0]) if fb else None
            if parts and len(parts) == 2 and parts[0][0] == "arg" and parts[1][0] == "arg":
                k = core.describe(prog, b, parts[0][1])
                m = core.describe(prog, b, parts[1][1])
                kk = desc_contains(k, lambda y: y[0] == "call" and len(y) > 3 and y[3] in keyget)
                mm = m == ("lit", GUID)
                ok = kk and mm
                why = f"concat({panics.short_desc(k)}, {panics.short_desc(m)})"
            elif not fb and inner[0] == "call" and core.re.search(r"String::(new|with_capacity)$", inner[1]):
                # built in place: String::new / with_capacity, then push_str(key), push_str(GUID) and nothing else
                hash_blk = acc[2][0][3] if len(acc[2][0]) > 3 else None
                from ..fmt import _deref_chain
                sl = _deref_chain(b, core.op_local(b.term(hash_blk)["args"][0])) if hash_blk is not None else None
                edits = []
                for b2, t2 in b.calls():
                    tys = t2.get("arg_tys") or []
                    if tys and tys[0].startswith("&mut std::string::String") and _deref_chain(b, core.op_local(t2["args"][0])) == sl:
                        edits.append((b2, t2))
                edits.sort(key=lambda x: sum(1 for y in edits if b.dominates(y[0], x[0])))
                names = [t2["callee"].rsplit("::", 1)[-1] for _, t2 in edits]
                if names == ["push_str", "push_str"] and all(b.dominates(b2, hash_blk) for b2, _ in edits):
                    k = core.describe(prog, b, edits[0][1]["args"][1])
                    m = core.describe(prog, b, edits[1][1]["args"][1])
                    kk = desc_contains(k, lambda y: y[0] == "call" and len(y) > 3 and y[3] in keyget)
                    mm = m == ("lit", GUID)
                    ok = kk and mm
                    why = f"push_str({panics.short_desc(k)}); push_str({panics.short_desc(m)})"
                else:
                    why = f"string edited by {names}"
        chk.ob("R2.handshake", fn, "Sec-WebSocket-Accept = base64(sha1(key + GUID))", ok, f"accept value is {why}")
    magic = core.const_value(prog, "humphrey_ws::MAGIC_STRING")
    chk.ob("R2.handshake", "humphrey_ws::MAGIC_STRING", "GUID equals RFC 6455 §1.3", magic == ("lit", GUID), f"{magic}")
    # the user handler runs only after a successful handshake
    n = 0
    for p, c in prog.bodies.items():
        if p.startswith("humphrey_ws::handler::") and c.kind == "closure":
            hcalls = [blk for blk, t in c.calls_to(r"handler::handshake$")]
            if not hcalls:
                continue
            users = [blk for blk, t in c.calls() if (t.get("callee") or "").endswith("Fn::call") or (t.get("callee") or "").endswith("Sender::<T>::send")]
            from .c01 import some_edge_of
            ok_edges = [e for hb in hcalls for e in some_edge_of(prog, c, hb, "Ok")]
            # the stream is wrapped as a WebSocket stream only once the handshake has succeeded: a WebsocketStream that exists during a
            # refused handshake sends a Close frame from its destructor on a connection that never left HTTP
            for wb, wt in c.calls_to(r"stream::WebsocketStream::new$"):
                okw = bool(ok_edges) and core.must_pass(c, [0], [wb], through_edges=ok_edges, after_from=False) is None
                chk.ob("R2.handshake", p, "the connection becomes a WebsocketStream only after a successful handshake", okw,
                       "WebsocketStream::new is reached before / without the handshake's Ok: if the handshake is refused, dropping the wrapper writes a Close frame to an HTTP client",
                       where=c.where(wb))
            for ub in users:
                n += 1
                ok = any(lab == "true" and desc_contains(d, lambda y: y[0] == "call" and y[1].endswith("::is_ok") and desc_contains(y[2], lambda z: z[0] == "call" and z[1].endswith("handshake")))
                         or (lab == "Ok" and desc_contains(d, lambda y: y[0] == "call" and y[1].endswith("handshake")))
                         for s, lab, d, info in core.guards_dominating(prog, c, ub))
                # (guard clause `if handshake(..).is_err() { return }`, `match`, `?`: every way to the handler takes an edge on which the handshake returned Ok)
                ok = ok or (bool(ok_edges) and core.must_pass(c, [0], [ub], through_edges=ok_edges, after_from=False) is None)
                chk.ob("R2.handshake", p, "the WebSocket handler / hook runs only after a successful handshake", ok, "", where=c.where(ub))
    chk.floor("handshake-guarded handler calls", n, 2)


def control_frames(chk, prog, fn, facts):
    b = prog.bodies.get(fn)
    chk.floor(fn.split("::")[-1], 1 if b else 0, 1)
    if not b:
        return
    tag = fn.split("::")[-1]

    def fact(rule, site, ok, detail="", where=""):
        facts[(rule, site)] = ok
        chk.ob(rule, fn, site, ok, detail, where=where or b.file)
    writes = b.calls_to(WRITE)
    pushes = [blk for blk, t in b.calls_to(r"Vec::<T, A>::push$") if "frame::Frame" in " ".join(t.get("arg_tys", []))]
    oi = next(i for i, x in enumerate(prog.structs["humphrey_ws::frame::Frame"]["fields"]) if x["name"] == "opcode")
    pi = next(i for i, x in enumerate(prog.structs["humphrey_ws::frame::Frame"]["fields"]) if x["name"] == "payload")

    OPS = prog.enums.get("humphrey_ws::frame::Opcode", {}).get("variants") or ["Continuation", "Text", "Binary", "Close", "Ping", "Pong"]
    OPS = [v["name"] if isinstance(v, dict) else v for v in OPS]

    def opcode_switch(s_):
        """(info, edges by variant) if block s_ switches on a frame's opcode (a `match frame.opcode`)."""
        info = switch_info(prog, b, s_)
        if not info or info.get("kind") != "enum" or not (info.get("src_ty") or "").endswith("frame::Opcode"):
            return None
        return info

    def opcode_facts(blk):
        out = {}
        for (a, op, r) in panics.cmp_facts(prog, b, blk):
            for x, y in ((a, r), (r, a)):
                if isinstance(y, tuple) and y and y[0] == "variant" and y[1].endswith("Opcode") and isinstance(x, tuple) and x[0] == "field" and x[2] == oi:
                    out[y[2]] = (op == "==")
        # `match frame.opcode { .. }`: on the edge of one arm the opcode is one of that arm's variants and none of the others
        for s_, lab, d, info in core.guards_dominating(prog, b, blk):
            oinfo = opcode_switch(s_)
            if oinfo is None:
                continue
            tgt = oinfo["edges"].get(lab)
            same = [v for v, t_ in oinfo["edges"].items() if t_ == tgt]
            for v in OPS:
                if v in same:
                    if len(same) == 1:
                        out[v] = True
                elif v in oinfo["edges"]:
                    out[v] = False
        return out
    seen_ops = set()
    for blk, t in writes:
        of = opcode_facts(blk)
        under = [k for k, v in of.items() if v]
        d = describe(prog, b, t["args"][1])
        news = [c for c in core.desc_calls(d) if c[1].endswith("frame::Frame::new")]
        reply = news[0][2][0][2] if news and news[0][2][0][0] == "variant" else None
        payload_echo = bool(news) and desc_contains(news[0][2][1], lambda y: y[0] == "field" and y[2] == pi)
        if under == ["Ping"]:
            seen_ops.add("Ping")
            fact("R3.control", "Ping is answered with a Pong frame", reply == "Pong", f"a Ping is answered with {reply}", b.where(blk))
            fact("R3.control", "the Pong carries the Ping's payload", payload_echo, "", b.where(blk))
            # continue: the frame is not pushed afterwards
            seen = b.reachable(b.succs(blk), removed_nodes=set(x for x, _ in b.calls_to(r"Frame::from_stream")))
            fact("R4.assembly", "a Ping is not added to the message", not any(pb in seen for pb in pushes), "control frame pushed into the fragment list")
        elif under == ["Close"]:
            seen_ops.add("Close")
            fact("R3.control", "Close is answered with a Close frame", reply == "Close", f"a Close is answered with {reply}", b.where(blk))
            # then ConnectionClosed is returned, nothing else
            seen = b.reachable(b.succs(blk))
            fact("R3.control", "after the Close reply the function returns without reading further", not any(x in seen for x, _ in b.calls_to(r"Frame::from_stream")), "")
            rets = [r for r in core.return_blocks(b) if r in seen]
            d0 = [core.describe_rv(prog, b, s["rv"]) for r in seen for s in b.blocks[r]["stmts"] if "pl" in s and s["pl"]["l"] == 0 and not s["pl"]["p"]]
            fact("R3.control", "Close is reported as ConnectionClosed", any(desc_contains(x, lambda y: y[0] == "variant" and y[2] == "ConnectionClosed") for x in d0) and
                 not any(x[0] == "variant" and x[2] == "Ok" and False for x in d0), f"{[panics.short_desc(x) for x in d0]}")
        else:
            fact("R3.control", f"unexpected write under {under}", False, f"a frame is written under opcode facts {of}", b.where(blk))
    for op in ("Ping", "Close"):
        fact("R3.control", f"{op} handled", op in seen_ops, f"no reply is written on the opcode == {op} edge")
    # Pong: nothing is written, frame not pushed
    pong_entries = []
    for s in range(len(b.blocks)):
        t = b.term(s)
        if t and t["k"] == "switch" and t.get("discr_ty") == "bool":
            d = core.describe(prog, b, t["discr"])
            if desc_contains(d, lambda y: y[0] == "variant" and y[1].endswith("Opcode") and y[2] == "Pong") and d[0] == "call" and d[1].endswith("PartialEq>::eq"):
                info = switch_info(prog, b, s)
                pong_entries.append(info["edges"]["true"])
        elif t and t["k"] == "switch":
            oinfo = opcode_switch(s)
            if oinfo and "Pong" in oinfo["edges"] and [v for v, t_ in oinfo["edges"].items() if t_ == oinfo["edges"]["Pong"]] == ["Pong"]:
                pong_entries.append(oinfo["edges"]["Pong"])
    for pe in pong_entries:
        seen = b.reachable([pe], removed_nodes=set(x for x, _ in b.calls_to(r"Frame::from_stream")))
        fact("R3.control", "a Pong is not answered", not any(w in seen for w, _ in writes), "")
        fact("R4.assembly", "a Pong is not added to the message", not any(pb in seen for pb in pushes), "")
    if not pong_entries:
        fact("R3.control", "a Pong is not answered", False, "no Pong case found")
    for pb in pushes:
        of = opcode_facts(pb)
        fact("R4.assembly", "only non-control frames are collected", all(of.get(k) is False for k in ("Ping", "Pong", "Close")), f"push under {of}", b.where(pb))
    chk.floor(f"fragment push in {tag}", len(pushes), 1)
    # assembly: every collected frame contributes its payload, in order (fold over iter(), or a loop over the frames); text from the first
    fam = [b] + prog.all_closures_of(fn)
    REORDER = r"::(rev|skip|step_by|filter|take|skip_while|take_while|filter_map)$"
    srcs = []
    for bb in [b]:
        for blk, t in bb.calls_to(r"Iterator::fold$|Iterator>::fold$|Iterator>?::next$|Iterator::next$|Iterator::for_each$"):
            d = core.describe(prog, bb, t["args"][0])
            over_frames = desc_contains(d, lambda y: y[0] == "call" and core.re.search(r"(::iter|into_iter)$", y[1]) is not None) and \
                ("frame::Frame" in " ".join(t.get("arg_tys") or []) or "Frame" in str(bb.local_ty(core.op_local(t["args"][0]) or 0)))
            if over_frames:
                srcs.append((blk, d))
    in_order = bool(srcs) and not any(desc_contains(d, lambda y: y[0] == "call" and core.re.search(REORDER, y[1]) is not None) for blk, d in srcs)
    fact("R4.assembly", "payloads are concatenated over all frames in arrival order", in_order, f"{len(srcs)} iteration(s) over the collected frames")
    n_ext = 0
    for c in fam:
        for blk, t in c.calls_to(r"Extend<.*>>::extend$|extend_from_slice$|Vec::<T, A>::append$"):
            d = core.describe(prog, c, t["args"][1])
            if "u8" not in " ".join(t.get("arg_tys") or []):
                continue
            n_ext += 1
            fact("R4.assembly", "each fragment contributes its payload", desc_contains(d, lambda y: y[0] == "field" and y[2] == pi), f"{panics.short_desc(d)}")
    if n_ext == 0:
        fact("R4.assembly", "each fragment contributes its payload", False, "no payload concatenation found")
    tds = []
    for blk_ in b.blocks:
        for st_ in blk_["stmts"]:
            rv_ = st_.get("rv")
            if rv_ and rv_.get("k") == "agg" and rv_.get("adt", "").endswith("message::Message") and "text" in (rv_.get("fields") or []):
                tds.append(core.describe(prog, b, rv_["ops"][rv_["fields"].index("text")]))
    def _discriminating(d):
        """`let text = matches!(frames.first(), Some(f) if f.opcode == Text)`: the flag is a merge of constants; what it derives from is in the
        guards that tell its `true` definition from its `false` ones (guards common to all definitions, e.g. the receive loop's, do not count)."""
        if not (isinstance(d, tuple) and d[0] == "multi" and len(d) > 4 and len(d[1]) == len(d[4]) and all(a in (("lit", True), ("lit", False)) for a in d[1])):
            return d
        gs = [[(s_, lab_, g_) for s_, lab_, g_, i_ in core.guards_dominating(prog, b, db)] for db in d[4]]
        common = set.intersection(*[set((s_, lab_) for s_, lab_, g_ in g) for g in gs]) if gs else set()
        return ("tuple", [g_ for alt, g in zip(d[1], gs) if alt == ("lit", True) for s_, lab_, g_ in g if (s_, lab_) not in common])
    tds = [_discriminating(d) for d in tds]
    via = [sorted(set(c[1].rsplit("::", 1)[-1] for c in core.desc_calls(d) if core.re.search(r"<impl \[T\]>::(first|last|get)$|::(nth|next_back)$", c[1]))) for d in tds]
    fact("R4.assembly", "text/binary is taken from the first fragment", bool(tds) and all(v == ["first"] for v in via), f"text flag derives from {via}")
    for c in fam:
        cmpc = [t for blk, t in c.calls_to(r"PartialEq>::eq$|PartialEq::eq$")]
        for t in cmpc:
            dd = [core.describe(prog, c, a) for a in t["args"]]
            if any(core.is_variant(x, "Opcode", "Text") or core.is_variant(x, "Opcode", "Binary") for x in dd) and \
                    any(desc_contains(x, lambda y: y[0] == "call" and y[1].endswith("::first")) or c.kind == "closure" for x in dd):
                fact("R4.assembly", "text flag <- (first.opcode == Text)", any(core.is_variant(x, "Opcode", "Text") for x in dd), f"{[panics.short_desc(x) for x in dd]}")


def probe_only_first(chk, prog, rid="R5.nothing_yet"):
    """The non-blocking header probe is used only while no fragment has been collected: once a data frame has been
    pushed, `nothing yet` must not be reportable (the collected fragments would be dropped and the rest of the
    message delivered later as a separate, truncated message). Decided on the product of the CFG with the finite
    store (first-frame flag, emptiness of the fragment vector)."""
    from .. import absreach
    fn = "humphrey_ws::message::Message::from_stream_nonblocking"
    b = prog.bodies.get(fn)
    if not b:
        return
    pushes = [blk for blk, t in b.calls_to(r"Vec::<T, A>::push$") if "frame::Frame" in " ".join(t.get("arg_tys", []))]
    probes = [blk for blk, t in b.calls_to(r"frame::Frame::from_stream_nonblocking$")]
    chk.floor("non-blocking header probe", len(probes), 1)
    w = absreach.must_pass_from_entry(b, pushes, probes)
    chk.ob(rid, fn, "after a fragment was collected the next frame is read with the blocking reader", w is None,
           "a continuation frame is awaited with the non-blocking probe: if it has not arrived yet, `nothing yet` is returned, the fragments already "
           "read are discarded and the tail later arrives as a separate truncated message", path=w)
    # the dual: the blocking reader is used only once a data fragment has been collected.  Before that (also after a Ping / Pong, which is
    # answered and skipped) the caller is the single-threaded poll loop, and a blocking read parks it on one quiet client.
    blocking = [blk for blk, t in b.calls_to(r"frame::Frame::from_stream$")]
    if blocking:
        w = core.must_pass(b, [0], blocking, through_nodes=pushes, after_from=False)
        chk.ob(rid.split(".")[0] + ".blocking_only_mid_message", fn, "the blocking frame reader is reached only after a data fragment was collected", w is None,
               "after a control frame (Ping answered, Pong noted) the next frame is awaited with the blocking reader although no message is in progress: "
               "the poll loop of AsyncWebsocketApp is parked on that client until it sends again (no other client is served, shutdown is not seen)", path=w)


def no_timeout_after_upgrade(chk, prog):
    """R8: the keep-alive timeout that bounds the wait for a request is no longer on the socket when it is handed to a WebSocket handler: a
    quiet (or slowly sending) client must not make recv() fail.  Either the timed reader clears it before it returns a request, or the
    connection loop clears it on every path from the reader to the WebSocket dispatch."""
    rd = prog.bodies.get("humphrey::http::request::Request::from_stream_with_timeout")
    ch = prog.bodies.get("humphrey::app::client_handler")
    chk.floor("timed request reader / connection loop", (1 if rd else 0) + (1 if ch else 0), 2)
    if not rd or not ch:
        return
    def classify(b):
        sets = [(blk, describe(prog, b, t["args"][1])) for blk, t in b.calls_to(r"Stream::set_timeout$")]
        return [blk for blk, d in sets if d[0] == "variant" and d[2] == "Some"], [blk for blk, d in sets if d[0] == "variant" and d[2] == "None"]
    armed, cleared = classify(rd)
    chk.floor("set_timeout(Some(..)) in the timed reader", len(armed), 1)
    oks = core.ok_return_blocks(rd, "Ok") or core.return_blocks(rd)
    inner = [blk for blk, t in rd.calls_to(r"Request::from_stream(_inner)?$")]
    inside = bool(cleared) and core.must_pass(rd, armed, inner or oks, through_nodes=cleared) is None
    _, cleared_ch = classify(ch)
    readers = [blk for blk, t in ch.calls_to(r"Request::from_stream_with_timeout$")]
    ws = [blk for blk, t in ch.calls_to(r"::call_websocket_handler$")]
    chk.floor("timed reads / WebSocket dispatch sites in client_handler", min(len(readers), 1) + min(len(ws), 1), 2)
    w = None
    if not inside:
        w = core.must_pass(ch, readers, ws, through_nodes=cleared_ch) if cleared_ch else [readers[0] if readers else 0, ws[0] if ws else 0]
    chk.ob("R8.no_timeout_after_upgrade", ch.path, "the read timeout is cleared between the timed request read and the WebSocket handler", w is None,
           "the socket still carries the keep-alive timeout when the WebSocket handler gets it: after that long without a frame (or in the middle of a slowly "
           "delivered frame) recv() fails with ReadError, the stream is dropped and a Close is sent to a client that did nothing wrong", path=w)


def closed_flag(chk, prog):
    ci = next(i for i, x in enumerate(prog.structs["humphrey_ws::stream::WebsocketStream"]["fields"]) if x["name"] == "closed")
    for fn in ("humphrey_ws::stream::WebsocketStream::recv", "humphrey_ws::stream::WebsocketStream::recv_nonblocking"):
        b = prog.bodies.get(fn)
        chk.floor(fn.split("::")[-1], 1 if b else 0, 1)
        if not b:
            continue
        sets = []
        for blk_i, blk in enumerate(b.blocks):
            for s in blk["stmts"]:
                if "pl" in s and [e[1] for e in s["pl"]["p"] if e[0] == "f"] == [ci] and s["rv"]["k"] == "use" and s["rv"]["o"].get("v") is True:
                    sets.append(blk_i)
        ok = False
        for sb in sets:
            for s, lab, d, info in core.guards_dominating(prog, b, sb):
                if lab == "ConnectionClosed":
                    ok = True
        if not sets:
            # `self.closed |= matches!(message, Err(ConnectionClosed))`: the old value or-ed with a flag that is true exactly under that arm
            for blk_i, blk in enumerate(b.blocks):
                for s in blk["stmts"]:
                    if not ("pl" in s and [e[1] for e in s["pl"]["p"] if e[0] == "f"] == [ci] and s["rv"]["k"] == "bin" and s["rv"]["op"] == "BitOr"):
                        continue
                    sets.append(blk_i)
                    l_, r_ = describe(prog, b, s["rv"]["l"]), describe(prog, b, s["rv"]["r"])
                    old_, new_ = (l_, r_) if (l_[0] == "field" and l_[2] == ci) else (r_, l_)
                    if not (old_[0] == "field" and old_[2] == ci and new_[0] == "multi" and len(new_) > 4 and len(new_[1]) == len(new_[4])):
                        continue
                    t_defs = [db for alt, db in zip(new_[1], new_[4]) if alt == ("lit", True)]
                    others = [alt for alt in new_[1] if alt != ("lit", True)]
                    ok = bool(t_defs) and all(a == ("lit", False) for a in others) and \
                        all(any(lab == "ConnectionClosed" for s2, lab, d, info in core.guards_dominating(prog, b, db)) for db in t_defs)
        chk.ob("R3.closed_flag", fn, "closed = true exactly on ConnectionClosed", ok and len(sets) == 1, f"{len(sets)} assignments")
    fs = prog.impl_fn(r"^<humphrey_ws::stream::WebsocketStream as std::ops::Drop>$", "drop")
    chk.floor("Drop for WebsocketStream", len(fs), 1)
    for f in fs:
        b = prog.bodies[f]
        for blk, t in b.calls_to(WRITE):
            facts = panics.cmp_facts(prog, b, blk)
            val = [r[1] for (a, op, r) in facts if op == "==" and a[0] == "field" and a[2] == ci and r[0] == "lit"]
            chk.ob("R3.drop_close", f, "drop sends a Close frame unless already closed", val == [False], f"Close is written when closed == {val}", where=b.where(blk))
            d = describe(prog, b, t["args"][1])
            chk.ob("R3.drop_close", f, "the frame sent on drop is a Close", "Close" in _what(d), f"{_what(d)}")


def blocking_mode_restored(chk, prog, rule="R7.blocking_restored"):
    """R7: the probe leaves the socket in blocking mode: once set_nonblocking() succeeded, every return passes set_blocking(),
    and every blocking read (read_exact / from_stream_inner) comes after it."""
    fn = "humphrey_ws::frame::Frame::from_stream_nonblocking"
    b = prog.bodies.get(fn)
    chk.floor("Frame::from_stream_nonblocking", 1 if b else 0, 1)
    if not b:
        return
    nb = [blk for blk, t in b.calls_to(r"::set_nonblocking$")]
    bl = [blk for blk, t in b.calls_to(r"::set_blocking$")]
    chk.floor("set_nonblocking / set_blocking sites in the probe", len(nb) + len(bl), 2)
    rets = core.return_blocks(b)
    for n in nb:
        starts = []
        def _is_the_call(d):
            d = panics._strip(d)
            return isinstance(d, tuple) and d and d[0] == "call" and len(d) > 3 and d[3] == n
        tests_ = [blk for blk, t in b.calls_to(r"Result::<T, E>::is_err$") if _is_the_call(describe(prog, b, t["args"][0]))]
        tb = core.bool_test_of_call(b, tests_[0]) if tests_ else None
        if tb:
            starts = [tb[2]]     # is_err() == false: the socket is now non-blocking
        else:
            # `set_nonblocking().map_err(..)?` / `match`: the edges on which the call returned Ok
            from .c01 import some_edge_of
            ok_edges = some_edge_of(prog, b, n, "Ok")
            for mb, mt in b.calls_to(r"Result::<T, E>::map_err$"):
                if core.op_local(mt["args"][0]) == b.term(n)["dest"]["l"]:
                    ok_edges = ok_edges or some_edge_of(prog, b, mb, "Ok")
            starts = [tgt for _, tgt in ok_edges] or b.succs(n)
        w = core.must_pass(b, starts, rets, through_nodes=bl, after_from=False)
        if w is not None:
            # (path-insensitively a lowered `map_err(..)?` lets the Ok arm reach the `?`'s error exit: decide on the product with the variant store)
            from .. import absreach
            reach = absreach.feasible_from(b, starts, prog, stop=set(bl))
            if not [r for r in rets if r in reach and r not in bl]:
                w = None
        chk.ob(rule, fn, "set_nonblocking() succeeded -> every return passes set_blocking()", w is None and bool(bl),
               "the probe can return (e.g. `nothing yet`) with the socket still non-blocking: later blocking receives fail with WouldBlock and large sends are cut short mid-frame",
               path=w)
    blocking_reads = [blk for blk, t in b.calls_to(r"Read::read_exact$|frame::Frame::from_stream_inner")]
    chk.floor("blocking reads in the probe", len(blocking_reads), 2)
    for r in blocking_reads:
        w = core.must_pass(b, nb, [r], through_nodes=bl)
        chk.ob(rule, fn, f"{b.term(r)['callee'].split('::')[-1]}: the rest of the frame is read in blocking mode", w is None, "", where=b.where(r), path=w)


def run(chk):
    prog = chk.use(core.load("A", fresh=(chk.tier == "thorough")))
    chk.explanation = (
        "Static decision of C11's structural clauses: every write to the stream inside a WebsocketStream (message.rs, send_raw and each of its callers, Drop) "
        "is fed by Vec<u8>::from(Frame) / Message::to_frame and never by the bare payload; the handshake writes 101 only under the Some edge of the "
        "Sec-WebSocket-Key lookup with Accept = base64(sha1(key + RFC GUID)) and the user handler runs only after it succeeded; in both receive "
        "variants Ping -> Pong with the same payload, Close -> Close + ConnectionClosed, Pong -> nothing, control frames are not collected, payloads are "
        "concatenated in order, text flag from the first fragment; closed is set on ConnectionClosed and Drop sends Close unless closed; blocking and "
        "non-blocking twins agree; the non-blocking header read uses the count it got (C03 PARTIALREAD).")
    chk.not_decided = "timing of non-blocking receive; std word operations inside SHA-1 (the structure of SHA-1 and the Base64 encoder are decided here by the C18 rules, for every key); interleavings of control frames beyond the per-frame rule"
    chk.assumptions = ["rustc type checking / MIR construction / callee resolution"]
    sinks(chk, prog)
    handshake(chk, prog)
    facts = {}
    for fn in ("humphrey_ws::message::Message::from_stream", "humphrey_ws::message::Message::from_stream_nonblocking"):
        facts[fn] = {}
        control_frames(chk, prog, fn, facts[fn])
    fa, fb = list(facts.values())
    for k in sorted(set(fa) | set(fb)):
        chk.ob("R5.twins", "Message::from_stream vs from_stream_nonblocking", f"{k[0]}: {k[1]}", fa.get(k) == fb.get(k), f"blocking: {fa.get(k)}, non-blocking: {fb.get(k)}")
    closed_flag(chk, prog)
    probe_only_first(chk, prog)
    blocking_mode_restored(chk, prog)
    no_timeout_after_upgrade(chk, prog)
    from . import c10
    c10.exact_reads(chk, prog, "R5.exact_reads")
    c10.frame_integrity(chk, prog, "R9.frame_fields", "R9.no_read_ahead")
    c10.decoder_outcomes(chk, prog, "R9.decoder_outcomes")
    from . import c18
    c18.sha1_padding(chk, prog, rule="R1.accept_sha1_padding")
    import json as _json
    import os as _os
    with open(_os.path.join(c18.ORACLES, "constants.json")) as fh:
        orc = _json.load(fh)
    c18.sha1_structure(chk, prog, orc, rule="R1.accept_sha1")
    c18.base64_encoder_bits(chk, prog, rule="R1.accept_base64")
    from . import c03
    bodies = panics.reach(prog, ["humphrey_ws::frame::Frame::from_stream_nonblocking"])
    before = len(chk.obligations)
    c03.partial_read_rule(chk, prog, "A", bodies)
    for o in chk.obligations[before:]:
        o["rule"] = "R6.partial_read"

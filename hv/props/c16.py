"""C16 — file cache returns only the latest bytes for the same key and keeps its limits (structural clauses)."""
from .. import core, panics, locks
from ..core import describe, describe_r, desc_contains
from .c01 import some_edge_of

C = "humphrey_server::server::cache::Cache"
CI = "humphrey_server::server::cache::CachedItem"


def is_clock(y):
    """a reading of the system clock: SystemTime::now(), or UNIX_EPOCH.elapsed() (= now - epoch)"""
    return isinstance(y, tuple) and y and y[0] == "call" and (y[1].endswith("SystemTime::now") or (y[1].endswith("SystemTime::elapsed") and "UNIX_EPOCH" in str(y[2])))


def fidx(prog, st, name):
    return next(i for i, x in enumerate(prog.structs[st]["fields"]) if x["name"] == name)


def _over_data(d, ix):
    return desc_contains(d, lambda y: y[0] == "field" and y[2] == ix["data"])


def loop_lookups(prog, b, ix):
    """Loop form of the key lookup: `for (i, item) in self.data.iter().enumerate() { if <key test> { .. Some(i) / Some(item) .. } }`.
    Returns [(next_block, some_block, result_local, key_fields)]."""
    out = []
    for nb, t in b.calls_to(r"Iterator>?::next$|Iterator::next$"):
        recv = describe(prog, b, t["args"][0])
        if not _over_data(recv, ix) or desc_contains(recv, lambda y: y[0] == "call" and core.re.search(r"::(rev|skip|take|filter|step_by)$", y[1]) is not None):
            continue
        for bi, blk in enumerate(b.blocks):
            for st in blk["stmts"]:
                rv = st.get("rv")
                if not (rv and rv.get("k") == "agg" and rv.get("variant") == "Some" and not st["pl"]["p"]):
                    continue
                pay = describe(prog, b, rv["ops"][0])
                if not desc_contains(pay, lambda y: y[0] == "call" and len(y) > 3 and y[3] == nb):
                    continue
                # inside the iteration that produced the element (not a later use of the lookup's result)
                if not any(lab == "Some" and desc_contains(dd, lambda y: y[0] == "call" and len(y) > 3 and y[3] == nb) and not desc_contains(dd, lambda y: y[0] == "multi")
                           for s_, lab, dd, info in core.guards_dominating(prog, b, bi)):
                    continue
                keys = set()
                for (a, op, r) in panics.cmp_facts(prog, b, bi):
                    if op != "==":
                        continue
                    for x, y_ in ((a, r), (r, a)):
                        for fname in ("route", "host"):
                            item_side = desc_contains(x, lambda z: z[0] == "field" and z[2] == ix["item_" + fname]) and desc_contains(x, lambda z: z[0] == "call" and len(z) > 3 and z[3] == nb)
                            par_side = desc_contains(y_, lambda z: z[0] == "param" and z[2] == fname) and not desc_contains(y_, lambda z: z[0] == "field")
                            if item_side and par_side:
                                keys.add(fname)
                out.append((nb, bi, st["pl"]["l"], keys))
    return out


def _counting_local(d):
    """local number of `i` when d describes a counter that starts at 0 and is only ever incremented by one"""
    d = panics._strip(d)
    if not (isinstance(d, tuple) and d[0] == "multi" and len(d) > 3):
        return None
    alts, l = d[1], d[3]
    if len(alts) != 2 or ("lit", 0) not in alts:
        return None
    inc = [a for a in alts if a != ("lit", 0)][0]
    if inc[0] == "field" and inc[1][0] == "bin":
        inc = inc[1]
    if inc[0] == "bin" and inc[1].startswith("Add") and inc[3] == ("lit", 1) and inc[2][0] == "local" and inc[2][1] == l:
        return l
    return None


def indexed_scans(prog, b, ix):
    """Index form of the key lookup: `let mut i = 0; while i < self.data.len() { let item = &self.data[i]; if <key test> { .. i .. ; break } i += 1 }`.
    Returns [(index_block, counter local, bound switch block)]: the scan visits self.data[0], [1], .. in order until the bound test fails."""
    out = []
    for blk, t in b.calls():
        if "Index" not in (t.get("callee") or "") or len(t["args"]) < 2:
            continue
        if not _over_data(describe(prog, b, t["args"][0]), ix):
            continue
        l = _counting_local(describe(prog, b, t["args"][1]))
        if l is None:
            continue
        # dominated by `i < len(self.data)`
        bound = None
        for s_, lab, dd, info in core.guards_dominating(prog, b, blk):
            dd = panics._strip(dd)
            if lab == "true" and dd[0] == "bin" and dd[1] == "Lt" and _counting_local(dd[2]) == l and dd[3][0] == "call" and dd[3][1].endswith("::len") and _over_data(dd[3], ix):
                bound = s_
        if bound is not None and blk in b.reachable(b.succs(blk)):
            out.append((blk, l, bound))
    return out


def scan_keys(prog, b, ix, at_block, scans):
    """key fields for which `self.data[i].<field> == <parameter>` is known at `at_block`, i being the counter of one of the scans"""
    keys = set()
    counters = {l for _, l, _ in scans}
    for (a, op, r) in panics.cmp_facts(prog, b, at_block):
        if op != "==":
            continue
        for x, y_ in ((a, r), (r, a)):
            for fname in ("route", "host"):
                item_side = desc_contains(x, lambda z: z[0] == "field" and z[2] == ix["item_" + fname] and
                                          desc_contains(z[1], lambda w: w[0] == "call" and "Index" in w[1] and len(w[2]) > 1 and _counting_local(w[2][1]) in counters))
                par_side = desc_contains(y_, lambda z: z[0] == "param" and z[2] == fname) and not desc_contains(y_, lambda z: z[0] == "field")
                if item_side and par_side:
                    keys.add(fname)
    return keys


def from_lookup(prog, b, ix, d):
    """Does the value description derive from the result of the key lookup (position/find call, or the loop form)?"""
    if desc_contains(d, lambda y: y[0] == "call" and core.re.search(r"::(position|find)$", y[1]) is not None):
        return True
    nbs = [nb for nb, _, _, _ in loop_lookups(prog, b, ix)]
    if bool(nbs) and desc_contains(d, lambda y: y[0] == "call" and len(y) > 3 and y[3] in nbs):
        return True
    return _counting_local(d) in {l for _, l, _ in indexed_scans(prog, b, ix)} and _counting_local(d) is not None


def lookup_none_edges(prog, b, ix):
    """CFG edges on which the lookup found nothing."""
    edges = set()
    for blk, t2 in b.calls_to(r"::(position|find)$"):
        for e in some_edge_of(prog, b, blk, "None"):
            edges.add(e)
    for _, _, bound in indexed_scans(prog, b, ix):
        info = core.switch_info(prog, b, bound)
        if info and "false" in info.get("edges", {}):
            edges.add((bound, info["edges"]["false"]))
    res_locals = set(l for _, _, l, _ in loop_lookups(prog, b, ix))
    for s_ in range(len(b.blocks)):
        t = b.term(s_)
        if t and t["k"] == "switch":
            info = core.switch_info(prog, b, s_)
            if info and info.get("kind") == "enum" and info.get("src") and "None" in info["edges"]:
                src = info["src"]["l"]
                # the tested value is (a copy of) a loop-lookup result
                seen = set()
                while src is not None and src not in seen:
                    seen.add(src)
                    if src in res_locals:
                        edges.add((s_, info["edges"]["None"]))
                        break
                    ds = b.defs().get(src, [])
                    nxt = None
                    for dd in ds:
                        if dd[2] == "assign" and dd[3]["rv"]["k"] in ("use", "cast", "ref") and not dd[3]["pl"]["p"]:
                            rv = dd[3]["rv"]
                            nxt = rv["pl"]["l"] if rv["k"] == "ref" else core.op_local(rv["o"])
                    src = nxt
    return edges


def key_predicate(chk, prog, fn, ix):
    """R1: the lookup closure compares item.route with the route parameter and item.host with the host parameter."""
    b = prog.bodies.get(fn)
    chk.floor(fn.split("::")[-1], 1 if b else 0, 1)
    if not b:
        return None
    pos = [(blk, t) for blk, t in b.calls_to(r"Iterator>?::(position|find|rposition|find_map)$|Iterator::(position|find)$")]
    loops = loop_lookups(prog, b, ix) if not pos else []
    scans = indexed_scans(prog, b, ix) if not pos and not loops else []
    chk.ob("R1.key", fn, "one lookup over self.data", len(pos) == 1 or (not pos and len(set(nb for nb, _, _, _ in loops)) == 1) or (not pos and not loops and len(set(l for _, l, _ in scans)) == 1),
           f"{len(pos)} iterator lookups, {len(loops)} loop lookups, {len(scans)} indexed scans")
    facts = None
    if scans:
        # the sites that use the found index: queue removals / Some(..) results inside the scan
        uses = [blk for blk, t in b.calls_to(r"VecDeque::<T, A>::(remove|swap_remove_back|swap_remove_front)$") if _counting_local(describe(prog, b, t["args"][1])) is not None]
        uses += [bi for bi in core.ok_return_blocks(b, "Some")]
        keysets = [scan_keys(prog, b, ix, u, scans) for u in uses]
        keys = set.intersection(*keysets) if keysets else set()
        chk.ob("R1.key", fn, "the lookup scans all of self.data front to back", True, "index counted up from 0 while it is below self.data.len()")
        for fname in ("route", "host"):
            chk.ob("R1.key", fn, f"the predicate compares item.{fname} with the `{fname}` parameter", fname in keys,
                   f"the lookup in {fn.split('::')[-1]} ignores `{fname}`: another entry's data can be returned / replaced", where=b.file)
        facts = keys
    if loops:
        keys = set.intersection(*[k for _, _, _, k in loops])
        chk.ob("R1.key", fn, "the lookup scans all of self.data front to back", True, "loop over self.data.iter()")
        for fname in ("route", "host"):
            chk.ob("R1.key", fn, f"the predicate compares item.{fname} with the `{fname}` parameter", fname in keys,
                   f"the lookup in {fn.split('::')[-1]} ignores `{fname}`: another entry's data can be returned / replaced", where=b.file)
        facts = keys
    for blk, t in pos:
        recv = describe(prog, b, t["args"][0])
        ok = desc_contains(recv, lambda y: y[0] == "field" and y[2] == ix["data"]) and not desc_contains(recv, lambda y: y[0] == "call" and core.re.search(r"::(rev|skip|take|filter)$", y[1]) is not None)
        chk.ob("R1.key", fn, "the lookup scans all of self.data front to back", ok and t["callee"].split("::")[-1] in ("position", "find"), f"{panics.short_desc(recv)}")
        cl = describe(prog, b, t["args"][1])
        if cl[0] != "closure" or cl[1] not in prog.bodies:
            chk.ob("R1.key", fn, "lookup predicate is a local closure", False, "")
            continue
        c = prog.bodies[cl[1]]
        cmps = set()
        for cb, ct in c.calls_to(r"PartialEq.*::eq$"):
            ds = [describe_r(prog, c, a) for a in ct["args"]]
            item_f = [y for d in ds for y in [d] if desc_contains(d, lambda z: z[0] == "field" and z[1][0] == "param")]
            for fname in ("route", "host"):
                a_item = any(desc_contains(d, lambda z: z[0] == "field" and z[2] == ix["item_" + fname] and z[1][0] == "param") for d in ds)
                a_par = any(desc_contains(d, lambda z: z[0] == "param" and z[2] == fname) and not desc_contains(d, lambda z: z[0] == "field") for d in ds)
                if a_item and a_par:
                    cmps.add(fname)
        # integer comparison `item.host == host` is a MIR BinaryOp, not a call
        for blk_ in c.blocks:
            for s in blk_["stmts"]:
                rv = s.get("rv")
                if rv and rv.get("k") == "bin" and rv["op"] == "Eq":
                    ds = [describe_r(prog, c, rv["l"]), describe_r(prog, c, rv["r"])]
                    for fname in ("route", "host"):
                        a_item = any(desc_contains(d, lambda z: z[0] == "field" and z[2] == ix["item_" + fname]) for d in ds)
                        a_par = any(desc_contains(d, lambda z: z[0] == "param" and z[2] == fname) and not desc_contains(d, lambda z: z[0] == "field") for d in ds)
                        if a_item and a_par:
                            cmps.add(fname)
        for fname in ("route", "host"):
            chk.ob("R1.key", fn, f"the predicate compares item.{fname} with the `{fname}` parameter", fname in cmps,
                   f"the lookup in {fn.split('::')[-1]} ignores `{fname}`: another entry's data can be returned / replaced", where=c.file)
        facts = cmps
    return facts


def size_assignments(prog, b, ix):
    """[(block, op, operand description)] for assignments to self.cache_size."""
    out = []
    for blk_i, blk in enumerate(b.blocks):
        for s in blk["stmts"]:
            if "pl" not in s:
                continue
            fs = [e[1] for e in s["pl"]["p"] if e[0] == "f"]
            if fs == [ix["cache_size"]] and b.local_ty(s["pl"]["l"]).endswith("cache::Cache"):
                d = core.describe_rv(prog, b, s["rv"])
                # checked arithmetic: (a op b).0
                if d[0] == "field" and d[1][0] == "bin":
                    d = d[1]
                if d[0] == "bin":
                    out.append((blk_i, d[1].replace("WithOverflow", ""), d[3]))
                else:
                    out.append((blk_i, "set", d))
    return out


def cache_index(prog):
    return {"data": fidx(prog, C, "data"), "cache_size": fidx(prog, C, "cache_size"), "cache_limit": fidx(prog, C, "cache_limit"), "cache_time_limit": fidx(prog, C, "cache_time_limit"),
            "item_route": fidx(prog, CI, "route"), "item_host": fidx(prog, CI, "host"), "item_data": fidx(prog, CI, "data"), "item_time": fidx(prog, CI, "cache_time"), "item_mime": fidx(prog, CI, "mime_type")}


def cache_key(chk, prog, ix=None):
    """R1.key: an entry is found and stored under (route as given, host): the raw request path and the host index, compared whole.  (Also run
    by C06: a key that is normalised — percent-decoded, lower-cased — lets a request routed to one directory be answered with a file cached
    for another.)"""
    ix = ix or cache_index(prog)
    g = key_predicate(chk, prog, C + "::get", ix)
    s = key_predicate(chk, prog, C + "::set", ix)
    chk.ob("R1.key", "Cache::get vs Cache::set", "both use the same key fields", g == s and g == {"route", "host"}, f"get: {g}, set: {s}")


def run(chk):
    prog = chk.use(core.load("A", fresh=(chk.tier == "thorough")))
    chk.explanation = (
        "Static decision of C16's structural clauses: get and set both select on (route, host); every pop_front/remove/push_back on the queue is paired on "
        "the same path with the matching cache_size -=/+= of that item's length; push_back is dominated by the loop exit `cache_size + len <= cache_limit` "
        "and by removal of an existing entry for the key; every Some(item) returned by get is dominated by the not-stale edge on that item; the "
        "handler calls set only under size_limit >= len, through the RwLock write guard, and serves body and Content-Type from the same cached item.")
    chk.not_decided = "histories; eviction optimality; clock behaviour (time going backwards)"
    chk.assumptions = ["rustc type checking / MIR construction / callee resolution", "VecDeque/Vec semantics of push_back/pop_front/remove"]
    ix = {"data": fidx(prog, C, "data"), "cache_size": fidx(prog, C, "cache_size"), "cache_limit": fidx(prog, C, "cache_limit"), "cache_time_limit": fidx(prog, C, "cache_time_limit"),
          "item_route": fidx(prog, CI, "route"), "item_host": fidx(prog, CI, "host"), "item_data": fidx(prog, CI, "data"), "item_time": fidx(prog, CI, "cache_time"), "item_mime": fidx(prog, CI, "mime_type")}
    cache_key(chk, prog, ix)
    # ---- set
    b = prog.bodies.get(C + "::set")
    if b:
        on_data = lambda d: desc_contains(d, lambda y: y[0] == "field" and y[2] == ix["data"] and y[1][0] == "param")
        pops = [blk for blk, t in b.calls_to(r"VecDeque::<T, A>::(pop_front|pop_back)$") if on_data(describe(prog, b, t["args"][0]))]
        rems = [(blk, t) for blk, t in b.calls_to(r"VecDeque::<T, A>::(remove|swap_remove_back|swap_remove_front)$") if on_data(describe(prog, b, t["args"][0]))]
        # `data.remove(0)` takes the oldest entry out like pop_front does (an eviction helper shared with the replace path)
        front = [(blk, t) for blk, t in rems if t["callee"].endswith("::remove") and len(t["args"]) > 1 and panics._strip(describe(prog, b, t["args"][1])) == ("lit", 0)]
        pops = pops + [blk for blk, t in front]
        rems = [x for x in rems if x not in front]
        pushes = [(blk, t) for blk, t in b.calls_to(r"VecDeque::<T, A>::(push_back|push_front)$") if on_data(describe(prog, b, t["args"][0]))]
        # every other way of changing the queue's contents is unaccounted for: cache_size would stop being the sum of the stored lengths
        known = set(pops) | set(x[0] for x in rems) | set(x[0] for x in pushes)
        inl_ = {blk_.get("from_closure") for blk_ in b.blocks if blk_.get("from_closure")}
        for fam_b in [b] + [c_ for c_ in prog.all_closures_of(C + "::set") if c_.path not in inl_] + [prog.bodies[x] for x in (C + "::get",) if x in prog.bodies]:
            for blk, t in fam_b.calls():
                tys = t.get("arg_tys") or []
                if not tys or not tys[0].startswith("&mut std::collections::VecDeque"):
                    continue
                if fam_b is b and blk in known:
                    continue
                if core.re.search(r"VecDeque::<T, A>::(iter_mut|get_mut|front_mut|back_mut|as_mut_slices|make_contiguous|reserve|reserve_exact|shrink_to_fit|index_mut)$|IndexMut", t["callee"]):
                    continue
                if not desc_contains(core.describe_r(prog, fam_b, t["args"][0]), lambda y: y[0] == "field" and y[2] == ix["data"]):
                    continue
                chk.ob("R2.pairing", fam_b.path, f"queue mutation {core.short(t['callee'])} is one of the accounted operations (pop_front / remove / push_back with its cache_size update)", False,
                       f"{t['callee']} adds or removes entries without the matching cache_size update: the recorded size drifts from the bytes actually stored "
                       "(phantom bytes evict live entries or make `set` index an empty queue)", where=fam_b.where(blk))
        chk.floor("eviction site", len(pops), 1)
        chk.floor("replace site", len(rems), 1)
        chk.floor("insert site", len(pushes), 1)
        sizes = size_assignments(prog, b, ix)
        chk.floor("cache_size updates in set", len(sizes), 3)
        subs = [(blk, d) for blk, op, d in sizes if op == "Sub"]
        adds = [(blk, d) for blk, op, d in sizes if op == "Add"]
        szb = [x[0] for x in sizes]
        def len_of_item(d, index_pred):
            # len(data[<index>].data)
            for c in core.desc_calls(d):
                if c[1].endswith("::len") and c[2]:
                    x = c[2][0]
                    if desc_contains(x, lambda y: y[0] == "field" and y[2] == ix["item_data"]) and desc_contains(x, lambda y: y[0] == "call" and y[1].endswith("Index<usize>>::index") or (y[0] == "call" and "Index" in y[1])):
                        idxs = [cc[2][1] for cc in core.desc_calls(x) if "Index" in cc[1] and len(cc[2]) > 1]
                        return any(index_pred(i) for i in idxs)
            return False
        for pb in pops:
            ok = False
            for sb, d in subs:
                if len_of_item(d, lambda i: i == ("lit", 0)) and b.dominates(sb, pb) and pb in b.reachable(b.succs(sb) if sb != pb else [pb], removed_nodes=set(x for x in szb if x != sb)):
                    ok = True
            chk.ob("R2.pairing", C + "::set", "pop_front is preceded by cache_size -= data[0].data.len()", ok,
                   "evicting the oldest entry does not subtract exactly its size: cache_size drifts and the limit is no longer kept", where=b.where(pb))
        for rb, t in rems:
            idx = describe(prog, b, t["args"][1])
            ok = False
            for sb, d in subs:
                if len_of_item(d, lambda i: panics._strip(i) == panics._strip(idx)) and b.dominates(sb, rb):
                    ok = True
            # or the other way round: the entry is taken out first and the length of what came out is subtracted
            for sb, d in subs:
                came_out = any(lab_ == "Some" and isinstance(gd_, tuple) and desc_contains(gd_, lambda w_: w_[0] == "call" and len(w_) > 3 and w_[3] == rb)
                               for s2_, lab_, gd_, info_ in core.guards_dominating(prog, b, sb))
                if (b.dominates(rb, sb) or came_out) and desc_contains(d, lambda y: y[0] == "call" and y[1].endswith("::len") and y[2] and
                                                         desc_contains(y[2][0], lambda z: z[0] == "field" and z[2] == ix["item_data"] and
                                                                       desc_contains(z[1], lambda w_: w_[0] == "call" and len(w_) > 3 and w_[3] == rb))):
                    ok = True
            chk.ob("R2.pairing", C + "::set", "remove(existing) is preceded by cache_size -= data[existing].data.len()", ok,
                   "replacing an entry does not subtract the old entry's size", where=b.where(rb))
            chk.ob("R2.pairing", C + "::set", "the removed index is the one found by the key lookup", from_lookup(prog, b, ix, idx), f"{panics.short_desc(idx)}")
        for pb, t in pushes:
            item = describe(prog, b, t["args"][1])
            val = item[3][rv_index(prog, "data")] if item[0] == "variant" else None
            ok = False
            for sb, d in adds:
                if desc_contains(d, lambda y: y[0] == "call" and y[1].endswith("::len") and y[2] and panics._strip(y[2][0]) == panics._strip(val)) and b.dominates(sb, pb):
                    ok = True
            chk.ob("R2.pairing", C + "::set", "push_back is preceded by cache_size += value.len() for the value pushed", ok,
                   "storing an entry does not add exactly its size", where=b.where(pb))
            # every size update is followed by its queue operation
            # R3: room was made
            facts = panics.cmp_facts(prog, b, pb)
            room = False
            def is_field(d, i):
                d = panics._strip(d)
                return d[0] == "field" and d[2] == i and d[1][0] == "param"

            def is_len_of_val(d):
                d = panics._strip(d)
                return d[0] == "call" and d[1].endswith("::len") and d[2] and panics._strip(d[2][0]) == panics._strip(val)
            for (a, op, r) in facts:
                a2 = a
                if a2[0] == "field" and a2[1][0] == "bin":
                    a2 = a2[1]
                if op == "<=" and a2[0] == "bin" and a2[1].startswith("Add") and is_field(r, ix["cache_limit"]):
                    l_, r_ = a2[2], a2[3]
                    if (is_field(l_, ix["cache_size"]) and is_len_of_val(r_)) or (is_field(r_, ix["cache_size"]) and is_len_of_val(l_)):
                        room = True
            chk.ob("R3.limit", C + "::set", "push_back only once cache_size + value.len() <= cache_limit", room,
                   "an entry can be stored although it does not fit: the total size exceeds the configured limit", where=b.where(pb))
            through = [rb for rb, _ in rems]
            edges = lookup_none_edges(prog, b, ix)
            w = core.must_pass(b, [0], [pb], through_nodes=through, through_edges=edges, after_from=False)
            chk.ob("R3.replace", C + "::set", "an existing entry for the key is removed on every path before the new one is pushed", w is None,
                   "two entries for one key can coexist: get may return the older bytes", path=w, where=b.where(pb))
            # stored fields
            if item[0] == "variant":
                f = dict(zip([x["name"] for x in prog.structs[CI]["fields"]], item[3]))
                chk.ob("R3.stored", C + "::set", "the entry stores the given route, host, bytes and MIME type", desc_contains(f["route"], lambda y: y[0] == "param" and y[2] == "route") and
                       f["host"] == ("param", 3, "host") and desc_contains(f["data"], lambda y: y[0] == "param" and y[2] == "value") and desc_contains(f["mime_type"], lambda y: y[0] == "param" and y[2] == "mime_type"),
                       f"{ {k: panics.short_desc(v) for k, v in f.items()} }")
                chk.ob("R3.stored", C + "::set", "cache_time <- the current clock", desc_contains(f["cache_time"], is_clock), "")
        # R3: whatever reaches set is stored — a return without the push is allowed only where the value cannot fit even into an
        # empty cache (value.len() > cache_limit; `>=` would silently refuse an item of exactly the limit and leave the old entry in place)
        push_blocks = [x for x, _ in pushes]
        for rb_ in core.return_blocks(b):
            w_ = core.must_pass(b, [0], [rb_], through_nodes=push_blocks, after_from=False)
            if w_ is None:
                continue
            # the return that is reached without storing: what is known there?
            pm_ = b.pred_map()
            preds_ = pm_.get(rb_, []) if isinstance(pm_, dict) else pm_[rb_]
            bypass = [x for x in b.reachable([0], removed_nodes=set(push_blocks)) if x in preds_ or x == rb_]
            excused = False
            for x in bypass or [rb_]:
                for (a_, op_, r_) in panics.cmp_facts(prog, b, x):
                    la = desc_contains(a_, lambda y: y[0] == "call" and y[1].endswith("::len") and y[2] and desc_contains(y[2][0], lambda z: z[0] == "param" and z[2] == "value"))
                    lr = desc_contains(r_, lambda y: y[0] == "call" and y[1].endswith("::len") and y[2] and desc_contains(y[2][0], lambda z: z[0] == "param" and z[2] == "value"))
                    fa = desc_contains(a_, lambda y: y[0] == "field" and y[2] == ix["cache_limit"])
                    fr = desc_contains(r_, lambda y: y[0] == "field" and y[2] == ix["cache_limit"])
                    if (la and fr and op_ == ">") or (fa and lr and op_ == "<"):
                        excused = True
            chk.ob("R3.stored", C + "::set", "every call of set stores the value (a return without push_back only under value.len() > cache_limit)", excused,
                   "set can return without storing a value that fits: the next lookup misses, or finds the older bytes of the same key", path=w_, where=b.where(rb_))
        for sb, d in subs + adds:
            ops = pops + [x for x, _ in rems] + [x for x, _ in pushes]
            # the update and the queue operation may sit in one block (statement, then the call terminator)
            w = None if sb in ops else core.must_pass(b, [sb], core.return_blocks(b) + [x for x in szb if x != sb], through_nodes=ops)
            if w is not None:
                # the queue operation may also come first (take the entry out, then account for it): since the previous update / entry
                w2 = core.must_pass(b, [0] + [x for x in szb if x != sb], [sb], through_nodes=ops, after_from=True) if sb != 0 else ["entry"]
                back = core.must_pass(b, [sb], [sb], through_nodes=ops)
                if w2 is None and back is None:
                    w = None
            chk.ob("R2.pairing", C + "::set", "every cache_size update is followed by its queue operation before the next update / return", w is None, "", path=w, where=b.where(sb))
    # ---- get
    b = prog.bodies.get(C + "::get")
    if b:
        somes = core.ok_return_blocks(b, "Some")
        # `(!is_stale).then_some(item)`: a Some exit whose condition is the first argument
        thens = []
        d0_ = describe(prog, b, 0)
        for c_ in ([d0_] if d0_[0] == "call" else (d0_[1] if d0_[0] == "multi" else [])):
            if isinstance(c_, tuple) and c_ and c_[0] == "call" and c_[1].endswith("bool>::then_some") or (isinstance(c_, tuple) and c_ and c_[0] == "call" and c_[1].endswith("::then_some")):
                thens.append(c_)
        chk.floor("Some(item) exits of get", len(somes) + len(thens), 1)
        for c_ in thens:
            cond, item = c_[2][0], panics._strip(c_[2][1])
            neg = False
            while isinstance(cond, tuple) and cond and cond[0] == "un" and cond[1] == "Not":
                neg, cond = not neg, cond[2]
            fresh = False
            if isinstance(cond, tuple) and cond and cond[0] == "bin" and cond[1] in ("Gt", "Ge", "Le", "Lt"):
                opn = cond[1]
                if neg:
                    opn = {"Gt": "Le", "Ge": "Lt", "Le": "Gt", "Lt": "Ge"}[opn]
                a, r = cond[2], cond[3]
                if opn in ("Le", "Lt") and desc_contains(a, lambda y: y[0] == "bin" and y[1].startswith("Sub")) and \
                        desc_contains(a, lambda y: y[0] == "field" and y[2] == ix["item_time"] and panics._strip(y[1]) == item) and \
                        desc_contains(a, is_clock) and desc_contains(r, lambda y: y[0] == "field" and y[2] == ix["cache_time_limit"]):
                    fresh = True
            chk.ob("R4.fresh", C + "::get", "Some(item) only under age(item) <= cache_time_limit on that same item", fresh,
                   "a stale (or differently keyed) entry can be returned")
            chk.ob("R4.fresh", C + "::get", "the item returned is the one the key lookup found", from_lookup(prog, b, ix, item), f"{panics.short_desc(item)}")
        for sb in somes:
            for s_ in b.blocks[sb]["stmts"]:
                rv = s_.get("rv")
                if rv and rv.get("k") == "agg" and rv.get("variant") == "Some" and s_["pl"]["l"] == 0:
                    item = panics._strip(describe(prog, b, rv["ops"][0]))
                    fresh = False
                    for (a, op, r) in panics.cmp_facts(prog, b, sb):
                        # (time - item.cache_time) <= limit
                        if op in ("<=", "<") and desc_contains(a, lambda y: y[0] == "bin" and y[1].startswith("Sub")) and \
                                desc_contains(a, lambda y: y[0] == "field" and y[2] == ix["item_time"] and panics._strip(y[1]) == item) and \
                                desc_contains(a, is_clock) and \
                                desc_contains(r, lambda y: y[0] == "field" and y[2] == ix["cache_time_limit"]):
                            fresh = True
                    chk.ob("R4.fresh", C + "::get", "Some(item) only under age(item) <= cache_time_limit on that same item", fresh,
                           "a stale (or differently keyed) entry can be returned", where=b.where(sb))
                    chk.ob("R4.fresh", C + "::get", "the item returned is the one the key lookup found", from_lookup(prog, b, ix, item), f"{panics.short_desc(item)}")
    # ---- the size limit is an invariant of the critical section that evicts *and* inserts: outside cache.rs the cache is changed through
    # `set` only.  A handler that makes room under one write guard and inserts under another lets two misses interleave as
    # make_room(A); make_room(B); insert(A); insert(B) — both insertions were measured against the same free space
    n_out = 0
    for p_, hb_ in sorted(prog.bodies.items()):
        if not p_.startswith("humphrey_server::") or p_.startswith("humphrey_server::server::cache::") or "promoted" in p_:
            continue
        n_out += 1
        for blk_, t_ in hb_.calls_to(r"server::cache::Cache::\w+$"):
            tys_ = t_.get("arg_tys") or [""]
            if tys_[0].startswith("&mut") and not t_["callee"].endswith("Cache::set"):
                chk.ob("R6.one_critical_section", p_, f"the cache is changed from outside through Cache::set only [{t_['callee'].rsplit('::', 1)[-1]}]", False,
                       f"{core.short(t_['callee'])} mutates the cache from the handler: eviction and insertion are no longer one critical section, so the total size can exceed the limit "
                       "under two concurrent misses", where=hb_.where(blk_))
        # the same through helpers that were inlined into the handler: a store to / mutable borrow of Cache.data or Cache.cache_size
        for bi_, blk_ in enumerate(hb_.blocks):
            if blk_.get("cleanup"):
                continue
            for st_ in blk_["stmts"]:
                if "pl" not in st_ or "rv" not in st_:
                    continue
                rv_ = st_["rv"]
                cands_ = [(st_["pl"], "assigned")]
                if rv_.get("k") in ("ref", "rawptr") and rv_.get("mut", rv_.get("k") == "rawptr") and rv_.get("pl"):
                    cands_.append((rv_["pl"], "mutably borrowed"))
                for pl_, how_ in cands_:
                    cur_ = hb_.local_ty(pl_["l"]) or ""
                    for e_ in pl_["p"]:
                        if e_[0] == "f":
                            base_ = cur_
                            while base_.startswith("&"):
                                base_ = base_[1:].lstrip()
                                if base_.startswith("mut "):
                                    base_ = base_[4:]
                            if base_.endswith("server::cache::Cache") and e_[1] in (ix["data"], ix["cache_size"]):
                                chk.ob("R6.one_critical_section", p_, "the cache's queue and size are changed inside Cache::set only", False,
                                       f"Cache.{'data' if e_[1] == ix['data'] else 'cache_size'} is {how_} in the handler (directly or through an inlined helper): eviction and insertion "
                                       "are no longer one critical section", where=hb_.where(bi_))
                            cur_ = e_[2]
                        elif e_[0] == "d":
                            if cur_.startswith("&"):
                                cur_ = cur_[1:].lstrip()
                                if cur_.startswith("mut "):
                                    cur_ = cur_[4:]
    chk.ob("R6.one_critical_section", "humphrey_server", "bodies outside cache.rs scanned for piecemeal cache mutation", n_out >= 10, f"{n_out} bodies")
    # ---- handlers
    h = prog.bodies.get("humphrey_server::server::static::inner_file_handler")
    chk.floor("inner_file_handler", 1 if h else 0, 1)
    if h:
        sets = h.calls_to(r"cache::Cache::set$")
        chk.floor("Cache::set call sites", len(sets), 1)
        allsets = prog.callers_of(r"^humphrey_server::server::cache::Cache::set$")
        chk.ob("R5.only_caller", "Cache::set", "inner_file_handler is the only caller of Cache::set", all(cb.path == h.path for cb, _, _ in allsets), f"{[cb.path for cb, _, _ in allsets]}")
        for blk, t in sets:
            val = panics._strip(describe(prog, h, t["args"][3]))
            ok = False
            for (a, op, r) in panics.cmp_facts(prog, h, blk):
                if op in (">=",) and desc_contains(a, lambda y: y[0] == "field" and y[2] == fidx(prog, "humphrey_server::config::config::CacheConfig", "size_limit")) and \
                        desc_contains(r, lambda y: y[0] == "call" and y[1].endswith("::len")):
                    ok = True
                if op in ("<=",) and desc_contains(r, lambda y: y[0] == "field" and y[2] == fidx(prog, "humphrey_server::config::config::CacheConfig", "size_limit")) and \
                        desc_contains(a, lambda y: y[0] == "call" and y[1].endswith("::len")):
                    ok = True
            chk.ob("R5.fits", h.path, "set is called only when size_limit >= contents.len()", ok,
                   "an item larger than the whole cache reaches Cache::set: its eviction loop empties the queue and then indexes data[0]", where=h.where(blk))
            recv = describe(prog, h, t["args"][0])
            chk.ob("R6.exclusive", h.path, "Cache::set is reached through the RwLock write guard", desc_contains(recv, lambda y: y[0] == "call" and y[1].endswith("RwLock::<T>::write")), f"{panics.short_desc(recv)}")
            body_d = None
            for blk2, t2 in h.calls_to(r"Response::with_bytes$"):
                body_d = panics._strip(describe(prog, h, t2["args"][1]))
            chk.ob("R5.same_bytes", h.path, "the bytes cached are the bytes served", body_d is not None and (body_d == val or desc_contains(val, lambda y: y == body_d) or desc_contains(body_d, lambda y: y == val)), f"cached {panics.short_desc(val)} served {panics.short_desc(body_d) if body_d else None}")
        sig = prog.fns.get(C + "::set", {}).get("sig", "")
        chk.ob("R6.exclusive", C + "::set", "set takes &mut self", core.re.search(r"fn\(&('\w+ )?mut ", sig) is not None, sig[:80])
    cc = prog.bodies.get("humphrey_server::server::static::cache_check")
    chk.floor("cache_check", 1 if cc else 0, 1)
    if cc:
        gets = cc.calls_to(r"cache::Cache::get$")
        chk.floor("Cache::get call site", len(gets), 1)
        for blk, t in gets:
            recv = describe(prog, cc, t["args"][0])
            chk.ob("R6.exclusive", cc.path, "Cache::get is reached through the RwLock read guard", desc_contains(recv, lambda y: y[0] == "call" and y[1].endswith("RwLock::<T>::read")), "")
            k = [describe(prog, cc, a) for a in t["args"][1:]]
            uri = fidx(prog, "humphrey::http::request::Request", "uri")
            chk.ob("R5.lookup_key", cc.path, "lookup key is (request.uri, host)", desc_contains(k[0], lambda y: y[0] == "field" and y[2] == uri) and k[1] == ("param", 3, "host"), f"{[panics.short_desc(x) for x in k]}")
        for blk, t in cc.calls_to(r"Response::with_bytes$"):
            bd = describe(prog, cc, t["args"][1])
            resp = describe(prog, cc, t["args"][0])
            item_b = [y for y in _fields(bd) if y[2] == ix["item_data"]]
            item_m = [y for y in _fields(resp) if y[2] == ix["item_mime"]]
            same = bool(item_b) and bool(item_m) and panics._strip(item_b[0][1]) == panics._strip(item_m[0][1])
            chk.ob("R5.same_item", cc.path, "a cache hit serves body and Content-Type of the same cached item", same and desc_contains(bd, lambda y: y[0] == "call" and len(y) > 3 and y[3] in [g for g, _ in gets]),
                   f"body from {panics.short_desc(bd)}, type from {[panics.short_desc(m) for m in item_m]}", where=cc.where(blk))
    if h:
        for blk, t in h.calls_to(r"cache::Cache::set$"):
            k = [describe(prog, h, a) for a in t["args"][1:3]]
            uri = fidx(prog, "humphrey::http::request::Request", "uri")
            chk.ob("R5.lookup_key", h.path, "store key is (request.uri, host) — the key cache_check looks up", desc_contains(k[0], lambda y: y[0] == "field" and y[2] == uri) and k[1] == ("param", 4, "host"), f"{[panics.short_desc(x) for x in k]}")
    _typing_witness(chk)

def _fields(d, out=None):
    out = [] if out is None else out
    if isinstance(d, tuple):
        if d and d[0] == "field":
            out.append(d)
        for x in d:
            _fields(x, out)
    elif isinstance(d, list):
        for x in d:
            _fields(x, out)
    return out


def rv_index(prog, name):
    return fidx(prog, CI, name)


def _typing_witness(chk):
    """thorough tier: compile-fail witness with compiling twin (rustdoc `compile_fail,E0xxx` on nightly)."""
    if chk.tier != "thorough":
        return
    from .. import witness
    ok, res = witness.run("C16")
    chk.extra["typing_witness"] = res
    chk.ob("R6.typing_witness", "witness/typing", "Cache::set does not type-check through a read guard (compile_fail E0596 + compiling twin)", ok, "Cache::set no longer needs exclusive access: concurrent stores are not excluded by the type: " + str(res)[:300])

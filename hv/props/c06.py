"""C06 — static handlers never leave their directory and serve what is inside it intact (structural clauses)."""
import json
import os

from .. import core, tables, fmt, panics
from ..core import describe_r as describe, desc_contains, resolve_upvars

ORACLES = os.path.join(os.path.dirname(os.path.dirname(os.path.dirname(os.path.abspath(__file__)))), "oracles")

FS_SINK = (r"^std::fs::(File::open|metadata|canonicalize|read_dir|read|read_to_string|symlink_metadata)$|"
           r"^std::fs::OpenOptions::open$|^tokio::fs::(File::open|metadata|canonicalize|read|read_dir|read_to_string)$|"
           r"^tokio::fs::OpenOptions::open$|^std::path::Path::(canonicalize|metadata|read_dir|exists|is_file|is_dir|symlink_metadata)$")
ALL = [lambda n: True]


def handler_bodies(prog, cfg):
    """Bodies that implement the directory/file handlers (role: contain a file-system sink and belong to the handler modules)."""
    out = []
    for p, b in prog.bodies.items():
        if "promoted" in p:
            continue
        if not (p.startswith("humphrey::handlers::") or p.startswith("humphrey::tokio::handlers::") or p.startswith("humphrey::route::try_find_path")
                or p.startswith("humphrey_server::server::static::") or p.startswith("<humphrey::tokio::handlers::")):
            continue
        if b.calls_to(FS_SINK):
            out.append(b)
    return out


def is_request_param(prod):
    if prod.kind != "param":
        return False
    ty = prod.body.local_ty(prod.data)
    return "http::request::Request" in ty


def all_subtrees(d, acc=None):
    if acc is None:
        acc = set()
    if isinstance(d, tuple):
        acc.add(d_key(d))
        for x in d:
            all_subtrees(x, acc)
    elif isinstance(d, list):
        for x in d:
            all_subtrees(x, acc)
    return acc


def d_key(d):
    return repr(d)


def strip_wrappers(d):
    while isinstance(d, tuple) and d and d[0] == "call" and core.re.search(r"(Deref::deref|AsRef::as_ref|::as_str|Borrow::borrow|ToOwned::to_owned|Clone::clone|::as_ref|::deref)$", d[1]) and d[2]:
        d = d[2][0]
    return d


def traversal_guards(prog, body, blk):
    """Values V such that block blk is dominated by the false edge of `V.contains("..")`."""
    vals = []
    host, hblk, depth = body, blk, 0
    while host is not None and depth < 4:
        for s, lab, d, info in core.guards_dominating(prog, host, hblk):
            if lab != "false":
                continue
            for c in core.desc_calls(d):
                if c[1].endswith("str>::contains") or c[1].endswith("::contains"):
                    if len(c[2]) >= 2 and c[2][1] == ("lit", ".."):
                        v = c[2][0]
                        cur, n = host, 0
                        while cur is not None and cur.kind in ("closure", "coroutine") and n < 4:
                            v = resolve_upvars(prog, cur, v)
                            cur = prog.bodies.get(cur.parent)
                            n += 1
                        vals.append(strip_wrappers(v))
        # a closure runs only where it was created or later: the tests dominating its creation hold inside it as well
        # (the tested values are immutable strings; a closure stored and called elsewhere still captured the tested value)
        if host.kind not in ("closure", "coroutine"):
            break
        site = core.closure_site(prog, host)
        if site is None:
            break
        host, hblk = site
        depth += 1
    return vals


PATH_BUILD_OK = (r"(fmt::format|Arguments::new\w*|Arguments::<'a>::new\w*|PathBuf as std::convert::From<[^>]*>>::from|Path::new|Path::join|PathBuf::push|"
                 r"Path::to_path_buf|String as std::convert::From<[^>]*>>::from|::to_string|::to_owned|::clone|::deref|::as_ref|::as_str|::as_path|::borrow|::into|"
                 r"trim_start_matches|Argument::<'_>::new_display|Argument::new_display|hint::must_use|hv::concat)$")


def transformed_after_test(d, guard_key):
    """Calls between the value handed to the file system (d) and the tested value inside it that are not path building.
    Returns None if the tested value does not occur in d at all."""
    best = [None]

    def walk(x, trail):
        if isinstance(x, tuple):
            if d_key(strip_wrappers(x)) == guard_key or d_key(x) == guard_key:
                odd = [c for c in trail if not core.re.search(PATH_BUILD_OK, c)]
                if best[0] is None or len(odd) < len(best[0]):
                    best[0] = odd
                return
            t2 = trail + [x[1]] if x and x[0] == "call" else trail
            for y in x:
                walk(y, t2)
        elif isinstance(x, list):
            for y in x:
                walk(y, trail)
    walk(d, [])
    return best[0]


def expand_builders(prog, b, d):
    """A path assembled by mutation — `let mut p = String::with_capacity(..); p.push_str(dir); p.push('/'); p.push_str(rel)` — is described
    by what was appended to it (core.describe only sees the constructor): the constructor call is replaced by
    ('call', 'hv::concat', [appended pieces])."""
    from .c09 import mutations_of

    def walk(y):
        if isinstance(y, tuple):
            if y and y[0] == "call" and core.re.search(r"string::String::(with_capacity|new)$|path::PathBuf::(new|with_capacity)$", y[1]) and len(y) > 3 and isinstance(y[3], int):
                t = b.term(y[3])
                if t and t.get("dest") is not None and not t["dest"]["p"]:
                    pieces = []
                    for m in mutations_of(prog, b, t["dest"]["l"]):
                        if m[0] == "call" and core.re.search(r"::(push_str|push|extend|add_assign|insert_str|insert|set_extension|set_file_name)$", m[1] or ""):
                            pieces.append(describe(prog, b, m[3]["args"][-1]))
                        elif m[0] == "call":
                            pieces.append(("call", m[1] or "?", [], m[2]))
                    if pieces:
                        return ("call", "hv::concat", pieces, y[3])
            return tuple(walk(z) for z in y)
        if isinstance(y, list):
            return [walk(z) for z in y]
        return y
    return walk(d)


def count_calls(d, suffix):
    """Distinct call sites (callee, block) in a description (the tree repeats shared sub-terms)."""
    return len(set((c[1], c[3] if len(c) > 3 else None) for c in core.desc_calls(d) if c[1].endswith(suffix)))


def analyse_sinks(chk, prog, cfg):
    bodies = handler_bodies(prog, cfg)
    n_sinks = 0
    n_tainted = 0
    tfp_ok = None
    for b in sorted(bodies, key=lambda x: x.path):
        fn = b.path
        for blk, t in b.calls_to(FS_SINK):
            n_sinks += 1
            chk.call_sites += 1
            arg = t["args"][0]
            al = core.op_local(arg)
            prods = core.slice_back(prog, b, al, follow_args_of=ALL) if al is not None else []
            tainted = any(is_request_param(p) for p in prods)
            # inside try_find_path the tainted input is its own `request_path` parameter
            in_tfp = fn.startswith("humphrey::route::try_find_path")
            if in_tfp:
                tainted = any(p.kind == "param" and p.body.local_name(p.data) == "request_path" for p in prods)
            sname = t["callee"].split("::")[-1]
            if not tainted:
                chk.ob("R1.traversal", fn, f"{sname}: path not request-derived", True, where=b.where(blk), cfg=cfg)
                continue
            n_tainted += 1
            via_tfp = any(p.kind == "call" and p.name().endswith("route::try_find_path") for p in prods)
            d = expand_builders(prog, b, describe(prog, b, arg))
            if b.kind in ("closure", "coroutine"):
                d = resolve_upvars(prog, b, d)
            guards = traversal_guards(prog, b, blk)
            subs = all_subtrees(d)
            same_value = any(d_key(g) in subs for g in guards)
            if via_tfp and not in_tfp:
                chk.ob("R1.traversal", fn, f"{sname}(request-derived path) sanitised by try_find_path", True, where=b.where(blk), cfg=cfg)
                continue
            ok = same_value
            detail = ("a path derived from the request target reaches the file system without the `..` test on that same value "
                      f"(guards on: {[core.short(str(g))[:60] for g in guards]})")
            if same_value:
                odd = None
                for g in guards:
                    o = transformed_after_test(d, d_key(g))
                    if o is not None and (odd is None or len(o) < len(odd)):
                        odd = o
                if odd:
                    ok = False
                    detail = (f"the value tested for `..` is transformed by {[core.short(x) for x in odd]} before it reaches the file system: what is opened is not what "
                              "was tested (e.g. %2e%2e passes the test on the raw path and is decoded afterwards)")
            chk.ob("R1.traversal", fn, f"{sname}(request-derived path) dominated by !contains(\"..\") on the same value", ok, detail, where=b.where(blk), cfg=cfg)
            if in_tfp:
                n_dec = count_calls(d, "percent_decode")
                dec_in_guard = any(count_calls(g, "percent_decode") >= 1 for g in guards)
                chk.ob("R1.decode_once", fn, f"{sname}: tested value is the percent-decoded path, decoded exactly once", n_dec == 1 and dec_in_guard,
                       f"{n_dec} percent_decode call(s) on the way to the sink; test applied to decoded value: {dec_in_guard} "
                       "(testing the raw path and opening the decoded one lets %2e%2e through; decoding twice lets %252e%252e through)", where=b.where(blk), cfg=cfg)
            # R2: the joined path cannot be re-rooted
            joins = [c for c in core.desc_calls(d) if core.re.search(r"Path::join$|PathBuf::push$", c[1])]
            for j in joins:
                comp = j[2][1] if len(j[2]) > 1 else None
                safe = comp is not None and desc_contains(comp, lambda y: y[0] == "call" and y[1].endswith("trim_start_matches"))
                chk.ob("R2.no_reroot", fn, f"{sname}: Path::join component has its leading slashes trimmed", safe,
                       "Path::join with a component that may start with '/' replaces the directory", where=b.where(blk), cfg=cfg)
    chk.floor(f"file-system sinks in handler modules [{cfg}]", n_sinks, 3)
    chk.floor(f"request-derived sinks [{cfg}]", n_tainted, 2)
    # format-built paths: directory first
    tfp = prog.bodies.get("humphrey::route::try_find_path")
    if tfp:
        hosts = [tfp] + [prog.bodies[c] for c in prog.closures_of(tfp.path) if c in prog.bodies]
        sites = [(h, blk, parts) for h in hosts for blk, parts in fmt.format_sites(h)]
        chk.floor(f"path construction sites in try_find_path [{cfg}]", len(sites), 1)
        for h, blk, parts in sites:
            first = parts[0] if parts else None
            ok = bool(first) and first[0] == "arg" and first[1] is not None and \
                desc_contains(describe(prog, h, first[1]), lambda y: y[0] == "param" and y[2] == "directory") and \
                len(parts) > 1 and parts[1][0] == "lit" and parts[1][1].startswith("/")
            chk.ob("R2.no_reroot", h.path, "path = <directory> + '/' + <checked relative path>", ok,
                   f"path template is {[(p[0], p[1] if p[0]=='lit' else '') for p in parts]}", where=h.where(blk), cfg=cfg)


def content_and_type(chk, prog, cfg):
    """R3: body <- read_to_end buffer of the opened file; Content-Type <- from_extension(extension of that path)."""
    n = 0
    for b in handler_bodies(prog, cfg):
        fn = b.path
        reads = b.calls_to(r"(Read::read_to_end|AsyncReadExt::read_to_end)$")
        # "returned intact": a served file is read whole (read_to_end / read_to_string / fs::read); a single read / read_buf / read_exact into
        # a pre-sized buffer returns what one system call delivers (tokio: at most its 2 MiB chunk), i.e. a prefix, with status 200
        for blk, t in b.calls():
            tys = t.get("arg_tys") or []
            if tys and core.re.search(r"fs::File\b", tys[0]) and core.call_matches(t, r"(Read|AsyncReadExt|AsyncRead|BufRead|AsyncBufReadExt)::(read|read_buf|read_exact|read_vectored|take|fill_buf|read_until|read_line|poll_read)$"):
                chk.ob("R3.whole_file", fn, "the opened file is read whole (read_to_end / read_to_string)", False,
                       f"{core.short(t['callee'])} on the opened file returns after one read: a large file is served as a prefix of itself with status 200", where=b.where(blk), cfg=cfg)
        if not reads:
            continue
        if fn in set(getattr(prog, "new_functions", []) or []):
            continue        # a helper split off the handler: looked at where it was inlined
        for blk, t in reads:
            buf = describe(prog, b, t["args"][1])
            fil = describe(prog, b, t["args"][0])
            opened = desc_contains(fil, lambda y: y[0] == "call" and core.re.search(r"File::open$", y[1]) is not None)
            # responses built after the read
            after = b.reachable(b.succs(blk))
            news = [(blk2, t2) for blk2, t2 in b.calls_to(r"response::Response::(new|with_bytes)$") if blk2 in after]
            chk.floor(f"{core.short(fn)}: response built from the file buffer [{cfg}]", len(news), 1)
            for blk2, t2 in news:
                n += 1
                bd = describe(prog, b, t2["args"][1])
                same = strip_wrappers(bd) == strip_wrappers(buf) or desc_contains(bd, lambda y: y == strip_wrappers(buf))
                chk.ob("R3.body", fn, "response body <- the read_to_end buffer of the opened file", same and opened,
                       f"body is {core.short(str(bd))[:100]}", where=b.where(blk2), cfg=cfg)
        # content type
        for blk, t in b.calls_to(r"mime::MimeType::from_extension$"):
            d = describe(prog, b, t["args"][0])
            if d == ("lit", ""):
                # the arm for a path without an extension: from_extension("") under the None edge of path.extension()
                gs = core.guards_dominating(prog, b, blk)
                none_arm = any(lab == "None" and isinstance(gd, tuple) and gd[0] == "call" and gd[1].endswith("Path::extension") for s_, lab, gd, info in gs)
                chk.ob("R3.content_type", fn, "no extension -> MimeType::from_extension(\"\")", none_arm,
                       "from_extension(\"\") is used although the path may have an extension", where=b.where(blk), cfg=cfg)
                continue
            ok = desc_contains(d, lambda y: y[0] == "call" and y[1].endswith("Path::extension"))
            # the extension must be of the path that was opened
            ext_calls = [c for c in core.desc_calls(d) if c[1].endswith("Path::extension")]
            opens = [describe(prog, b, t2["args"][0]) for _, t2 in b.calls_to(r"File::open$")]
            same_path = any(strip_wrappers(c[2][0]) == strip_wrappers(o) or
                            desc_contains(strip_wrappers(o), lambda y: y == strip_wrappers(c[2][0])) or
                            desc_contains(strip_wrappers(c[2][0]), lambda y: y == strip_wrappers(o))
                            for c in ext_calls for o in opens)
            chk.ob("R3.content_type", fn, "Content-Type <- MimeType::from_extension(extension of the opened path)", ok and same_path,
                   f"from_extension argument is {core.short(str(d))[:140]}", where=b.where(blk), cfg=cfg)
    chk.floor(f"file-backed responses [{cfg}]", n, 3)


def mime_table(chk, prog, cfg):
    with open(os.path.join(ORACLES, "mime.json")) as fh:
        oracle = {k: v for k, v in json.load(fh).items() if k != "_source"}
    f = "humphrey::http::mime::MimeType::from_extension"
    g = prog.impl_fn(r"^<humphrey::http::mime::MimeType as std::string::ToString>$", "to_string") + \
        prog.impl_fn(r"^<humphrey::http::mime::MimeType as std::fmt::Display>$", "fmt")
    chk.floor("MimeType::from_extension", 1 if f in prog.hir else 0, 1)
    chk.floor("MimeType to_string", len(g), 1)
    if f not in prog.hir or not g:
        return
    m = tables.main_table(prog, f)
    e2v, rest, dup = tables.simple_map(m, key_kinds=("lit",))
    ms = [t for t in tables.fn_tables(prog, g[0]) if "MimeType" in t.get("scrut_ty", "")]
    v2s_raw, rest2, _ = tables.simple_map(ms[0], key_kinds=("path",)) if ms else ({}, [], [])
    v2s = {tables.variant_name(k): v[1] for k, v in v2s_raw.items() if v[0] == "lit"}
    variants = [v["name"] for v in prog.enums["humphrey::http::mime::MimeType"]["variants"]]
    for v in variants:
        chk.ob("R3.mime_total", "MimeType", f"{v} has a type string", bool(v2s.get(v)), f"to_string gives {v2s.get(v)!r}", cfg=cfg)
    for ext, want in oracle.items():
        if ext == "_default":
            continue
        val = e2v.get(ext)
        got = v2s.get(tables.variant_name(val[1])) if val and val[0] == "path" else None
        chk.ob("R3.mime_table", "MimeType", f".{ext} -> {want[0]}", got in want, f"extension {ext!r} is served as {got!r}, registry says {want}", cfg=cfg)
    for ext, val in e2v.items():
        if ext not in oracle:
            got = v2s.get(tables.variant_name(val[1])) if val[0] == "path" else None
            chk.ob("R3.mime_table", "MimeType", f".{ext}: extension outside the reference table maps to a registered string", got is not None, cfg=cfg)
    dflt = [v for keys, gd, v, line in rest if keys == [("rest",)]]
    got = v2s.get(tables.variant_name(dflt[0][1])) if dflt and dflt[0][0] == "path" else None
    chk.ob("R3.mime_table", "MimeType", "unknown extension -> application/octet-stream", got in oracle["_default"], f"default is {got!r}", cfg=cfg)
    chain, base = tables.scrutinee_chain(m)
    chk.ob("R3.mime_table", "MimeType", "extension matched as given", chain == [], f"scrutinee chain {chain}", cfg=cfg)


def directory_protocol(chk, prog, cfg):
    """R4: Directory -> 301 Location = uri + '/'; INDEX_FILES order."""
    n = 0
    newf = set(getattr(prog, "new_functions", []) or [])
    for p, b in prog.bodies.items():
        if "promoted" in p or p in newf:
            continue        # (a helper split off a handler is looked at where it was inlined)
        if not (p.startswith("humphrey::handlers::") or p.startswith("humphrey::tokio::handlers::") or p.startswith("<humphrey::tokio::handlers::")
                or p.startswith("humphrey_server::server::static::directory_handler")):
            continue
        for blk, t in b.calls_to(r"response::Response::with_header$"):
            if not core.is_variant(describe(prog, b, t["args"][1]), "HeaderType", "Location"):
                continue
            gs = core.guards_dominating(prog, b, blk)
            in_dir = any(lab == "Directory" for s, lab, d, info in gs)
            if not in_dir:
                continue
            n += 1
            resp = describe(prog, b, t["args"][0])
            st = desc_contains(resp, lambda y: y[0] == "call" and y[1].endswith("Response::empty") and core.is_variant(y[2][0], "StatusCode", "MovedPermanently"))
            chk.ob("R4.directory", b.path, "directory without trailing slash -> 301", st, f"response is {core.short(str(resp))[:100]}", where=b.where(blk), cfg=cfg)
            val = describe(prog, b, t["args"][2])
            fblocks = [c[3] for c in core.desc_calls(val) if "fmt::Arguments" in c[1]]
            parts = fmt.format_parts(b, fblocks[0]) if fblocks else None
            ok = False
            if parts and len(parts) == 2 and parts[0][0] == "arg" and parts[1] == ("lit", "/"):
                ad = describe(prog, b, parts[0][1])
                uri_idx = next(i for i, x in enumerate(prog.structs["humphrey::http::request::Request"]["fields"]) if x["name"] == "uri")
                # ... the whole request target, through reference conversions only (the route-stripped path is a relative reference that a
                # client resolves against the wrong base below the first level)
                odd_ = [c_[1] for c_ in core.desc_calls(ad) if not panics._STRIP_RX.search(c_[1])]
                ok = desc_contains(ad, lambda y: y[0] == "field" and y[2] == uri_idx) and not odd_ and not desc_contains(ad, lambda y: y[0] == "multi")
            chk.ob("R4.directory", b.path, "Location = request.uri + '/'", ok, f"Location template {parts}", where=b.where(blk), cfg=cfg)
    chk.floor(f"directory redirect sites [{cfg}]", n, 2 if cfg == "A" else 1)
    consts = [p for p in prog.bodies if p.endswith("::INDEX_FILES") and prog.bodies[p].kind == "const"]
    chk.floor(f"INDEX_FILES constants [{cfg}]", len(consts), 2 if cfg == "A" else 1)
    for c in consts:
        d = describe(prog, prog.bodies[c], 0)
        chk.ob("R4.index_files", c, "INDEX_FILES == [index.html, index.htm]", d == ("array", [("lit", "index.html"), ("lit", "index.htm")]), f"value {d}", cfg=cfg)
    tfp = prog.bodies.get("humphrey::route::try_find_path")
    if tfp:
        bad = tfp.calls_to(r"::(rev|last|rfind|max|min|sort|sort_unstable|skip|nth)$")
        chk.ob("R4.index_files", tfp.path, "index files are tried in the given order", not bad, f"order-changing call {[t['callee'] for _, t in bad]}", cfg=cfg)
        # a missing / unreadable index file does not end the search: inside the loop over the index files the only way out of the function
        # is returning the file that was found (`metadata(..).ok()?` in the loop body would answer 404 before index.htm is tried)
        for nb, nt in tfp.calls_to(r"Iterator>?::next$"):
            recv = describe(prog, tfp, nt["args"][0])
            if not desc_contains(recv, lambda y: y[0] == "param" and y[2] == "index_files"):
                continue
            from .c01 import some_edge_of
            for (sb_, tgt_) in some_edge_of(prog, tfp, nb, "Some"):
                body_blocks = tfp.reachable([tgt_], removed_nodes={nb})
                exits = []
                for x in sorted(body_blocks):
                    for s_ in tfp.blocks[x]["stmts"]:
                        if "pl" in s_ and s_["pl"]["l"] == 0 and not s_["pl"]["p"]:
                            rv_ = s_["rv"]
                            exits.append((x, "Some" if rv_.get("k") == "agg" and rv_.get("variant") == "Some" else "other"))
                    t_ = tfp.term(x)
                    if t_ and t_["k"] == "call" and t_.get("dest") and t_["dest"]["l"] == 0 and not t_["dest"]["p"]:
                        exits.append((x, "other"))
                # exits that belong to the code after the loop are reached through the loop head only; those were cut off above
                early = [x for x, k_ in exits if k_ != "Some"]
                chk.ob("R4.index_files", tfp.path, "a missing index file does not end the search (the loop is left early only with the file found)", not early,
                       f"the loop over the index files can return without a file at {[tfp.where(x) for x in early][:3]}: index.htm is never tried when index.html is absent",
                       where=tfp.where(nb), cfg=cfg)
        # only regular files are returned as File: is_file() true edge dominates LocatedPath::File construction
        n_file = 0
        for h in [tfp] + [prog.bodies[c] for c in prog.closures_of(tfp.path) if c in prog.bodies]:
            for blk_i, blk in enumerate(h.blocks):
                for s in blk["stmts"]:
                    rv = s.get("rv")
                    if rv and rv.get("k") == "agg" and rv.get("adt", "").endswith("LocatedPath") and rv.get("variant") == "File":
                        n_file += 1
                        gs = core.guards_dominating(prog, h, blk_i)
                        ok = any(lab == "true" and desc_contains(d, lambda y: y[0] == "call" and y[1].endswith("Metadata::is_file")) for s_, lab, d, info in gs)
                        chk.ob("R4.regular_file", h.path, "LocatedPath::File only for is_file() paths", ok,
                               "a non-regular file can be returned as a file to serve", where=h.where(blk_i), cfg=cfg)
        chk.floor(f"LocatedPath::File construction sites [{cfg}]", n_file, 1)


REF_CONV = r"(::|>::)(deref|deref_mut|as_ref|as_mut|as_str|borrow|clone|to_owned|to_string|into|from)$"
PATH_DERIVATION_OK = [r"str::<impl str>::strip_prefix$", r"str::<impl str>::strip_suffix$", r"Option::<T>::unwrap_or$", REF_CONV]


def _same(a, b):
    return d_key(strip_wrappers(a)) == d_key(strip_wrappers(b))


def strip_equiv(prog, body, d):
    """(base, affix, 'prefix' | 'suffix') when d is `base.strip_prefix(affix).unwrap_or(base)` (resp. suffix) or its slicing equivalent
    `if base.starts_with(affix) { &base[affix.len()..] } else { base }` (resp. `ends_with` / `&base[..base.len() - affix.len()]`)."""
    d = strip_wrappers(d)
    if not isinstance(d, tuple) or not d:
        return None
    if d[0] == "call" and d[1].endswith("Option::<T>::unwrap_or") and len(d[2]) == 2:
        inner, dflt = strip_wrappers(d[2][0]), d[2][1]
        m = inner[0] == "call" and core.re.search(r"str::<impl str>::strip_(prefix|suffix)$", inner[1])
        if m and len(inner[2]) == 2 and _same(inner[2][0], dflt):
            return strip_wrappers(dflt), inner[2][1], m.group(1)
        return None
    if d[0] != "multi" or len(d) < 5 or len(d[1]) != 2 or len(d[4]) != 2:
        return None
    for i in (0, 1):
        sl, keep, bs, bk = d[1][i], d[1][1 - i], d[4][i], d[4][1 - i]
        if not (isinstance(sl, tuple) and sl[0] == "call" and core.re.search(r"ops::Index<\w+>(>| for str>)::index$", sl[1]) and len(sl[2]) == 2):
            continue
        base, rng = sl[2]
        if not _same(base, keep) or not (isinstance(rng, tuple) and rng[0] == "variant" and len(rng[3]) == 1):
            continue

        def length_of(x):
            x = strip_wrappers(x)
            return x[2][0] if x[0] == "call" and core.re.search(r"str::<impl str>::len$|String::len$", x[1]) and len(x[2]) == 1 else None
        if rng[1].endswith("ops::RangeFrom"):
            kind, test, affix = "prefix", "starts_with", length_of(rng[3][0])
        elif rng[1].endswith("ops::RangeTo"):
            e = rng[3][0]
            if e[0] == "field" and e[2] == 0:
                e = e[1]
            if not (e[0] == "bin" and e[1] in ("Sub", "SubWithOverflow") and length_of(e[2]) is not None and _same(length_of(e[2]), base)):
                continue
            kind, test = "suffix", "ends_with"
            affix = length_of(e[3]) if e[3][0] != "lit" else ("charlen", e[3][1])
        else:
            continue
        if affix is None:
            continue

        def tested(blk, want):
            for s_, lab, g, info in core.guards_dominating(prog, body, blk):
                if lab == want and isinstance(g, tuple) and g[0] == "call" and g[1].endswith("str::<impl str>::" + test) and len(g[2]) == 2 and _same(g[2][0], base):
                    pat = g[2][1]
                    if affix[0] == "charlen":
                        # a one-byte (ASCII) character pattern
                        if pat[0] == "lit" and isinstance(pat[1], int) and pat[1] < 128 and affix[1] == 1:
                            return pat
                    elif _same(pat, affix):
                        return pat
            return None
        pat = tested(bs, "true")
        if pat is not None and tested(bk, "false") is not None:
            return strip_wrappers(keep), pat, kind
    return None


def request_path_derivation(chk, prog, cfg):
    """R5: the path looked up inside the directory is the request target with the route prefix removed once, and nothing else."""
    n = 0
    newf = set(getattr(prog, "new_functions", []) or [])
    for path, b in sorted(prog.bodies.items()):
        if path.startswith("humphrey::route::try_find_path") or path in newf:
            continue        # (a helper split off a handler is looked at where it was inlined)
        for blk, t in b.calls_to(r"route::try_find_path$"):
            n += 1
            d = core.describe_r(prog, b, t["args"][1])
            uri = desc_contains(d, lambda y: y[0] == "field" and y[2] == 1 and desc_contains(y[1], lambda z: z[0] == "param" and z[2] == "request"))
            chk.ob("R5.request_path", path, "try_find_path looks up a value derived from request.uri", uri, f"looks up {core.short(str(d))[:160]}", where=b.where(blk), cfg=cfg)
            eq = strip_equiv(prog, b, d)
            if eq is not None and eq[2] == "prefix" and strip_wrappers(d)[0] == "multi":
                # slicing form of strip_prefix(route-without-`*`).unwrap_or(uri)
                base, pre, _ = eq
                base_ok = base[0] == "field" and base[2] == 1 and all(core.re.search(REF_CONV, c[1]) for c in core.desc_calls(base))
                chk.ob("R5.request_path", path, "request.uri -> try_find_path passes only through strip_prefix(route).unwrap_or(uri) and reference conversions", base_ok,
                       f"sliced value is {core.short(str(base))[:120]}", where=b.where(blk), cfg=cfg)
                peq = strip_equiv(prog, b, pre)
                is_route = lambda x: strip_wrappers(x)[0] == "param" and strip_wrappers(x)[2] == "route"
                okp = is_route(pre) or (peq is not None and peq[2] == "suffix" and is_route(peq[0]) and peq[1] == ("lit", 42))
                chk.ob("R5.request_path", path, "the prefix removed is the matched route without its trailing `*`", okp,
                       f"prefix = {core.short(str(pre))[:160]}", where=b.where(blk), cfg=cfg)
                continue
            calls = sorted(set(c[1] for c in core.desc_calls(d)))
            odd = [c for c in calls if not any(core.re.search(rx, c) for rx in PATH_DERIVATION_OK)]
            chk.ob("R5.request_path", path, "request.uri -> try_find_path passes only through strip_prefix(route).unwrap_or(uri) and reference conversions", not odd,
                   f"the looked-up path is also transformed by {[core.short(c) for c in odd]}: a file is then not served under its own path "
                   "(e.g. trim_start_matches removes the route prefix repeatedly, eating a same-named sub-directory)", where=b.where(blk), cfg=cfg)
            sp = [c for c in core.desc_calls(d) if c[1].endswith("::strip_prefix")]
            if sp:
                pre = sp[0][2][1] if len(sp[0][2]) > 1 else None
                okp = pre is not None and desc_contains(pre, lambda y: y[0] == "param" and y[2] == "route") and \
                    all(core.re.search(r"strip_suffix$|unwrap_or$", c[1]) or core.re.search(REF_CONV, c[1]) for c in core.desc_calls(pre))
                chk.ob("R5.request_path", path, "the prefix removed is the matched route without its trailing `*`", okp and len(sp) == 1,
                       f"{len(sp)} strip_prefix call(s); prefix = {core.short(str(pre))[:120]}", where=b.where(blk), cfg=cfg)
    chk.floor(f"try_find_path callers [{cfg}]", n, 2 if cfg == "A" else 1)
    dh = prog.bodies.get("humphrey_server::server::static::directory_handler")
    if dh is not None:
        # the server strips the route prefix in place: one remove(0) per pattern character before the first `*`
        muts = []
        for blk, t in dh.calls():
            tys = t.get("arg_tys", [])
            if tys and tys[0].startswith("&mut std::string::String"):
                d0 = core.describe(prog, dh, t["args"][0])
                if desc_contains(d0, lambda y: y[0] == "field" and y[2] == 1 and desc_contains(y[1], lambda z: z[0] == "param" and z[2] == "request")):
                    muts.append((blk, t))
        chk.floor("in-place edits of the looked-up path in directory_handler", len(muts), 1)
        nexts = [blk for blk, t in dh.calls_to(r"Iterator>::next$|Iterator::next$") if desc_contains(core.describe(prog, dh, t["args"][0]), lambda y: y[0] == "param" and y[2] == "matches")]
        for blk, t in muts:
            is_rm = t["callee"].endswith("String::remove") and core.describe(prog, dh, t["args"][1]) == ("lit", 0)
            gs = core.guards_dominating(prog, dh, blk)
            per_char = any(lab == "Some" and desc_contains(dd, lambda y: y[0] == "call" and y[1].endswith("::chars") and desc_contains(y[2], lambda z: z[0] == "param" and z[2] == "matches")) for s_, lab, dd, info in gs)
            star = [(s_, lab, info) for s_, lab, dd, info in gs if isinstance(dd, tuple) and dd[0] == "bin" and dd[1] in ("Ne", "Eq") and ("lit", 42) in (dd[2], dd[3])]
            not_star = any((dd_lab == "true") == (True) for dd_lab in [lab if next(d for s2, l2, d, i2 in gs if s2 == s_)[1] == "Ne" else ("true" if lab == "false" else "false") for s_, lab, info in star])
            stops = False
            for s_, lab, info in star:
                other = [tgt for l2, tgt in info["edges"].items() if l2 != lab]
                stops = stops or not any(nb in dh.reachable(other) for nb in nexts)
            # counted form: `for _ in 0..matches.chars().take_while(|c| c != '*').count() { uri.remove(0) }`
            def star_prefix(tw):
                """`matches.chars().take_while(|c| c != '*')`"""
                if not (tw[0] == "call" and tw[1].endswith("Iterator::take_while") and tw[2][0][0] == "call" and tw[2][0][1].endswith("::chars")
                        and desc_contains(tw[2][0][2][0], lambda z: z[0] == "param" and z[2] == "matches") and len(core.desc_calls(tw[2][0][2][0])) == 0):
                    return False
                cl = tw[2][1]
                cb = prog.bodies.get(cl[1]) if cl[0] == "closure" else None
                r = core.describe(prog, cb, 0) if cb is not None else None
                return cb is not None and cb.argc == 2 and r[0] == "bin" and r[1] == "Ne" and r[2][0] == "param" and r[2][1] == 2 and r[3] == ("lit", 42)

            def counted(dd):
                # `for _ in matches.chars().take_while(|c| c != '*') { uri.remove(0) }`
                if isinstance(dd, tuple) and dd[0] == "call" and core.re.search(r"TakeWhile<I, P> as std::iter::Iterator>::next$|Iterator>?::next$", dd[1]) and dd[2]:
                    it = dd[2][0]
                    while it[0] == "call" and core.re.search(r"IntoIterator>::into_iter$|::into_iter$", it[1]) and it[2]:
                        it = it[2][0]
                    if star_prefix(it):
                        return True
                if not (isinstance(dd, tuple) and dd[0] == "call" and core.re.search(r"Range<\w+>>::next$", dd[1])):
                    return False
                for rg in (y for y in core.desc_subterms(dd) if isinstance(y, tuple) and y[0] == "variant" and y[1].endswith("ops::Range") and len(y[3]) == 2):
                    lo, hi = rg[3]
                    if lo != ("lit", 0) or not (hi[0] == "call" and hi[1].endswith("Iterator::count")):
                        continue
                    if star_prefix(hi[2][0]):
                        return True
                return False
            if any(lab == "Some" and counted(dd) for s_, lab, dd, info in gs) and not star:
                per_char = not_star = stops = True
            chk.ob("R5.request_path", dh.path, "the looked-up path is request.uri with one leading character removed per route character before `*`",
                   is_rm and per_char and not_star and stops and len(muts) == 1,
                   f"edit={core.short(t['callee'])} remove(0)={is_rm} per-route-char={per_char} only-before-star={not_star} stops-at-star={stops} edits={len(muts)}",
                   where=dh.where(blk), cfg=cfg)


def run(chk):
    chk.explanation = (
        "Static decision of C06's structural clauses: every file-system call in the handler modules whose path derives from the request target "
        "(backward slice with all calls propagating taint) is dominated by the `..` test on that same, once-decoded value or goes through "
        "try_find_path (checked directly); paths are built directory-first; the body served is the buffer read from the opened file and the "
        "Content-Type is from_extension of that path's extension; MIME table vs registry; 301 + Location for directories; INDEX_FILES order.")
    chk.not_decided = "symlinks; what the OS does with odd names; that every file inside is reachable (only the content/type half)"
    chk.assumptions = ["rustc type checking / MIR construction / callee resolution", "a relative path without a `..` component, appended to <dir>/, stays under <dir> (no symlinks)"]
    for cfg in ("A", "B"):
        prog = chk.use(core.load(cfg, fresh=(chk.tier == "thorough")))
        analyse_sinks(chk, prog, cfg)
        content_and_type(chk, prog, cfg)
        mime_table(chk, prog, cfg)
        directory_protocol(chk, prog, cfg)
        request_path_derivation(chk, prog, cfg)
        if cfg == "A":
            # "requested by its percent-encoded path": the decoder that turns the request target into the file name accepts every escape,
            # in either case, and copies everything else (the percent-decoding rules of C18)
            import json as _json
            from . import c18
            with open(os.path.join(ORACLES, "constants.json")) as fh:
                orc_ = _json.load(fh)
            dec_ = [p_ for p_ in prog.bodies if p_.endswith("PercentDecode>::percent_decode")]
            chk.floor("percent_decode fn", len(dec_), 1)
            if dec_:
                c18.percent_decode(chk, prog, orc_, dec_[0], owner=False)
            # with the cache on, what a route serves must still come from that route's directory: entries are keyed by the request path as
            # it was matched (C16's key rule), not by a normalised form of it
            from . import c16
            c16.cache_key(chk, prog)
            # ... and "returned intact": what is stored under a key is the value given for that key — Cache::set removes the old entry of the
            # key and appends the new one (C16's replace / stored rules); an entry refreshed at a remembered position can, after an eviction
            # in between, be another URI's entry, which then serves this file's bytes
            from . import shared as _shf
            rf = _shf.RuleFilter(chk, {"R3.replace": "R6.cache_replace", "R3.stored": "R6.cache_stored"})
            c16.run(rf)
            chk.floor("C16 replace / stored obligations borrowed for the served bytes", rf.forwarded, 2)

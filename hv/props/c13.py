"""C13 — JSON parser accepts exactly RFC 8259, serialiser emits it, and they round-trip (structural clauses)."""
from .. import core, tables, panics, absreach, fmt
from ..core import describe, desc_contains, switch_info, hir_walk, hir_value, pat_keys

P = "humphrey_json::parser::Parser::<'a>::"
RFC_ESC = {'"': 0x22, "\\": 0x5C, "/": 0x2F, "b": 0x08, "f": 0x0C, "n": 0x0A, "r": 0x0D, "t": 0x09}
RFC_UNESCAPED = [(0x20, 0x21), (0x23, 0x5B), (0x5D, 0x10FFFF)]
RFC_WS = {0x20, 0x09, 0x0A, 0x0D}


def intervals_of(keys):
    out = []
    for k in keys:
        if k[0] == "lit" and isinstance(k[1], int):
            out.append((k[1], k[1]))
        elif k[0] == "range":
            out.append((k[1], k[2]))
        else:
            return None
    return out


def norm_intervals(iv):
    iv = sorted(iv)
    out = []
    for lo, hi in iv:
        if out and lo <= out[-1][1] + 1:
            out[-1] = (out[-1][0], max(out[-1][1], hi))
        else:
            out.append((lo, hi))
    return out


def subtract(iv, pts):
    out = []
    for lo, hi in norm_intervals(iv):
        cur = lo
        for p in sorted(x for x in pts if lo <= x <= hi):
            if p > cur:
                out.append((cur, p - 1))
            cur = p + 1
        if cur <= hi:
            out.append((cur, hi))
    return out


def contained(iv, outer):
    for lo, hi in norm_intervals(iv):
        if not any(a <= lo and hi <= b for a, b in norm_intervals(outer)):
            return False
    return True


def tables_rule(chk, prog):
    # ---- parser escape table and unescaped set, decided with R-BYTECLASS over `char` (hv/byteset.py, width 0x110000): for every
    # character taken from the input in parse_string (helpers inlined), which values reach each `string.push(..)` and what is pushed
    from .. import byteset
    pb = prog.bodies.get(P + "parse_string")
    chk.floor("parse_string body", 1 if pb else 0, 1)
    esc = {}
    unesc = 0
    if pb:
        cands = []
        for blk, t in pb.calls_to(r"parser::Parser::<'a>::next$"):
            if t.get("dest") is None:
                continue
            d = describe(prog, pb, t["dest"]["l"])
            cands.append(("field", d, 0))
            for bb, bt in pb.calls_to(r"ops::Try>::branch$"):
                if bt["args"] and describe(prog, pb, bt["args"][0]) == d and bt.get("dest") is not None:
                    cands.append(("field", describe(prog, pb, bt["dest"]["l"]), 0))
        chk.floor("characters read in parse_string", len(cands), 1)
        # (only writes to the string that becomes the value: a helper may collect hex digits in a scratch String)
        outs = [byteset.strip_conv(describe(prog, pb, s_["rv"]["ops"][0])) for blk_ in pb.blocks for s_ in blk_["stmts"]
                if s_.get("rv") and s_["rv"].get("k") == "agg" and s_["rv"].get("adt", "").endswith("value::Value") and s_["rv"].get("variant") == "String"]
        pushes = [(blk, t) for blk, t in pb.calls_to(r"string::String::push$") if not outs or byteset.strip_conv(describe(prog, pb, t["args"][0])) in outs]
        chk.floor("String::push sites in parse_string", len(pushes), 2)
        n_verbatim = 0
        for var in cands:
            fl = byteset.ByteFlow(prog, pb, var, width=0x110000)
            for blk, t in pushes:
                arg = describe(prog, pb, t["args"][1])
                m = fl.mask_at(blk)
                if fl.is_alias_desc(arg):
                    n_verbatim += 1
                    unesc |= m
                    continue
                if m == 0 or bin(m).count("1") > 64:
                    continue
                for v in byteset.members(m):
                    got = fl.eval(arg, v)
                    if got is not None:
                        key = chr(v)
                        if key in esc and esc[key] != got:
                            esc[key] = ("ambiguous", esc[key], got)
                        else:
                            esc[key] = got
        for ch, cp in RFC_ESC.items():
            chk.ob("R1.parser_escapes", P + "parse_string", f"\\{ch} -> U+{cp:04X}", esc.get(ch) == cp, f"the parser maps \\{ch} to {esc.get(ch)}")
        chk.ob("R1.parser_escapes", P + "parse_string", "no other single-character escapes", set(esc) <= set(RFC_ESC), f"extra escapes {sorted(set(esc) - set(RFC_ESC))}")
        got_iv = byteset.intervals_of(unesc)
        chk.ob("R1.parser_unescaped", P + "parse_string", "characters accepted unescaped == %x20-21 / %x23-5B / %x5D-10FFFF",
               n_verbatim > 0 and got_iv == RFC_UNESCAPED, f"parser accepts {[(hex(a), hex(b)) for a, b in got_iv]} unescaped")
    # ---- serialiser: the same analysis on the character being written (the loop variable of string_to_string, or the `char`
    # parameter of a closure / helper it is handed to)
    sfn = "humphrey_json::serialize::string_to_string"
    sb = prog.bodies.get(sfn)
    chk.floor("string_to_string body", 1 if sb else 0, 1)
    if sb:
        hosts = [sb] + [c if not isinstance(c, str) else prog.bodies[c] for c in prog.all_closures_of(sfn)]
        short, selfmask, restmask, n_vars = {}, 0, 0, 0
        lits_u = []
        ALLC = (1 << 0x110000) - 1
        for hb in hosts:
            vars_ = []
            for blk, t in hb.calls_to(r"str::Chars<'\w+> as std::iter::Iterator>::next$|Chars.*Iterator>::next$"):
                if t.get("dest") is not None:
                    vars_.append(("field", describe(prog, hb, t["dest"]["l"]), 0))
            if hb.kind in ("closure", "coroutine"):
                for i in range(2, hb.argc + 1):
                    if hb.local_ty(i) == "char":
                        vars_.append(("param", i, hb.local_name(i)))
            for var in vars_:
                fl = byteset.ByteFlow(prog, hb, var, width=0x110000)
                used = False
                for blk, t in hb.calls():
                    name = t.get("resolved") or t.get("callee") or ""
                    if not core.re.search(r"string::String::(push|push_str)$|String as std::fmt::Write>::write_(str|fmt|char)$|fmt::Write::write_fmt$", name):
                        continue
                    arg = describe(prog, hb, t["args"][-1])
                    m = fl.mask_at(blk)
                    if (m == ALLC or m == 0) and not fl.is_alias_desc(arg):
                        continue            # not inside the per-character decision (the opening / closing quote)
                    used = True
                    if name.endswith("String::push") and fl.is_alias_desc(arg):
                        selfmask |= m
                    elif name.endswith("push_str") and 0 < bin(m).count("1") <= 64 and all(isinstance(fl.eval(arg, v), str) for v in byteset.members(m)):
                        for v in byteset.members(m):
                            short[v] = fl.eval(arg, v)
                    else:
                        fs = [c[3] for c in core.desc_calls(arg) if "fmt::Arguments" in c[1] and len(c) > 3]
                        if fs:
                            parts = fmt.format_parts(hb, fs[0]) or []
                            lits_u.append("".join(x[1] for x in parts if x[0] == "lit"))
                            restmask |= m
                        else:
                            chk.ob("R1.serialiser_escapes", sfn, "every write of a character is verbatim, a short escape or a \\u escape", False,
                                   f"unrecognised write {name.split('::')[-1]}({core.short(str(arg))[:80]})", where=hb.where(blk))
                n_vars += 1 if used else 0
        chk.floor("serialiser code-point table", n_vars, 1)
        selfmap = byteset.intervals_of(selfmask)
        for cp, s_ in sorted(short.items()):
            ok = len(s_) == 2 and s_[0] == "\\" and RFC_ESC.get(s_[1]) == cp and esc.get(s_[1]) == cp
            chk.ob("R1.serialiser_escapes", sfn, f"U+{cp:04X} -> {s_!r} is an RFC escape of that code point and the parser inverts it", ok,
                   f"U+{cp:04X} is written as {s_!r}; the parser reads that back as {esc.get(s_[1]) if len(s_) == 2 else None}")
        chk.ob("R1.serialiser_unescaped", sfn, "code points written verbatim are within the RFC unescaped set", contained(selfmap, RFC_UNESCAPED),
               f"verbatim set {[(hex(a), hex(b)) for a, b in selfmap]} exceeds {RFC_UNESCAPED}: a quote, backslash or control character would be emitted raw")
        must = [0x22, 0x5C] + list(range(0, 0x20))
        raw = [cp for cp in must if selfmask >> cp & 1]
        chk.ob("R1.serialiser_unescaped", sfn, "quote, backslash and U+0000-001F are never written verbatim", not raw, f"written raw: {raw}")
        covered = selfmask | restmask
        for cp in short:
            covered |= 1 << cp
        chk.ob("R1.serialiser_escapes", sfn, "everything else goes to the \\uXXXX arm", covered == ALLC and restmask != 0,
               f"code points with no output: {[(hex(a), hex(b)) for a, b in byteset.intervals_of(ALLC & ~covered)][:4]}")
        allb = hosts
        chk.ob("R1.serialiser_escapes", sfn, "the catch-all arm writes \\u escapes (UTF-16 units above U+FFFF)",
               any(l.startswith("\\u") for l in lits_u) and any(hb.calls_to(r"encode_utf16$") for hb in allb), f"format literals {lits_u}")
    # ---- whitespace and literals
    hw = prog.hir.get("humphrey_json::parser::is_whitespace")
    ws = set()
    if hw:
        for m in core.hir_find(hw["body"], "Match"):
            for keys, guard, val, line, arm in core.match_table(m):
                if val == ("lit", True):
                    for k in keys:
                        if k[0] == "lit":
                            ws.add(k[1])
    if not ws and "humphrey_json::parser::is_whitespace" in prog.bodies:
        # not a `match` / `matches!`: the predicate's true-set evaluated on the MIR (hv.charauto)
        from .. import charauto
        try:
            iv = charauto.char_predicate(prog, "humphrey_json::parser::is_whitespace")
            ws = set(c for lo, hi in iv for c in range(lo, min(hi, lo + 64) + 1))
        except charauto.Undecided:
            pass
    chk.ob("R1.whitespace", "humphrey_json::parser::is_whitespace", "whitespace == {SP, HT, LF, CR}", ws == RFC_WS, f"whitespace set {sorted(ws)}")
    token_extent(chk, prog)
    hl = prog.hir.get(P + "parse_literal")
    lit = {}
    if hl:
        for m in core.hir_find(hl["body"], "Match"):
            if "str" in m.get("scrut_ty", ""):
                for keys, guard, val, line, arm in core.match_table(m):
                    for k in keys:
                        if k[0] == "lit":
                            inner = tables.unwrap(val, "Ok")
                            lit[k[1]] = inner
    if not lit:
        # no `match` on the token: the same table read off the MIR (`if token == "null" { .. }` chains, named constants)
        from . import c15
        pb_ = prog.bodies.get(P + "parse_literal")

        def eq_lit(d):
            if isinstance(d, tuple) and d and d[0] == "call" and core.re.search(c15.STR_EQ, d[1]) and len(d[2]) == 2:
                lits = [a[1] for a in d[2] if isinstance(a, tuple) and a[0] == "lit" and isinstance(a[1], str)]
                if len(lits) == 1:
                    return lits[0]
            return None
        if pb_ is not None:
            for i, blk in enumerate(pb_.blocks):
                for s_ in blk["stmts"]:
                    rv = s_.get("rv")
                    if rv and rv.get("k") == "agg" and rv.get("agg") == "adt" and str(rv.get("adt", "")).endswith("value::Value") and rv.get("variant") in ("Null", "Bool"):
                        gs = core.guards_dominating(prog, pb_, i)
                        trues = [eq_lit(d) for s2, lab, d, info in gs if lab == "true" and eq_lit(d) is not None]
                        if len(trues) == 1:
                            if rv["variant"] == "Null":
                                val = ("path", "humphrey_json::value::Value::Null")
                            else:
                                pay = describe(prog, pb_, rv["ops"][0])
                                val = ("call", "humphrey_json::value::Value::Bool", [pay]) if pay[0] == "lit" else ("?", pay)
                            lit[trues[0]] = val if lit.get(trues[0], val) == val else ("ambiguous",)
                        else:
                            lit[f"<{rv['variant']} under {trues}>"] = ("unconditional",)
    ok = lit.get("null") == ("path", "humphrey_json::value::Value::Null") and \
        lit.get("true") == ("call", "humphrey_json::value::Value::Bool", [("lit", True)]) and \
        lit.get("false") == ("call", "humphrey_json::value::Value::Bool", [("lit", False)]) and set(lit) == {"null", "true", "false"}
    chk.ob("R1.literals", P + "parse_literal", "literal table == {null, true, false}", ok, f"{lit}")
    # JSON is case-sensitive (`True`, `NULL` are not JSON texts): nothing in the parser folds the case of what it has scanned
    nfold = 0
    for pth_, pb2 in sorted(prog.bodies.items()):
        if not pth_.startswith("humphrey_json::parser::"):
            continue
        for blk_, t_ in pb2.calls():
            nfold += 1
            if core.call_matches(t_, r"::(make_ascii_lowercase|make_ascii_uppercase|to_lowercase|to_uppercase|to_ascii_lowercase|to_ascii_uppercase|eq_ignore_ascii_case)$"):
                chk.ob("R1.literals", pth_, "the parser compares tokens case-sensitively", False,
                       f"{core.short(t_['callee'])} folds the case of scanned text: `True` / `NULL` / `FALSE` are accepted although they are not JSON", where=pb2.where(blk_))
    chk.floor("calls examined in the JSON parser", nfold, 20)


def token_extent(chk, prog):
    """R3.token_extent: a literal / number token is the maximal run of characters accepted by the predicate the literal loop uses.  Every
    character of `null`, `true`, `false` and of the number grammar must be a token character (else a valid token is cut in two and rejected),
    and the characters that may legally follow a value (whitespace `,` `]` `}`) must not be (else `[1,2]` is one token)."""
    from .. import charauto
    fam = [P + "parse_literal"] + [c.path for c in prog.all_closures_of(P + "parse_literal")] if hasattr(prog, "all_closures_of") else [P + "parse_literal"]
    preds = set()
    for p in fam:
        b = prog.bodies.get(p)
        if not b:
            continue
        for blk, t in b.calls():
            r = t.get("resolved") or ""
            cb = prog.bodies.get(r)
            if cb is not None and r.startswith("humphrey_json::") and cb.kind in ("fn",) and cb.argc == 1 and cb.local_ty(0) == "bool" and "char" in (cb.local_ty(1) or ""):
                preds.add(r)
    chk.floor("token-character predicates used by parse_literal", len(preds), 1)
    need = "-+.0123456789eEnultrfas"
    stop = " \t\n\r,]}"
    for r in sorted(preds):
        try:
            iv = charauto.char_predicate(prog, r)
        except charauto.Undecided as e:
            chk.extra.setdefault("token_extent_not_decided", []).append(f"{r}: {e}")
            continue
        missing = [c for c in need if not charauto.in_intervals(iv, ord(c))]
        extra = [c for c in stop if charauto.in_intervals(iv, ord(c))]
        chk.ob("R3.token_extent", r, "every character of a literal or number is a token character", not missing,
               f"{missing} end a token: a valid literal / number containing them is split and rejected")
        chk.ob("R3.token_extent", r, "whitespace, `,`, `]` and `}` end a token", not extra,
               f"{[repr(c) for c in extra]} are token characters: a value followed by them is read as one invalid token")


def char_edges(prog, b, ch):
    """(switch block, target) edges taken when a peeked/consumed character equals ch (switch on a char value)."""
    out = []
    for s in range(len(b.blocks)):
        t = b.term(s)
        if t and t["k"] == "switch" and t.get("discr_ty") == "char":
            for v, tgt in t["targets"]:
                if v == ord(ch):
                    out.append((s, tgt))
    return out


def separators(chk, prog):
    for fn, close in ((P + "parse_array", "]"), (P + "parse_object", "}")):
        b = prog.bodies.get(fn)
        chk.floor(fn.split("::")[-1], 1 if b else 0, 1)
        if not b:
            continue
        elems = [blk for blk, t in b.calls_to(r"Parser::<'a>::parse_value$")]
        chk.floor(f"element parse in {fn.split('::')[-1]}", len(elems), 1)
        commas = char_edges(prog, b, ",")
        chk.floor(f"comma test in {fn.split('::')[-1]}", len(commas), 1)
        w = absreach.must_pass_from_entry(b, elems, elems, through_edges=commas)
        chk.ob("R2.separators", fn, "element -> next element passes the consumed-`,` edge", w is None,
               "two values can follow each other without a comma and still be accepted", path=w)
        # the comma must actually be consumed (next()) before the following element
        nexts = [blk for blk, t in b.calls_to(r"Parser::<'a>::next$")]
        for (s, tgt) in commas:
            w = core.must_pass(b, [tgt], elems, through_nodes=nexts, after_from=False)
            chk.ob("R2.separators", fn, "the comma is consumed before the next element", w is None, "", path=w)
    b = prog.bodies.get(P + "parse_object")
    if b:
        for blk, t in b.calls_to(r"Parser::<'a>::parse_value$"):
            facts = panics.cmp_facts(prog, b, blk)
            colon = any(op == "==" and r == ("lit", ord(":")) and desc_contains(a, lambda y: y[0] == "call" and y[1].endswith("Parser::<'a>::next")) for (a, op, r) in facts)
            chk.ob("R2.separators", b.path, "member value is parsed only after a consumed `:`", colon, "a key can be followed by its value without the name separator", where=b.where(blk))
        for blk, t in b.calls_to(r"Parser::<'a>::parse_string$"):
            facts = panics.cmp_facts(prog, b, blk)
            q = any(op == "==" and r == ("lit", ord('"')) for (a, op, r) in facts)
            chk.ob("R2.separators", b.path, "member names are strings (start with `\"`)", q, "", where=b.where(blk))
        pushes = b.calls_to(r"Vec::<T, A>::(push|insert|sort|sort_by|retain|dedup_by_key|swap)$")
        chk.ob("R5.document_order", b.path, "members are appended in document order", [t["callee"].split("::")[-1] for _, t in pushes] == ["push"], f"{[t['callee'] for _, t in pushes]}")
    en = prog.enums.get("humphrey_json::value::Value")
    if en:
        obj = next(v for v in en["variants"] if v["name"] == "Object")
        chk.ob("R5.document_order", "Value::Object", "objects are stored as an ordered Vec of (key, value)", obj["fields"][0]["ty"].startswith("std::vec::Vec<("), obj["fields"][0]["ty"])


def whitespace_placement(chk, prog):
    """R2.whitespace: insignificant whitespace is allowed before and after every structural character and value.  In the functions that walk
    the document structure (parse_value, parse_array, parse_object, the entry points) every path from the end of a token — a returned
    parse_string / parse_value, or a consumed structural character — to the next look at the input passes flush_whitespace(), directly or as the
    first thing the callee does."""
    FLUSH = r"Parser::<'a>::flush_whitespace$|Parser::flush_whitespace$"
    LOOK = r"Parser::<'a>::next$|Parser::next$|Peekable::<I>::(peek|next|next_if|next_if_eq)$"
    def leading_flush(fn):
        bb = prog.bodies.get(fn)
        if not bb:
            return False
        fl = [blk for blk, t in bb.calls_to(FLUSH)]
        looks = [blk for blk, t in bb.calls_to(LOOK)] + [blk for blk, t in bb.calls() if (t.get("resolved") or "").startswith(P) and not core.call_matches(t, FLUSH)
                                                          and core.re.search(r"::(parse_\w+|next|expect_eof)$", t.get("resolved") or "")]
        return bool(fl) and core.must_pass(bb, [0], looks, through_nodes=fl, after_from=False) is None
    starts_clean = {fn for fn in (P + "parse_value", P + "expect_eof") if leading_flush(fn)}
    roots = [P + "parse_array", P + "parse_object", "humphrey_json::parser::<impl humphrey_json::value::Value>::parse",
             "humphrey_json::parser::<impl humphrey_json::value::Value>::parse_max_depth"]
    n = 0
    for fn in roots:
        b = prog.bodies.get(fn)
        if not b:
            continue
        fl = [blk for blk, t in b.calls_to(FLUSH)]
        ends, looks = [], []
        # helpers that were inlined: one that walks the structure (calls parse_value & co.) is part of the walker; one that reads a token's own
        # characters (the contents of a string, the digits of an escape) is a token — its reads are not structural, its return is a token end
        def walks(name, seen=()):
            hb = prog.bodies.get(name)
            if hb is None or name in seen:
                return False
            for _, t_ in hb.calls():
                r_ = t_.get("resolved") or t_.get("callee") or ""
                if core.re.search(r"Parser(::<'a>)?::(parse_value|parse_array|parse_object)$", r_):
                    return True
                if r_ in (getattr(prog, "new_functions", []) or []) and walks(r_, seen + (name,)):
                    return True
            return False
        def consumes(name):
            hb = prog.bodies.get(name)
            return hb is not None and bool(hb.calls_to(r"Parser(::<'a>)?::next$|Peekable::<I>::(next|next_if|next_if_eq)$|Iterator>?::next$"))
        # (a helper that only skips whitespace and peeks — `peek_past_whitespace` — is neither: its blocks count as the walker's own)
        token_fns = {nm for nm in {blk_.get("from_fn") for blk_ in b.blocks if blk_.get("from_fn")} if not walks(nm) and consumes(nm)}
        for bi_, blk_ in enumerate(b.blocks):
            if blk_.get("inlined_ret") in token_fns and blk_.get("from_fn") not in token_fns:
                ends.append(bi_)
        for blk, t in b.calls():
            if b.blocks[blk].get("from_fn") in token_fns:
                continue
            r = t.get("resolved") or t.get("callee") or ""
            if core.re.search(r"Parser(::<'a>)?::(parse_string|parse_value|parse_literal|parse_array|parse_object)$", r):
                ends.append(blk)
                if r not in starts_clean and not r.endswith("parse_string"):
                    looks.append(blk)
            elif core.re.search(r"Parser(::<'a>)?::next$", r):
                ends.append(blk)
                looks.append(blk)
            elif core.call_matches(t, LOOK):
                looks.append(blk)
            elif core.re.search(r"Parser(::<'a>)?::expect_eof$", r) and r not in starts_clean:
                looks.append(blk)
        for e in ends:
            n += 1
            tgt = [x for x in looks if x != e] + ([e] if e in b.reachable(b.succs(e)) and e in looks else [])
            w = core.must_pass(b, [e], tgt, through_nodes=fl)
            what = core.short(b.term(e).get("resolved") or b.term(e).get("callee") or b.blocks[e].get("inlined_ret") or "").split("::")[-1]
            chk.ob("R2.whitespace", fn, f"after {what}: whitespace is skipped before the input is looked at again", w is None,
                   "insignificant whitespace at this position (e.g. between a member name and its `:`) makes a valid document invalid", path=w, where=b.where(e))
    chk.floor("token ends in the structure walkers", n, 6)
    chk.ob("R2.whitespace", P + "parse_value", "parse_value skips leading whitespace before it looks at the input", P + "parse_value" in starts_clean,
           "whitespace before a value is not skipped")


def number_gates(chk, prog):
    reachp = panics.reach(prog, ["humphrey_json::parser::<impl humphrey_json::value::Value>::parse"])
    n = 0
    for p in sorted(reachp):
        b = prog.bodies[p]
        for blk, t in b.calls_to(r"<impl str>::parse$|FromStr::from_str$"):
            if "f64" not in (t.get("callee_args") or "") and "f64" not in " ".join(t.get("gargs") or []):
                continue
            n += 1
            tok = panics._strip(describe(prog, b, t["args"][0]))
            gate = None
            for cond, truth in panics.bool_facts(prog, b, blk):
                if truth and cond[0] == "call" and cond[1] in prog.bodies and cond[2] and panics._strip(cond[2][0]) == tok:
                    gb = prog.bodies[cond[1]]
                    gr = prog.reach_bodies([cond[1]])
                    charlevel = any(prog.bodies[q].calls_to(r"is_ascii_digit$|Peekable::<I>::next_if") for q in gr)
                    parses = any(prog.bodies[q].calls_to(r"<impl str>::parse$|FromStr::from_str$") for q in gr)
                    if charlevel and not parses:
                        gate = cond[1]
            chk.ob("R3.number_gate", p, "f64::from_str is reached only through a character-level grammar gate on the same token", gate is not None,
                   "the token goes straight to f64::from_str, which accepts a superset of JSON numbers (NaN, inf, +1, 01, .5, 1.)", where=b.where(blk))
            if gate is not None:
                # the gate's language, extracted from its MIR as a DFA (hv.charauto) and compared with the RFC 8259 number grammar
                from .. import charauto
                try:
                    sc, trans, start = charauto.extract(prog, gate)
                    diff = charauto.compare(sc, trans, start, *charauto.json_number_ref())
                    chk.extra.setdefault("number_gate_dfa", []).append(f"{gate}: {len(trans)} scanner states over {len(sc.alphabet)} character classes, {sc.steps} abstract steps")
                    words = "; ".join(f"{charauto.show_word(w)!r}: gate {'accepts' if a else 'rejects'}, RFC 8259 {'accepts' if r else 'rejects'}" for w, a, r in diff[:4])
                    chk.ob("R3.number_grammar", gate, "the gate accepts exactly -?(0|[1-9][0-9]*)(.[0-9]+)?([eE][+-]?[0-9]+)? (DFA extracted from the MIR == reference DFA)", not diff,
                           f"the number gate and the RFC 8259 grammar differ: {words}", where=prog.bodies[gate].file)
                except charauto.Undecided as e:
                    chk.extra.setdefault("number_gate_not_decided", []).append(f"{gate}: {e}")
        for blk, t in b.calls_to(r"num::<impl u(8|16|32)>::from_str_radix$"):
            n += 1
            tok = panics._strip(describe(prog, b, t["args"][0]))
            ok = False
            for cond, truth in panics.bool_facts(prog, b, blk):
                if truth and cond[0] == "call" and core.re.search(r"Iterator>?::all$|Iterator::all$", cond[1]):
                    recv, cl = cond[2][0], cond[2][1]
                    same = desc_contains(recv, lambda y: y[0] == "call" and y[1].endswith("<impl str>::chars") and panics._strip(y[2][0]) == tok)
                    hexd = cl[0] == "closure" and cl[1] in prog.bodies and bool(prog.bodies[cl[1]].calls_to(r"is_ascii_hexdigit$"))
                    ok = ok or (same and hexd)
            chk.ob("R3.hex_gate", p, "\\uXXXX digits are checked to be hexadecimal before from_str_radix", ok,
                   "from_str_radix also accepts a leading `+`: \"\\u+123\" would be accepted", where=b.where(blk))
    chk.floor("number / hex conversion sites in the parser", n, 3)
    # the value of a number is what f64::from_str makes of the token — nothing else computes it (a hand-written fast path that divides an
    # integer by a power of ten rounds twice and lands 1 ulp off for 17-19 digit literals)
    m_ = 0
    for p in sorted(reachp):
        b = prog.bodies[p]
        if "promoted" in p:
            continue
        for bi, blk in enumerate(b.blocks):
            for st in blk["stmts"]:
                rv = st.get("rv")
                if rv and rv.get("k") == "agg" and str(rv.get("adt", "")).endswith("value::Value") and rv.get("variant") == "Number" and rv.get("ops"):
                    m_ += 1
                    d = panics._strip(describe(prog, b, rv["ops"][0]))
                    # walk from the stored value down to the f64 parse through unwrapping wrappers only
                    x = d
                    from_parse, arith = False, False
                    for _ in range(12):
                        if not isinstance(x, tuple) or not x:
                            break
                        if x[0] == "field" and isinstance(x[1], tuple):
                            x = x[1]
                            continue
                        if x[0] == "call":
                            if core.re.search(r"<impl str>::parse$|FromStr::from_str$", x[1]):
                                from_parse = True
                                break
                            if core.re.search(r"Try>?::branch$|Result::<T, E>::(map_err|ok|unwrap|expect)$|Option::<T>::(unwrap|expect|ok_or|ok_or_else)$|(::|>::)(deref|as_ref|borrow|clone|into|from)$", x[1]) and x[2]:
                                x = x[2][0]
                                continue
                        if x[0] == "multi":
                            arith = True      # more than one way to compute the value
                        break
                    arith = arith or not from_parse
                    chk.ob("R3.number_value", p, "Value::Number carries f64::from_str(token) and nothing computed otherwise", from_parse and not arith,
                           f"the number is {panics.short_desc(d)[:140]}: a value computed outside f64::from_str is not the correctly rounded value the text denotes",
                           where=b.where(bi))
    chk.floor("Value::Number construction sites in the parser", m_, 1)


LEN_CALL = r"(String::len|Vec::<T, A>::len|<impl str>::len|<impl \\[T\\]>::len|Iterator>?::count|Iterator::count|String::capacity|Vec::<T, A>::capacity)$"


def _size_cmp(d):
    """(operator with the length on the left, constant) when `d` compares a length / count with a constant"""
    d = panics._strip(d)
    if not (isinstance(d, tuple) and d[0] == "bin" and d[1] in ("Lt", "Le", "Gt", "Ge")):
        return None
    l, r = panics._strip(d[2]), panics._strip(d[3])
    is_len = lambda x: isinstance(x, tuple) and desc_contains(x, lambda y: y[0] == "call" and core.re.search(LEN_CALL, y[1]) is not None)
    is_const = lambda x: isinstance(x, tuple) and x[0] == "lit"
    if is_len(l) and is_const(r):
        return d[1], r[1]
    if is_len(r) and is_const(l):
        return {"Lt": "Gt", "Le": "Ge", "Gt": "Lt", "Ge": "Le"}[d[1]], l[1]
    return None


def no_size_caps(chk, prog):
    """R3.no_size_cap: RFC 8259 puts no bound on the length of a token, a string, or the number of elements; the only quantity the parser may
    reject on is the nesting depth.  No rejection edge is taken because a length / count is LARGE (`len >= K` -> Err, `assert(len < K)`)."""
    reachp = panics.reach(prog, ["humphrey_json::parser::<impl humphrey_json::value::Value>::parse"])
    n = 0
    for p in sorted(reachp):
        if not p.startswith("humphrey_json::"):
            continue
        b = prog.bodies[p]
        for blk, t in b.calls_to(r"humphrey_json::parser::quiet_assert$"):
            n += 1
            c = _size_cmp(describe(prog, b, t["args"][0]))
            if c:
                chk.ob("R3.no_size_cap", p, f"assertion `length {c[0]} {c[1]}` does not reject long input", c[0] in ("Gt", "Ge"),
                       f"a token / string / container longer than {c[1]} is rejected although RFC 8259 allows it (e.g. a number with many digits)", where=b.where(blk))
        oks = core.ok_return_blocks(b, "Ok") if "Result" in b.local_ty(0) else []
        for s_ in range(len(b.blocks)):
            t = b.term(s_)
            if not t or t["k"] != "switch" or t.get("discr_ty") != "bool":
                continue
            n += 1
            c = _size_cmp(describe(prog, b, t["discr"]))
            if not c or not oks:
                continue
            info = switch_info(prog, b, s_)
            big = info["edges"]["true"] if c[0] in ("Gt", "Ge") else info["edges"]["false"]
            small = info["edges"]["false"] if c[0] in ("Gt", "Ge") else info["edges"]["true"]
            seen_big, seen_small = b.reachable([big]), b.reachable([small])
            rejected = not any(o in seen_big for o in oks) and any(o in seen_small for o in oks)
            chk.ob("R3.no_size_cap", p, f"branch on `length {c[0]} {c[1]}` does not reject long input", not rejected,
                   f"input whose length / count exceeds {c[1]} can no longer be accepted although RFC 8259 allows it", where=b.where(s_))
    chk.floor("assertions and boolean branches examined for size caps", n, 20)


def depth_pairing(chk, prog):
    for fn in (P + "parse_array", P + "parse_object"):
        b = prog.bodies.get(fn)
        if not b:
            continue
        inc = [blk for blk, t in b.calls_to(r"Parser::<'a>::inc_depth$")]
        dec = [blk for blk, t in b.calls_to(r"Parser::<'a>::dec_depth$")]
        if not inc and not dec:
            # the two helpers were folded into the container parser (or into a wrapper that was inlined): the same pairing on the counter
            # itself — `self.depth += 1` / `self.depth -= 1`
            st_ = prog.structs.get("humphrey_json::parser::Parser", {}).get("fields", [])
            di_ = next((i for i, x in enumerate(st_) if x["name"] == "depth"), None)
            for bi_, blk_ in enumerate(b.blocks):
                for s_ in blk_["stmts"]:
                    if "pl" in s_ and di_ is not None and [e[1] for e in s_["pl"]["p"] if e[0] == "f"] == [di_]:
                        d_ = panics._strip(core.describe_rv(prog, b, s_["rv"]) if s_["rv"]["k"] != "use" else describe(prog, b, s_["rv"]["o"]))
                        if d_[0] == "field" and isinstance(d_[1], tuple) and d_[1][0] == "bin":
                            d_ = d_[1]
                        if d_[0] == "bin" and d_[3] == ("lit", 1) and d_[1].startswith("Add"):
                            inc.append(bi_)
                        elif d_[0] == "bin" and d_[3] == ("lit", 1) and d_[1].startswith("Sub"):
                            dec.append(bi_)
        oks = core.ok_return_blocks(b, "Ok")
        chk.ob("R4.depth", fn, "inc_depth is the first thing the container parser does", bool(inc) and all(core.must_pass(b, [0], [x for x, _ in b.calls_to(r"parse_value$")], through_nodes=inc, after_from=False) is None for _ in [0]), "")
        w = core.must_pass(b, inc, oks, through_nodes=dec)
        chk.ob("R4.depth", fn, "every successful return passes dec_depth (R-PAIR)", w is None and bool(dec), "the depth counter leaks: sibling containers are wrongly rejected as too deep", path=w)
        for db in dec:
            seen = b.reachable(b.succs(db))
            chk.ob("R4.depth", fn, "depth is decremented once", not any(x in seen for x in dec), "")


def serialiser_structure(chk, prog):
    for fn, open_, close_, seps in (("humphrey_json::serialize::array_to_string", "[", "]", {","}), ("humphrey_json::serialize::object_to_string", "{", "}", {",", ":"})):
        b = prog.bodies.get(fn)
        chk.floor(fn.split("::")[-1], 1 if b else 0, 1)
        if not b:
            continue
        its = [(blk, t) for blk, t in b.calls_to(r"slice::<impl \[T\]>::iter$") if core.desc_contains(core.describe(prog, b, t["args"][0]), lambda y: y[0] == "param" and y[1] == 1)]
        # adaptors applied to the iteration over the elements themselves (not to unrelated iterators such as the indentation)
        bad = []
        for blk2, t2 in b.calls():
            if t2["args"] and core.call_matches(t2, r"Iterator>?::(next|fold|for_each|map|collect)$|IntoIterator>?::into_iter$"):
                d2 = core.describe(prog, b, t2["args"][0])
                if any(core.desc_contains(d2, lambda y: y[0] == "call" and len(y) > 3 and y[3] == ib) for ib, _ in its):
                    bad += [c[1] for c in core.desc_calls(d2) if core.re.search(r"::(rev|sort|sort_by|skip|take|step_by|filter|skip_while|take_while|filter_map)$", c[1])]
        bad += [t2["callee"] for blk2, t2 in b.calls_to(r"<impl \[T\]>::(sort|sort_by|sort_by_key|sort_unstable|reverse)$")]
        chk.ob("R6.serialiser", fn, "elements are written in stored order", bool(its) and not bad, f"{sorted(set(bad))}")
        lits = set()
        for c in [b] + prog.all_closures_of(fn):
            for blk, t in c.calls():
                if (t.get("callee") or "").endswith("ops::Add::add") or (t.get("callee") or "").endswith("String::push_str") or (t.get("callee") or "").endswith("String::push"):
                    for a in t["args"][1:]:
                        d = core.describe(prog, c, a)
                        if d[0] == "lit":
                            lits.add(chr(d[1]) if isinstance(d[1], int) else d[1])
                if (t.get("callee") or "").endswith("ToString>::to_string") or (t.get("callee") or "").endswith("ToString::to_string"):
                    d = core.describe(prog, c, t["args"][0])
                    if d[0] == "lit":
                        lits.add(d[1])
        for s in seps:
            chk.ob("R6.serialiser", fn, f"separator {s!r} is written", s in lits or (s + " ") in lits, f"literal pieces {sorted(lits)}")
        chk.ob("R6.serialiser", fn, f"delimiters {open_!r} {close_!r} and the empty form", open_ in lits and close_ in lits and (open_ + close_) in lits, f"{sorted(lits)}")
        if ":" in seps:
            fam_ = [b] + prog.all_closures_of(fn)
            ks = [c for c in fam_ if c.calls_to(r"serialize::string_to_string$")]
            # also as a function value: `key.map(string_to_string)`
            for c in fam_:
                for blk2, t2 in c.calls():
                    if any(a.get("k") == "const" and str(a.get("fn") or "").endswith("serialize::string_to_string") for a in t2["args"]):
                        ks.append(c)
            chk.ob("R6.serialiser", fn, "object keys are escaped with string_to_string", bool(ks), "")


def number_output(chk, prog):
    """R7: a Number is written with f64's own Display (shortest representation that parses back): the serialiser's
    call graph contains no float->integer cast and no fixed-precision formatting of the number."""
    roots = ["humphrey_json::serialize::<impl humphrey_json::value::Value>::serialize", "humphrey_json::serialize::<impl humphrey_json::value::Value>::serialize_pretty"]
    found = [r for r in roots if r in prog.bodies]
    chk.floor("serialiser entry points", len(found), 2)
    reach_ = prog.reach_bodies(found)
    casts = 0
    tos = 0
    for p in sorted(reach_):
        b = prog.bodies[p]
        for blk_i, blk in enumerate(b.blocks):
            for s in blk["stmts"]:
                rv = s.get("rv")
                if rv and rv.get("k") == "cast" and rv.get("ck") in ("FloatToInt", "FloatToFloat"):
                    casts += 1
                    chk.ob("R7.number_output", p, f"{rv['ck']} cast in the serialiser", False,
                           f"a number is converted with `as {rv.get('ty')}` on its way to the output: values outside that type's exact range no longer "
                           f"serialise to text that parses back to the same f64", where=f"{b.file}:{s.get('line')}")
        for blk, t in b.calls_to(r"ToString>?::to_string$"):
            if (t.get("gargs") or [""])[0] == "f64" or "f64" in (t.get("callee_args") or ""):
                tos += 1
                d = core.describe(prog, b, t["args"][0])
                pure = panics._strip(d)
                ok = pure[0] in ("field", "param", "local", "multi", "upvar") or (pure[0] == "field")
                chk.ob("R7.number_output", p, "Number -> <f64 as ToString>::to_string(the stored value)", ok, f"to_string is applied to {panics.short_desc(d)}", where=b.where(blk))
    chk.floor("f64 to_string sites in the serialiser", tos, 1)
    chk.ob("R7.number_output", "humphrey_json::serialize", "no float->int / float narrowing casts reachable from serialize", casts == 0, "")


def serialiser_no_panic(chk, prog):
    """R6.no_panic: `serialize` / `serialize_pretty` with ANY indent return text for every value: the panic-site inventory of the serialiser
    (overflow asserts, slicing, indexing, unwrap ..) discharges, by the idioms of hv.panics or a reviewed entry whose condition is re-checked."""
    from . import c03
    ents = [p for p in prog.bodies if p.startswith("humphrey_json::serialize::") and core.re.search(r"::(serialize|serialize_pretty|serialize_pretty_indent)$", p)]
    chk.floor("serialiser entry points", len(ents), 2)
    bodies, sites = panics.inventory(prog, ents)
    allow = panics.load_allow()
    for st in sites:
        how, why = panics.try_discharge(prog, st)
        if how is None and st.kind == "assert" and str(st.what).startswith("overflow:Add"):
            # indentation arithmetic: sums of the (level x size, size) pair handed down the recursion, lengths of in-memory strings and small constants
            def small(d):
                d = panics._strip(d)
                if not isinstance(d, tuple) or not d:
                    return False
                if d[0] == "lit":
                    return isinstance(d[1], int) and 0 <= d[1] < 1 << 32
                if d[0] == "call" and d[1].endswith("::len"):
                    return True
                if d[0] == "field":
                    return small(d[1]) or (isinstance(d[1], tuple) and d[1][0] in ("param", "upvar", "field", "local"))
                if d[0] in ("param", "upvar"):
                    return "indent" in str(d[-1])
                if d[0] == "bin" and d[1].startswith("Add"):
                    return small(d[2]) and small(d[3])
                return False
            if all(small(o) and desc_contains(o, lambda y: (y[0] in ("param", "upvar") and "indent" in str(y[-1])) or y[0] == "lit" or (y[0] == "call" and y[1].endswith("::len"))) for o in st.operands):
                how, why = "memory", "indentation (nesting level x indent size) / string length arithmetic: below 2^64 for any value that fits in memory"
        if how is None and st.fingerprint in allow:
            ok, why2 = c03.check_allow_cond(prog, st, allow[st.fingerprint], bodies)
            if ok:
                how, why = "reviewed", f"{allow[st.fingerprint]['reason']} [{why2}]"
        chk.ob("R6.no_panic", st.body.path, st.fingerprint.split("|", 1)[1], how is not None,
               f"the serialiser can panic: {st.kind} {st.what} ({why or 'no discharge idiom applies'}): for some value / indent no text is produced" if how is None else f"{how}: {why}",
               where=st.where())
    chk.floor("bodies of the serialiser examined for panics", len(bodies), 5)


def unicode_escapes(chk, prog):
    """R8: the character pushed for a `\\u` escape is char::from_u32(unit) for a single unit, and for a pair either
    char::decode_utf16([first, second]) or the explicit formula 0x10000 + (first - 0xD800) * 0x400 + (second - 0xDC00) under
    first in D800..=DBFF and second in DC00..=DFFF; the units are the from_str_radix results in reading order."""
    fn = "humphrey_json::parser::Parser::<'a>::parse_string"
    b = prog.bodies.get(fn)
    chk.floor("parse_string", 1 if b else 0, 1)
    if not b:
        return
    sites = []
    for blk, t in b.calls_to(r"String::push$"):
        d = describe(prog, b, t["args"][1])
        if desc_contains(d, lambda y: y[0] == "call" and y[1].endswith("from_str_radix")):
            sites.append((blk, d))
    chk.floor("\\u escape push site", len(sites), 1)

    def units(d):
        return sorted(set(c[3] for c in core.desc_calls(d) if c[1].endswith("from_str_radix") and len(c) > 3))

    def unit_key(d):
        us = units(d)
        return us[0] if len(us) == 1 else None

    def affine(d):
        d0 = d
        while isinstance(d0, tuple) and d0 and d0[0] == "field" and isinstance(d0[1], tuple) and d0[1][0] == "bin" and d0[1][1].endswith("WithOverflow") and d0[2] == 0:
            d0 = ("bin", d0[1][1][:3], d0[1][2], d0[1][3])
        if isinstance(d0, tuple) and d0[0] == "lit" and isinstance(d0[1], int):
            return {"": d0[1]}
        if isinstance(d0, tuple) and d0[0] == "bin" and d0[1] in ("Add", "Sub", "Mul", "Shl"):
            a, c = affine(d0[2]), affine(d0[3])
            if a is None or c is None:
                return None
            if d0[1] in ("Add", "Sub"):
                sg = 1 if d0[1] == "Add" else -1
                out = dict(a)
                for k, v in c.items():
                    out[k] = out.get(k, 0) + sg * v
                return out
            if d0[1] == "Shl" and set(c) <= {""}:
                return {k: v << c.get("", 0) for k, v in a.items()}
            if d0[1] == "Mul" and set(c) <= {""}:
                return {k: v * c.get("", 0) for k, v in a.items()}
            if d0[1] == "Mul" and set(a) <= {""}:
                return {k: v * a.get("", 0) for k, v in c.items()}
            return None
        k = unit_key(d0)
        if k is not None and not [c for c in core.desc_calls(d0) if core.re.search(r"(wrapping_|saturating_|::max$|::min$|rotate_|swap_bytes)", c[1])]:
            return {k: 1, "": 0}
        return None

    for blk, d in sites:
        alts = d[1] if d[0] == "multi" else [d]
        for alt in alts:
            us = units(alt)
            dec = [c for c in core.desc_calls(alt) if c[1].endswith("decode_utf16")]
            fu = [c for c in core.desc_calls(alt) if c[1].endswith("::from_u32")]
            if dec:
                arr = dec[0][2][0] if dec[0][2] else None
                ok = isinstance(arr, tuple) and arr[0] == "array" and len(arr[1]) == 2 and [unit_key(x) for x in arr[1]] == us and len(us) == 2
                chk.ob("R8.unicode_escape", fn, "pair: char::decode_utf16([first unit, second unit]), units in reading order", ok,
                       f"decode_utf16 argument {panics.short_desc(arr) if arr else None}", where=b.where(blk))
                # the decoded unit is used only when decode_utf16 yielded Some(Ok(c)); nothing substitutes a character for a failure
                subst = desc_contains(alt, lambda y: y[0] == "call" and core.re.search(r"unwrap_or|unwrap_or_default|unwrap_or_else|lossy|REPLACEMENT", y[1]) is not None) or \
                    bool(b.calls_to(r"char::REPLACEMENT_CHARACTER|decode_utf16_lossy|from_utf16_lossy"))
                chk.ob("R8.unicode_escape", fn, "pair: a missing or invalid decode result is an error (never a replacement character)", not subst, "", where=b.where(blk))
            elif fu and len(us) == 1:
                arg = fu[0][2][0]
                a = affine(arg)
                chk.ob("R8.unicode_escape", fn, "single unit: char::from_u32(unit)", a == {us[0]: 1, "": 0}, f"from_u32({panics.short_desc(arg)})", where=b.where(blk))
            elif fu and len(us) == 2:
                arg = fu[0][2][0]
                a = affine(arg)
                want = {us[0]: 0x400, us[1]: 1, "": 0x10000 - 0xD800 * 0x400 - 0xDC00}
                form = a is not None and {k: v for k, v in a.items() if v or k == ""} == want
                # bounds on the two units at the conversion
                fb = fu[0][3] if len(fu[0]) > 3 else blk
                facts = panics.cmp_facts(prog, b, fb)
                lo = {us[0]: None, us[1]: None}
                hi = {us[0]: None, us[1]: None}
                for (x, op, r) in facts:
                    for (l_, o_, r_) in ((x, op, r), (r, {"<": ">", "<=": ">=", ">": "<", ">=": "<=", "==": "==", "!=": "!="}.get(op, op), x)):
                        k = unit_key(l_) if isinstance(l_, tuple) else None
                        if k in lo and isinstance(r_, tuple) and r_[0] == "lit" and isinstance(r_[1], int):
                            v = r_[1]
                            if o_ == ">=":
                                lo[k] = max(lo[k], v) if lo[k] is not None else v
                            elif o_ == ">":
                                lo[k] = max(lo[k], v + 1) if lo[k] is not None else v + 1
                            elif o_ == "<=":
                                hi[k] = min(hi[k], v) if hi[k] is not None else v
                            elif o_ == "<":
                                hi[k] = min(hi[k], v - 1) if hi[k] is not None else v - 1
                # reaching the pair branch means char::from_u32(first) was None: first is a surrogate code unit
                gs = core.guards_dominating(prog, b, fb)
                if any(lab == "None" and desc_contains(dd, lambda y: y[0] == "call" and y[1].endswith("::from_u32")) and unit_key(dd) == us[0] for s_, lab, dd, info in gs):
                    lo[us[0]] = max(lo[us[0]] or 0, 0xD800)
                    hi[us[0]] = min(hi[us[0]] if hi[us[0]] is not None else 0xFFFF, 0xDFFF)
                rng = (lo[us[0]], hi[us[0]], lo[us[1]], hi[us[1]])
                ok = form and rng[0] is not None and rng[0] >= 0xD800 and rng[1] is not None and rng[1] <= 0xDBFF and rng[2] is not None and rng[2] >= 0xDC00 and rng[3] is not None and rng[3] <= 0xDFFF
                chk.ob("R8.unicode_escape", fn, "pair (explicit formula): 0x10000 + (first - 0xD800) * 0x400 + (second - 0xDC00) with first in D800..=DBFF and second in DC00..=DFFF", ok,
                       f"formula {a}; established ranges: first {[hex(x) if x is not None else None for x in rng[:2]]}, second {[hex(x) if x is not None else None for x in rng[2:]]}: "
                       "outside these ranges a lone or mismatched surrogate escape is folded into an unrelated character instead of being rejected", where=b.where(fb))
            else:
                chk.ob("R8.unicode_escape", fn, "the escape's character comes from char::from_u32 / char::decode_utf16 of the parsed code units", False,
                       f"pushed value {panics.short_desc(alt)}", where=b.where(blk))


def run(chk):
    prog = chk.use(core.load("A", fresh=(chk.tier == "thorough")))
    chk.explanation = (
        "Static decision of C13's structural clauses: the parser's escape table, unescaped-character set, whitespace set and literal table equal RFC 8259; the "
        "serialiser's ordered code-point table writes each short escape the parser inverts, writes verbatim only characters from the RFC unescaped set and "
        "sends the rest to \\uXXXX; in arrays and objects every element->element path passes the consumed-comma edge (product of the CFG with a finite store "
        "for the trailing_comma flag and the emptiness of the member vector), values follow a consumed colon and a quoted key; f64::from_str and "
        "from_str_radix are reached only through character-level gates on the same token; depth inc/dec are paired; members keep document order; the "
        "serialiser writes elements in stored order with the RFC separators.")
    chk.not_decided = "the `iff` itself for whole documents; number values (f64::from_str); pretty-printer layout; unpaired surrogates; the number grammar when the gate is not a character scanner hv.charauto can model (reported as not decided)"
    chk.assumptions = ["rustc type checking / MIR construction / HIR match tables", "f64::from_str accepts at least every RFC 8259 number"]
    tables_rule(chk, prog)
    separators(chk, prog)
    whitespace_placement(chk, prog)
    number_gates(chk, prog)
    no_size_caps(chk, prog)
    depth_pairing(chk, prog)
    serialiser_structure(chk, prog)
    number_output(chk, prog)
    serialiser_no_panic(chk, prog)
    unicode_escapes(chk, prog)

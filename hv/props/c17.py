"""C17 — passwords and session tokens authenticate exactly their owner, only while valid (structural clauses)."""
from .. import core, panics, fmt
from ..core import describe, describe_r, desc_contains
from .c01 import some_edge_of

AP = "humphrey_auth::AuthProvider::<T>::"
VALID = r"session::Session::valid$"


def is_epoch_now(y):
    """`UNIX_EPOCH.elapsed()` or `SystemTime::now().duration_since(UNIX_EPOCH)`: the time since the epoch, read from the system clock now."""
    if not (isinstance(y, tuple) and y and y[0] == "call"):
        return False
    if y[1].endswith("SystemTime::elapsed"):
        return "UNIX_EPOCH" in str(y[2])
    if y[1].endswith("SystemTime::duration_since") and len(y[2]) == 2:
        return desc_contains(y[2][0], lambda z: z[0] == "call" and z[1].endswith("SystemTime::now")) and "UNIX_EPOCH" in str(y[2][1]) and \
            not desc_contains(y[2][1], lambda z: z[0] == "call" and z[1].endswith("SystemTime::now"))
    return False


def closure_calls(prog, d, rx):
    """Does a closure — or a predicate function handed over by name (`.filter(has_live_session)`) — appearing in description d call
    something matching rx?  A named predicate must return `true` only as the result of that call (its other results are `false`)."""
    for y in _nodes(d):
        if y[0] == "closure" and y[1] in prog.bodies:
            for p in prog.reach_bodies([y[1]]):
                if prog.bodies[p].calls_to(rx):
                    return True
        if y[0] == "fn" and isinstance(y[1], str) and core.re.search(rx, y[1]):
            return True         # the function itself handed over as the predicate: `.filter(Session::valid)`
        if y[0] == "fn" and y[1] in prog.bodies and prog.bodies[y[1]].local_ty(0) == "bool":
            fb = prog.bodies[y[1]]
            r = describe(prog, fb, 0)
            alts = r[1] if r[0] == "multi" else [r]
            ok = bool(alts) and any(a[0] == "call" and core.re.search(rx, a[1]) for a in alts) and \
                all((a[0] == "call" and core.re.search(rx, a[1])) or a == ("lit", False) for a in alts)
            if ok:
                return True
    return False


def _nodes(d, out=None):
    out = [] if out is None else out
    if isinstance(d, tuple):
        out.append(d)
        for x in d:
            _nodes(x, out)
    elif isinstance(d, list):
        for x in d:
            _nodes(x, out)
    return out


def validity_established(prog, b, blk, user_desc):
    """Is the user (looked up by token) known to have a valid session at block blk?
    Accepted idioms: the lookup result went through Option::filter(|u| ..valid()..); or blk is dominated by the true edge of a
    test whose condition calls Session::valid (directly or in a map closure) on that user's session."""
    if desc_contains(user_desc, lambda y: y[0] == "call" and y[1].endswith("Option::<T>::filter") and closure_calls(prog, y[2][1], VALID)):
        return "filter(valid)"
    for cond, truth in panics.bool_facts(prog, b, blk):
        pol = truth
        c = cond
        while isinstance(c, tuple) and c and c[0] == "un" and c[1] == "Not":
            pol = not pol
            c = c[2]
        if not isinstance(c, tuple) or not c:
            continue
        if c[0] == "edge":
            continue
        direct = desc_contains(c, lambda y: y[0] == "call" and core.re.search(VALID, y[1]) is not None) or \
            desc_contains(c, lambda y: y[0] == "call" and core.re.search(r"Option::<T>::(is_some_and|map_or|filter)$", y[1]) is not None and
                          any(isinstance(a, tuple) and a and a[0] == "fn" and core.re.search(VALID, str(a[1])) for a in y[2]))
        via = closure_calls(prog, c, VALID)
        if (direct or via) and pol:
            return "dominating valid() test"
    return None



def db_order_independent(chk, prog):
    """R8.list_order: the user list is searched in a way that does not depend on its order, or its order is never disturbed.  A
    binary search / partition_point over Vec<User> presupposes a sorted list; if any method of the same impl appends at the end, swap-removes,
    swaps or reverses, the invariant breaks after a particular history (three users, the middle one removed) and a user who exists — and whose
    token still resolves through the linear token lookup — is no longer found by uid: invalidate / remove silently do nothing."""
    base = "<std::vec::Vec<humphrey_auth::user::User> as humphrey_auth::database::AuthDatabase>::"
    fam = [b for p_, b in sorted(prog.bodies.items()) if p_.startswith(base)]
    chk.floor("AuthDatabase for Vec<User> bodies", len(fam), 6)
    ordered = [(b, blk, t) for b in fam for blk, t in b.calls_to(r"::(binary_search(_by|_by_key)?|partition_point)$")]
    disturb = [(b, blk, t) for b in fam for blk, t in b.calls_to(r"Vec::<T, A>::(push|swap_remove|append|extend_from_slice)$|::(swap|reverse|rotate_left|rotate_right|sort_unstable_by_key|sort_by_key|sort_by|sort_unstable_by)$")
               if t.get("arg_tys") and "user::User" in t["arg_tys"][0]]
    if not ordered:
        chk.ob("R8.list_order", base.rstrip(":"), "lookups over the user list do not depend on its order (linear find / position / retain)", True,
               f"{len(disturb)} order-changing call(s) are harmless: nothing searches by order")
        return
    for b, blk, t in ordered:
        chk.ob("R8.list_order", b.path, f"{core.short(t['callee'])} over the user list: no method of the impl disturbs the order it relies on", not disturb,
               f"the list is searched by order here, but {core.short(disturb[0][2]['callee']) if disturb else ''} in {core.short(disturb[0][0].path) if disturb else ''} "
               "does not keep it sorted: after that call an existing user can be missed by uid (invalidate_user_session / remove_user do nothing, the token stays valid)",
               where=b.where(blk))


def no_text_slicing(chk, prog):
    """R9.text_slices: tokens, user ids and passwords are client-chosen text.  Every index / slice of a str or slice in the auth crate must
    be dischargeable (a position taken from the same string's char_indices / find, a constant range under a length guard): a byte-position
    slice of a presented token panics on a multi-byte character — inside `with_auth_route` while the provider's mutex is held, which
    poisons it for every later request — instead of yielding InvalidToken."""
    n_b = n_s = 0
    for p_, b in sorted(prog.bodies.items()):
        if not (p_.startswith("humphrey_auth::") or p_.startswith("<humphrey_auth::") or " as humphrey_auth::" in p_) or "promoted" in p_:
            continue
        n_b += 1
        for st_ in panics.sites_of(prog, b):
            if not st_.kind.startswith("call:index"):
                continue        # (indexing a constant table with a masked nibble etc. is not a slice of client text)
            ty0_ = ((st_.term.get("arg_tys") or [""])[0] or "")
            if not core.re.search(r"\bstr\b|String|\[u8\]", ty0_):
                continue
            n_s += 1
            how, why = panics.try_discharge(prog, st_)
            chk.ob("R9.text_slices", p_, f"{st_.kind} {panics.short_desc(st_.operands[0]) if st_.operands else ''}[..] cannot panic", how is not None,
                   f"an index / slice of client-chosen text can panic ({why or 'no discharge idiom applies'}): a token with a multi-byte character where a byte position is assumed "
                   "takes the handler down (and poisons the provider's lock) instead of being rejected", where=st_.where())
    chk.ob("R9.text_slices", "humphrey_auth", "auth-crate bodies scanned for index / slice sites", n_b >= 20, f"{n_b} bodies, {n_s} site(s)")

def run(chk):
    prog = chk.use(core.load("A", fresh=(chk.tier == "thorough")))
    chk.explanation = (
        "Static decision of C17's structural clauses: in every AuthProvider method a user looked up by token is only confirmed (uid returned) or extended "
        "(Session::refresh / expiry write) after Session::valid held for that session; tokens are the hex of 32 bytes filled by OsRng; a new session is "
        "stored only when the existing one is not valid; sessions live inside User so removing the user removes the token; with_auth_route calls the "
        "handler only under the Ok edge of get_uid_by_token(cookie HumphreyToken) and answers 401 otherwise; create and verify build Argon2 through the "
        "same constructor with the same pepper source; Session::valid is the strict `now < expiry` on the system clock.")
    chk.not_decided = "Argon2 itself; expiry arithmetic overflow; uniqueness of random tokens; custom AuthDatabase implementations"
    chk.assumptions = ["rustc type checking / MIR construction / callee resolution", "OsRng is a CSPRNG; Vec<User> is the reference database"]
    # ---- R1
    n = 0
    for p, b in sorted(prog.bodies.items()):
        if not p.startswith(AP) or "closure" in p or "promoted" in p:
            continue
        lookups = [(blk, t) for blk, t in b.calls_to(r"AuthDatabase::get_user_by_token$")]
        name = p.split("::")[-1]
        if not lookups:
            # a stored session reached some other way (by uid): extending it is still only for a session that is valid now — re-arming an
            # expired session revives its old token instead of issuing a new one
            for blk, t in b.calls_to(r"session::Session::refresh$"):
                d = describe(prog, b, t["args"][0])
                if not desc_contains(d, lambda y: y[0] == "call" and core.re.search(r"AuthDatabase::get_user_by_\w+$", y[1]) is not None):
                    continue
                n += 1
                how = validity_established(prog, b, blk, d)
                chk.ob("R1.valid_before_confirm", p, f"{name}: Session::refresh only for a session that Session::valid() accepted", how is not None,
                       f"{name} extends a stored session without knowing that it is still valid: an expired token is revived", where=b.where(blk))
            continue
        # confirming / extending sites
        sites = []
        for blk, t in b.calls_to(r"session::Session::refresh$"):
            sites.append((blk, "Session::refresh", describe(prog, b, t["args"][0])))
        for ob in core.ok_return_blocks(b, "Ok"):
            for s_ in b.blocks[ob]["stmts"]:
                rv = s_.get("rv")
                if rv and rv.get("k") == "agg" and rv.get("variant") == "Ok" and s_["pl"]["l"] == 0 and rv["ops"]:
                    d = describe(prog, b, rv["ops"][0])
                    if desc_contains(d, lambda y: y[0] == "call" and y[1].endswith("get_user_by_token")):
                        sites.append((ob, "return Ok(uid)", d))
        d0 = describe(prog, b, 0)
        if "String" in b.local_ty(0) and isinstance(d0, tuple) and d0[0] == "call" and d0[1].endswith("Option::<T>::ok_or") and desc_contains(d0, lambda y: y[0] == "call" and y[1].endswith("get_user_by_token")):
            sites.append((core.return_blocks(b)[0], "return uid (Option chain)", d0))
        for blk, what, d in sites:
            n += 1
            how = validity_established(prog, b, blk, d)
            chk.ob("R1.valid_before_confirm", p, f"{name}: {what} only for a session that Session::valid() accepted", how is not None,
                   f"{name} looks the user up by token and then {what} without checking that the session is still valid: an expired token is accepted / revived",
                   where=b.where(blk))
    chk.floor("token-confirming sites", n, 2)
    # ---- R2 token entropy
    refreshed_after_build = chk.extra.setdefault("_refreshed_after_build", [])
    cf = prog.bodies.get("humphrey_auth::session::Session::create_with_lifetime")
    chk.floor("Session::create_with_lifetime", 1 if cf else 0, 1)
    if cf:
        fills = cf.calls_to(r"RngCore::fill_bytes$|RngCore>::fill_bytes$|try_fill_bytes$")
        chk.floor("fill_bytes site", len(fills), 1)
        buf_local = None
        for blk, t in fills:
            rng_ty = (t.get("arg_tys") or [""])[0]
            chk.ob("R2.token", cf.path, "token bytes come from OsRng", "OsRng" in rng_ty, f"rng type {rng_ty}", where=cf.where(blk))
            from ..fmt import _deref_chain
            buf_local = _deref_chain(cf, core.op_local(t["args"][1]))
            ty = cf.local_ty(buf_local)
            chk.ob("R2.token", cf.path, "token is 32 random bytes (256 bits)", ty == "[u8; 32]", f"buffer type {ty}")
        for blk_ in cf.blocks:
            for s_ in blk_["stmts"]:
                rv = s_.get("rv")
                if rv and rv.get("k") == "agg" and rv.get("adt", "").endswith("session::Session"):
                    tok = describe(prog, cf, rv["ops"][rv["fields"].index("token")])
                    folds = [c for c in core.desc_calls(tok) if core.re.search(r"Iterator>?::fold$", c[1])]
                    ok = bool(folds) and folds[0][2][0][0] == "call" and folds[0][2][0][1].endswith("::iter")
                    src_ok = False
                    if folds:
                        itb = [c for c in core.desc_calls(folds[0][2][0]) if c[1].endswith("::iter")]
                        if itb:
                            il = _deref_chain(cf, core.op_local(cf.term(itb[0][3])["args"][0]))
                            src_ok = il == buf_local
                    how = "fold + {:02x}"
                    if not folds:
                        ok, src_ok, how = hex_table_encoding(prog, cf, buf_local)
                    if not (ok and src_ok):
                        ok2, src2, how2 = hex_per_byte(prog, cf, buf_local, tok)
                        if ok2 and src2:
                            ok, src_ok, how = ok2, src2, how2
                    if not (ok and src_ok):
                        # bytes.iter().map(|b| format!("{:02x}", b)).collect::<String>(): every byte, in order, one formatted piece each
                        tk = panics._strip(tok)
                        if isinstance(tk, tuple) and tk[0] == "call" and core.re.search(r"Iterator>?::collect$", tk[1]) and tk[2] and isinstance(tk[2][0], tuple) and \
                                tk[2][0][0] == "call" and core.re.search(r"Iterator>?::map$", tk[2][0][1]):
                            recv_, clo_ = tk[2][0][2][0], tk[2][0][2][1]
                            plain_iter = isinstance(recv_, tuple) and recv_[0] == "call" and recv_[1].endswith("::iter") and \
                                not [c for c in core.desc_calls(recv_) if core.re.search(r"::(skip|take|step_by|rev|filter|skip_while|take_while|chain|zip)$", c[1])]
                            itb = [c for c in core.desc_calls(recv_) if c[1].endswith("::iter") and len(c) > 3]
                            il = _deref_chain(cf, core.op_local(cf.term(itb[0][3])["args"][0])) if itb else None
                            per_byte = clo_[0] == "closure" and clo_[1] in prog.bodies and "String" in (prog.bodies[clo_[1]].local_ty(0) or "") and bool(fmt.format_sites(prog.bodies[clo_[1]]))
                            if plain_iter and per_byte and il == buf_local and "String" in (cf.local_ty(core.op_local(rv["ops"][rv["fields"].index("token")])) or "String"):
                                ok, src_ok, how = True, True, "map(format {:02x}) + collect"
                    chk.ob("R2.token", cf.path, "Session.token is the hex encoding of all of those bytes", ok and src_ok, f"token = {panics.short_desc(tok)} ({how})")
                    exp = describe(prog, cf, rv["ops"][rv["fields"].index("expiry")])
                    exp_ok = desc_contains(exp, lambda y: y[0] == "bin" and y[1].startswith("Add")) and desc_contains(exp, lambda y: y[0] == "param" and y[2] == "lifetime") and \
                        desc_contains(exp, is_epoch_now)
                    if not exp_ok:
                        # built with a placeholder and then given its expiry by Session::refresh(lifetime) on every path to the return
                        rf = [blk2 for blk2, t2 in cf.calls_to(r"session::Session::refresh$")
                              if len(t2["args"]) > 1 and panics._strip(describe(prog, cf, t2["args"][1]))[0] == "param" and panics._strip(describe(prog, cf, t2["args"][1]))[2] == "lifetime"]
                        here = next((bi_ for bi_, b2_ in enumerate(cf.blocks) if s_ in b2_["stmts"]), None)
                        if rf and here is not None and core.must_pass(cf, [here], core.return_blocks(cf), through_nodes=rf) is None:
                            exp_ok = True
                            refreshed_after_build.append(True)
                    chk.ob("R2.expiry", cf.path, "expiry = now + lifetime", exp_ok, f"{panics.short_desc(exp)}")
        for c in prog.closures_of(cf.path):
            lits = fmt.format_sites(c)
            if lits:
                # {:02x}: one placeholder, no literal text
                ok = all(len(parts) == 1 and parts[0][0] == "arg" for _, parts in lits)
                chk.ob("R2.token", c.path, "each byte is formatted as two hex digits and nothing else", ok, f"{lits}")
    # ---- R3 one live session
    for fn in (AP + "create_session", AP + "create_session_with_lifetime"):
        b = prog.bodies.get(fn)
        chk.floor(fn.split("::")[-1], 1 if b else 0, 1)
        if not b:
            continue
        ups = b.calls_to(r"AuthDatabase::update_user$")
        # (create_session may hand the work to create_session_with_lifetime, which is judged in its own right)
        delegated = fn.endswith("::create_session") and bool(b.calls_to(r"AuthProvider::<T>::create_session_with_lifetime$"))
        chk.floor(f"update_user in {fn.split('::')[-1]}", len(ups) + (1 if delegated else 0), 1)
        for blk, t in ups:
            ok = False
            for cond, truth in panics.bool_facts(prog, b, blk):
                pol = truth
                c = cond
                while isinstance(c, tuple) and c and c[0] == "un" and c[1] == "Not":
                    pol = not pol
                    c = c[2]
                if isinstance(c, tuple) and c and c[0] != "edge" and (closure_calls(prog, c, VALID) or desc_contains(c, lambda y: y[0] == "call" and core.re.search(VALID, y[1]) is not None)) and not pol:
                    ok = True
            if not ok:
                # the verdict travels through a value (`SessionState::of(..) == Live`, a flag): on the product store, once valid() has
                # answered true no store is reachable
                from .. import absreach
                vcalls = [(vb, vt) for vb, vt in b.calls_to(VALID) if vt.get("dest") and not vt["dest"]["p"] and vt.get("target") is not None]
                st_ = absreach.Store(b, prog)
                if vcalls and all(vt["dest"]["l"] in st_.flags for vb, vt in vcalls):
                    ok = all(blk not in absreach.feasible_from(b, [vt["target"]], prog, init={("flag", vt["dest"]["l"]): True}) for vb, vt in vcalls) and \
                        all(blk in b.reachable([vt["target"]]) or True for vb, vt in vcalls)
            chk.ob("R3.one_session", fn, "a new session is stored only when the existing session is not valid", ok,
                   "a second live session can be created for a user whose current session is still valid", where=b.where(blk))
            u = describe(prog, b, t["args"][1])
    # ---- R4 sessions live inside User
    st = prog.structs.get("humphrey_auth::user::User", {}).get("fields", [])
    chk.ob("R4.session_in_user", "humphrey_auth::user::User", "the session is a field of User", any(x["name"] == "session" and "Option<humphrey_auth::session::Session>" in x["ty"] for x in st), f"{st}")
    rm = [p for p in prog.bodies if p.endswith("AuthDatabase>::remove_user") and "Vec<" in p]
    chk.floor("Vec<User>::remove_user", len(rm), 1)
    for p in rm:
        b = prog.bodies[p]
        chk.ob("R4.session_in_user", p, "remove_user drops the whole user (and its session)", bool(b.calls_to(r"Vec::<T, A>::(retain|remove|swap_remove)$")), "")
    inv = [AP + "invalidate_session", AP + "invalidate_user_session"]
    si = next((i for i, x in enumerate(st) if x["name"] == "session"), None)
    for fn in inv:
        b = prog.bodies.get(fn)
        chk.floor(fn.split("::")[-1], 1 if b else 0, 1)
        if not b:
            continue
        cleared = False
        for blk_ in b.blocks:
            for s_ in blk_["stmts"]:
                if "pl" in s_ and [e[1] for e in s_["pl"]["p"] if e[0] == "f"] == [si]:
                    d = core.describe_rv(prog, b, s_["rv"])
                    if d[0] == "variant" and d[2] == "None":
                        cleared = True
                # struct-update form: update_user(User { session: None, ..user })
                rv_ = s_.get("rv")
                if rv_ and rv_.get("k") == "agg" and str(rv_.get("adt", "")).endswith("user::User") and "session" in (rv_.get("fields") or []):
                    d = describe(prog, b, rv_["ops"][rv_["fields"].index("session")])
                    if d[0] == "variant" and d[2] == "None":
                        cleared = True
        w = core.must_pass(b, [blk for blk, t in b.calls_to(r"get_user_by_(token|uid)$")], core.return_blocks(b), through_nodes=[blk for blk, t in b.calls_to(r"update_user$")],
                           through_edges=set(e for blk, t in b.calls_to(r"get_user_by_(token|uid)$") for e in __import__("hv.props.c01", fromlist=["x"]).some_edge_of(prog, b, blk, "None")))
        chk.ob("R4.invalidate", fn, "the session is cleared and the user written back", cleared and w is None, "", path=w)
    # ---- R5 with_auth_route
    from ..inline import owner_fn
    newf = set(getattr(prog, "new_functions", []) or [])
    # (closures of helpers that did not exist on the pinned tree are looked at where the helper is inlined)
    cl = [b for p, b in prog.bodies.items() if "humphrey_auth::app::" in p and b.kind == "closure" and owner_fn(p) not in newf and
          b.calls_to(r"AuthProvider::<T>::get_uid_by_token$")]
    # (a closure that the combinator lowering inlined into its parent is looked at there)
    inl_ = {blk_.get("from_closure") for b_ in prog.bodies.values() if "humphrey_auth::app::" in b_.path for blk_ in b_.blocks if blk_.get("from_closure")}
    cl = [b for b in cl if b.path not in inl_]
    chk.floor("auth route closure", len(cl), 1)
    for c in cl:
        gets = c.calls_to(r"AuthProvider::<T>::get_uid_by_token$")
        for blk, t in gets:
            tok = describe(prog, c, t["args"][1])
            ok = desc_contains(tok, lambda y: y[0] == "call" and y[1].endswith("Request::get_cookie") and ("lit", "HumphreyToken") in y[2])
            chk.ob("R5.auth_route", c.path, "the token is the value of the HumphreyToken cookie", ok, f"{panics.short_desc(tok)}", where=c.where(blk))
        users = [blk for blk, t in c.calls() if (t.get("callee") or "").endswith("Fn::call")]
        chk.floor("user handler call in the auth route", len(users), 1)
        for ub in users:
            ok = False
            for s, lab, d, info in core.guards_dominating(prog, c, ub):
                if lab == "Ok" and desc_contains(d, lambda y: y[0] == "call" and y[1].endswith("get_uid_by_token")):
                    ok = True
            chk.ob("R5.auth_route", c.path, "the handler runs only under the Ok edge of get_uid_by_token", ok, "the protected handler can run without a valid token", where=c.where(ub))
            uid = describe(prog, c, c.term(ub)["args"][1])
            chk.ob("R5.auth_route", c.path, "the handler receives the uid that get_uid_by_token returned", desc_contains(uid, lambda y: y[0] == "call" and y[1].endswith("get_uid_by_token")), "")
        # every other exit answers 401
        fb = prog.bodies.get("humphrey_auth::app::forbidden")
        if fb:
            d = describe(prog, fb, 0)
            chk.ob("R5.auth_route", fb.path, "the fallback response is 401 Unauthorized", desc_contains(d, lambda y: y[0] == "variant" and y[2] == "Unauthorized"), f"{panics.short_desc(d)}")
        rets = core.return_blocks(c)
        # the 401: the `forbidden()` helper of the pinned tree, or (after a rename / inlining) a response built with StatusCode::Unauthorized
        inline_401 = [blk for blk, t in c.calls_to(r"Response::(new|empty)$") if t["args"] and core.is_variant(describe(prog, c, t["args"][0]), "StatusCode", "Unauthorized")]
        outs = [blk for blk, t in c.calls_to(r"app::forbidden$")] + inline_401 + users
        w = core.must_pass(c, [0], rets, through_nodes=outs, after_from=False)
        chk.ob("R5.auth_route", c.path, "every response is either the handler's (authenticated) or the 401", w is None, "", path=w)
    # ---- R6 same Argon2 construction
    cu, vf = prog.bodies.get("humphrey_auth::user::User::create"), prog.bodies.get("humphrey_auth::user::User::verify")
    chk.floor("User::create / User::verify", (1 if cu else 0) + (1 if vf else 0), 2)
    if cu and vf:
        for b in (cu, vf):
            cs = b.calls_to(r"user::create_argon2_instance$")
            ad = panics._strip(describe(prog, b, cs[0][1]["args"][0])) if cs else None
            ok = len(cs) == 1 and ad is not None and ad[0] == "param" and ad[2] == "pepper"
            chk.ob("R6.same_kdf", b.path, "Argon2 instance built by create_argon2_instance(pepper)", ok, "")
        hs = cu.calls_to(r"PasswordHasher::hash_password$")
        vs = vf.calls_to(r"PasswordVerifier::verify_password$")
        chk.ob("R6.same_kdf", cu.path, "password hashed with that instance", bool(hs) and desc_contains(describe(prog, cu, hs[0][1]["args"][0]), lambda y: y[0] == "call" and y[1].endswith("create_argon2_instance")), "")
        chk.ob("R6.same_kdf", vf.path, "password verified with that instance against the stored hash",
               bool(vs) and desc_contains(describe(prog, vf, vs[0][1]["args"][0]), lambda y: y[0] == "call" and y[1].endswith("create_argon2_instance")) and
               desc_contains(describe(prog, vf, vs[0][1]["args"][2]), lambda y: y[0] == "field" and y[2] == next(i for i, x in enumerate(st) if x["name"] == "password_hash")), "")
        d0 = describe(prog, vf, 0)
        chk.ob("R6.same_kdf", vf.path, "verify() is true exactly when verify_password is Ok", d0[0] == "call" and d0[1].endswith("::is_ok") and desc_contains(d0, lambda y: y[0] == "call" and y[1].endswith("verify_password")), f"{panics.short_desc(d0)}")
    for fn, callee in ((AP + "create_user", r"user::User::create$"), (AP + "verify", None)):
        b = prog.bodies.get(fn)
        if not b:
            continue
        bodies = [b] + prog.all_closures_of(fn)
        pep = False
        for bb in bodies:
            for blk, t in bb.calls_to(r"user::User::(create|verify)$"):
                d = describe_r(prog, bb, t["args"][-1])
                pi = 2
                pep = pep or desc_contains(d, lambda y: y[0] == "field" and y[1][0] == "field")
        chk.ob("R6.same_kdf", fn, "the pepper passed is self.config.pepper", pep, "")
    # ---- R7 strict validity
    vb = prog.bodies.get("humphrey_auth::session::Session::valid")
    chk.floor("Session::valid", 1 if vb else 0, 1)
    if vb:
        d = describe(prog, vb, 0)
        # `now.cmp(&expiry) == Ordering::Less` is `now < expiry` (and `== Greater` is `>`): read it as the comparison it spells
        if d[0] == "call" and core.re.search(r"cmp::Ordering as std::cmp::PartialEq>::(eq|ne)$", d[1]) and len(d[2]) == 2:
            cm = [x for x in d[2] if isinstance(x, tuple) and x[0] == "call" and core.re.search(r"cmp::(Ord|PartialOrd)( for [\w:]+)?>?::cmp$|::cmp$", x[1]) and len(x[2]) == 2]
            ov = [x for x in d[2] if isinstance(x, tuple) and x[0] == "variant" and x[1].endswith("cmp::Ordering")]
            if len(cm) == 1 and len(ov) == 1 and d[1].endswith("::eq") and ov[0][2] in ("Less", "Greater"):
                d = ("bin", "Lt" if ov[0][2] == "Less" else "Gt", cm[0][2][0], cm[0][2][1])
        ei = 1
        ok = d[0] == "bin" and ((d[1] == "Lt" and desc_contains(d[2], is_epoch_now) and desc_contains(d[3], lambda y: y[0] == "field") and not desc_contains(d[3], is_epoch_now)) or
                                (d[1] == "Gt" and desc_contains(d[3], is_epoch_now) and desc_contains(d[2], lambda y: y[0] == "field") and not desc_contains(d[2], is_epoch_now)))
        chk.ob("R7.strict", vb.path, "valid() == (now < expiry), strictly, with now from the system clock", ok,
               f"valid() computes {panics.short_desc(d)}: a session created with lifetime 0 must be born expired")
    db_lookup(chk, prog)
    db_order_independent(chk, prog)
    no_text_slicing(chk, prog)
    unknown_uid(chk, prog)
    refresh_persisted(chk, prog)
    whole_password_and_expiry(chk, prog)
    lifetime_fields(chk, prog)
    from . import c02
    c02.cookies(chk, prog, "A")


EQ = r"^std::cmp::PartialEq::eq$|as std::cmp::PartialEq(<[^>]*>)?>::eq$"


def _bool_defs(body, l, seen=None):
    """Definitions of a bool local, following plain copies."""
    seen = set() if seen is None else seen
    out = []
    for d in body.defs().get(l, []):
        if d[2] == "assign" and d[3]["rv"]["k"] == "use" and core.op_local(d[3]["rv"]["o"]) is not None and not d[3]["rv"]["o"]["pl"]["p"]:
            src = core.op_local(d[3]["rv"]["o"])
            if (body.path, src) not in seen:
                seen.add((body.path, src))
                out += _bool_defs(body, src, seen)
        else:
            out.append(d)
    return out


def implies_equality(prog, body, l, side_a, side_b, depth=0):
    """Every way local `l` (a bool) can become true is a full `==` between something satisfying side_a and something
    satisfying side_b (in either order).  Returns (ok, reason).  Accepted idioms: `false`; PartialEq::eq; `a && b` lowered to a
    switch (one definition per arm); a & b (either conjunct suffices); Option::map_or(false, f) / is_some_and(f) /
    map(f).unwrap_or(false) with f recursively checked; a call to a local helper whose result is recursively checked."""
    if depth > 6:
        return False, "comparison nested too deeply to follow"
    defs = _bool_defs(body, l)
    if not defs:
        return False, f"no definition found for the match result in {core.short(body.path)}"
    for d in defs:
        if d[2] == "assign":
            rv = d[3]["rv"]
            if rv["k"] == "use" and rv["o"].get("k") == "const":
                if rv["o"].get("v") is False:
                    continue
                # `matches!(x, Some(s) if s.token == token)`: `true` is assigned in the arm the equality test guards
                guarded = False
                for s2_, lab_, gd_, info_ in core.guards_dominating(prog, body, d[0]):
                    if lab_ == "true" and isinstance(gd_, tuple) and gd_ and gd_[0] == "call" and core.re.search(EQ, gd_[1]) and len(gd_[2]) == 2:
                        a = panics._strip(gd_[2][0])
                        b = panics._strip(gd_[2][1])
                        if (side_a(body, a) and side_b(body, b)) or (side_a(body, b) and side_b(body, a)):
                            guarded = True
                if guarded:
                    continue
                return False, f"the match result is the constant {rv['o'].get('v')}"
            if rv["k"] == "bin" and rv.get("op") == "BitAnd":
                oks = []
                for o in (rv["l"], rv["r"]):
                    ol = core.op_local(o)
                    oks.append(ol is not None and implies_equality(prog, body, ol, side_a, side_b, depth + 1)[0])
                if any(oks):
                    continue
            return False, f"the match result is computed by {rv['k']}{'/' + str(rv.get('op')) if rv.get('op') else ''}, not by a string equality"
        if d[2] != "call":
            return False, "the match result does not come from a comparison"
        t = d[3]
        callee = t.get("callee") or ""
        if core.re.search(EQ, callee):
            tys = " ".join(t.get("arg_tys", []))
            if not core.re.search(r"\bString\b|\bstr\b", tys):
                return False, f"equality on {tys}, not on the strings"
            a = panics._strip(describe(prog, body, t["args"][0]))
            b = panics._strip(describe(prog, body, t["args"][1]))
            if (side_a(body, a) and side_b(body, b)) or (side_a(body, b) and side_b(body, a)):
                continue
            return False, f"eq({panics.short_desc(a)}, {panics.short_desc(b)}) does not compare the stored value with the presented one"
        r = t.get("resolved")
        if core.re.search(r"Option::<T>::(map_or|is_some_and|unwrap_or)$", callee):
            dd = describe_r(prog, body, t["dest"]["l"])
            cls = [y[1] for y in _nodes(dd) if y[0] == "closure" and y[1] in prog.bodies]
            if callee.endswith("unwrap_or") or callee.endswith("map_or"):
                dflt = describe(prog, body, t["args"][1])
                if dflt != ("lit", False):
                    return False, f"default of {callee.split('::')[-1]} is {panics.short_desc(dflt)}, not false"
            if not cls:
                return False, f"{callee.split('::')[-1]} without a predicate closure"
            for c in cls:
                ok, why = implies_equality(prog, prog.bodies[c], 0, side_a, side_b, depth + 1)
                if not ok:
                    return ok, why
            continue
        if r and r in prog.bodies and prog.bodies[r].local_ty(0) == "bool":
            ok, why = implies_equality(prog, prog.bodies[r], 0, side_a, side_b, depth + 1)
            if not ok:
                return ok, why
            continue
        return False, f"the match is decided by {core.short(callee)}, which is not a full string equality (a prefix / length-blind / hashed comparison accepts tokens that were never issued)"
    return True, ""


def whole_password_and_expiry(chk, prog):
    """R6.whole_password: Argon2 hashes / verifies exactly the bytes of the password that was passed in (no truncation, folding or trimming);
    R7.expiry_from_now: a session's expiry is always `now + lifetime`, at creation and at refresh (never built on the previous expiry)."""
    conv = r"(::|>::)(as_ref|as_bytes|as_str|deref|borrow|as_slice|clone|to_owned|into|from)$"
    n = 0
    for fn, rx in (("humphrey_auth::user::User::create", r"PasswordHasher::hash_password$"), ("humphrey_auth::user::User::verify", r"PasswordVerifier::verify_password$")):
        b = prog.bodies.get(fn)
        if not b:
            continue
        for blk, t in b.calls_to(rx):
            n += 1
            d = describe(prog, b, t["args"][1])
            from_param = desc_contains(d, lambda y: y[0] == "param" and y[2] == "password")
            odd = sorted(set(c[1] for c in core.desc_calls(d) if not core.re.search(conv, c[1])))
            sliced = desc_contains(d, lambda y: y[0] in ("index",) or (y[0] == "call" and core.re.search(r"Index(<[^>]*>)?(>)?::index$|::get$|::split_at$|::chunks", y[1]) is not None))
            chk.ob("R6.whole_password", fn, "the bytes handed to Argon2 are the whole password argument (reference conversions only)", from_param and not odd and not sliced,
                   f"password bytes = {panics.short_desc(d)}; other operations: {[core.short(x) for x in odd]}: two different passwords can then hash alike", where=b.where(blk))
    chk.floor("Argon2 hash / verify call sites", n, 2)
    st = prog.structs.get("humphrey_auth::session::Session", {}).get("fields", [])
    ei = next((i for i, x in enumerate(st) if x["name"] == "expiry"), None)
    m = 0
    for fn in ("humphrey_auth::session::Session::refresh", "humphrey_auth::session::Session::create_with_lifetime"):
        b = prog.bodies.get(fn)
        if not b or ei is None:
            continue
        vals = []
        for blk_i, blk in enumerate(b.blocks):
            for stt in blk["stmts"]:
                if "pl" in stt and [e[1] for e in stt["pl"]["p"] if e[0] == "f"] == [ei]:
                    vals.append((blk_i, describe(prog, b, stt["rv"]["o"]) if stt["rv"]["k"] == "use" else core.describe_rv(prog, b, stt["rv"])))
                rv = stt.get("rv")
                if rv and rv.get("k") == "agg" and rv.get("adt", "").endswith("session::Session"):
                    vals.append((blk_i, describe(prog, b, rv["ops"][rv["fields"].index("expiry")])))
        for blk_i, d in vals:
            m += 1
            d = panics._strip(d)
            ok = False
            if fn.endswith("create_with_lifetime") and chk.extra.get("_refreshed_after_build") and d[0] == "lit":
                chk.ob("R7.expiry_from_now", fn, "expiry = (seconds since the epoch, now) + lifetime", True, "placeholder, set by Session::refresh(lifetime) before the session is returned", where=b.where(blk_i))
                continue
            if isinstance(d, tuple) and d[0] == "field" and isinstance(d[1], tuple) and d[1][0] == "bin" and d[1][1] in ("AddWithOverflow", "Add"):
                l, r = panics._strip(d[1][2]), panics._strip(d[1][3])
                def is_now(x):
                    return isinstance(x, tuple) and x[0] == "call" and x[1].endswith("as_secs") and desc_contains(x, is_epoch_now) and \
                        not desc_contains(x, lambda y: y[0] == "field" or (y[0] == "call" and core.re.search(r"::(max|min|saturating_\w+)$", y[1]) is not None))
                def is_life(x):
                    return isinstance(x, tuple) and x[0] == "param" and x[2] == "lifetime"
                ok = (is_now(l) and is_life(r)) or (is_now(r) and is_life(l))
            chk.ob("R7.expiry_from_now", fn, "expiry = (seconds since the epoch, now) + lifetime", ok,
                   f"expiry = {panics.short_desc(d)}: a refresh that builds on the old expiry lets a token outlive now + lifetime", where=b.where(blk_i))
    chk.floor("Session expiry assignments", m, 2)


def hex_per_byte(prog, b, buf_local, tok):
    """R-BYTECLASS form: a loop over the whole buffer in which, for every value of the byte, exactly the two hex digits of that byte
    (one case throughout) are appended to the token — by two pushes of computed digits or by one `{:02x}` / `{:02X}` placeholder."""
    from .. import byteset
    from ..fmt import _deref_chain
    best = (False, False, "no per-byte hex writer found")
    for nb, t in b.calls_to(r"Iterator>?::next$|Iterator::next$"):
        recv = core.describe(prog, b, t["args"][0])
        if [c for c in core.desc_calls(recv) if core.re.search(r"::(skip|take|step_by|filter|rev|skip_while|take_while|chain|zip)$", c[1])]:
            continue
        whole = False
        for c in core.desc_calls(recv):
            if core.re.search(r"into_iter$|::iter$", c[1]) and len(c) > 3:
                a0 = b.term(c[3])["args"][0]
                if _deref_chain(b, core.op_local(a0)) == buf_local or core.op_local(a0) == buf_local:
                    whole = True
        if not whole or t.get("dest") is None:
            continue
        var = ("field", core.describe(prog, b, t["dest"]["l"]), 0)
        fl = byteset.ByteFlow(prog, b, var)
        writes = []
        for blk, ct in b.calls():
            name = ct.get("resolved") or ct.get("callee") or ""
            if not core.re.search(r"string::String::(push|push_str)$|String as std::fmt::Write>::write_(str|fmt|char)$|fmt::Write::write_fmt$|AddAssign<&str>>::add_assign$", name):
                continue
            if not b.dominates(nb, blk) or fl.mask_at(blk) == 0:
                continue
            if nb not in b.reachable(b.succs(blk)):
                continue            # after the loop
            writes.append((blk, ct, name))
        writes.sort(key=lambda x: sum(1 for y in writes if b.dominates(y[0], x[0])))
        full = all(fl.mask_at(blk) == byteset.ALL for blk, ct, name in writes)
        same_out = all(byteset.strip_conv(core.describe(prog, b, ct["args"][0])) == byteset.strip_conv(tok) for blk, ct, name in writes)
        if not writes or not full or not same_out:
            best = (False, whole, f"{len(writes)} write(s) in the loop; all bytes reach them: {full}; they append to the token: {same_out}")
            continue
        for digits in ("0123456789abcdef", "0123456789ABCDEF"):
            if len(writes) == 2 and all(n.endswith("String::push") or n.endswith("write_char") for _, _, n in writes):
                a_hi, a_lo = (core.describe(prog, b, ct["args"][1]) for _, ct, _ in writes)
                if all(fl.eval(a_hi, v) == ord(digits[v >> 4]) and fl.eval(a_lo, v) == ord(digits[v & 15]) for v in range(256)):
                    return True, True, "loop over the buffer pushing the two hex digits of each byte"
        if len(writes) == 1:
            blk, ct, name = writes[0]
            arg = core.describe(prog, b, ct["args"][-1])
            fs = [c[3] for c in core.desc_calls(arg) if "fmt::Arguments" in c[1] and len(c) > 3]
            parts = fmt.format_parts(b, fs[0]) if fs else None
            specs = fmt.format_specs(b, fs[0]) if fs else None
            if parts and specs and len(parts) == 1 and parts[0][0] == "arg" and len(specs) == 1 and parts[0][1] is not None:
                sp = specs[0]
                if fl.is_alias_desc(core.describe(prog, b, parts[0][1])) and core.re.search(r"new_(lower|upper)_hex$", parts[0][2] or "") and sp["width"] == 2 and \
                        sp["flags"] is not None and sp["flags"] & fmt.ZERO_PAD_FLAG and not sp["flags"] & fmt.ALTERNATE_FLAG:
                    return True, True, "loop over the buffer writing each byte as {:02x}"
            best = (False, whole, f"one write per byte, but not a lone {{:02x}} placeholder: {parts} {specs}")
        else:
            best = (False, whole, f"{len(writes)} writes per byte that are not the two hex digits")
    return best


def hex_table_encoding(prog, b, buf_local):
    """Loop form of the hex encoding: for every byte of the buffer, push TABLE[byte >> 4] then TABLE[byte & 0xf] with TABLE the sixteen
    hex digits.  Returns (shape ok, iterates the whole buffer, description)."""
    from .. import bits
    from ..fmt import _deref_chain
    be = bits.BitEval(prog, b)
    pushes = []
    for blk, t in b.calls_to(r"String::push$"):
        a = t["args"][1]
        l = core.op_local(a)
        ds = b.defs().get(l, []) if l is not None else []
        if len(ds) == 1 and ds[0][2] == "assign" and ds[0][3]["rv"]["k"] == "cast":
            src = core.op_local(ds[0][3]["rv"]["o"])
            d2 = b.defs().get(src, [])
            if len(d2) == 1 and d2[0][2] == "assign" and d2[0][3]["rv"]["k"] == "use" and d2[0][3]["rv"]["o"].get("pl"):
                pl = d2[0][3]["rv"]["o"]["pl"]
                idx = [e for e in pl["p"] if e[0] == "i"]
                tab = core.describe(prog, b, pl["l"])
                lit = None
                for y in core.desc_nodes(tab) if hasattr(core, "desc_nodes") else []:
                    pass
                txt = str(tab)
                is_hex = "0123456789abcdef" in txt or "0123456789ABCDEF" in txt or _table_bytes(prog, b, pl["l"]) in (b"0123456789abcdef", b"0123456789ABCDEF")
                if len(idx) == 1 and is_hex:
                    pushes.append((blk, be.local(idx[0][1])))
    if len(pushes) != 2:
        return False, False, f"{len(pushes)} table pushes"
    pushes.sort(key=lambda x: sum(1 for y in pushes if b.dominates(y[0], x[0])))
    def nib(v):
        if v is None:
            return None
        srcs = [x for x in v[:4]]
        if any(x in (0, 1, None) for x in srcs) or any(x != 0 for x in v[4:]):
            return None
        keys = set((x[1], x[2]) for x in srcs)
        if len(keys) != 1:
            return None
        return [x[3] for x in srcs], next(iter(keys))
    hi, lo = nib(pushes[0][1]), nib(pushes[1][1])
    shape = hi is not None and lo is not None and hi[0] == [4, 5, 6, 7] and lo[0] == [0, 1, 2, 3] and hi[1] == lo[1]
    # the byte comes from iterating the whole random buffer
    whole = False
    for nb, t in b.calls_to(r"Iterator>?::next$|Iterator::next$"):
        recv = core.describe(prog, b, t["args"][0])
        if not [c for c in core.desc_calls(recv) if core.re.search(r"::(skip|take|step_by|filter|rev)$", c[1])]:
            for c in core.desc_calls(recv):
                if c[1].endswith("into_iter") and len(c) > 3:
                    a0 = b.term(c[3])["args"][0]
                    if _deref_chain(b, core.op_local(a0)) == buf_local or core.op_local(a0) == buf_local:
                        whole = True
    return shape, whole, "loop over the buffer pushing TABLE[b >> 4], TABLE[b & 0xf]"


def _table_bytes(prog, b, l):
    d = core.describe(prog, b, l)
    for y in _nodes(d):
        if y[0] == "lit" and isinstance(y[1], (bytes, bytearray)):
            return bytes(y[1])
        if y[0] == "lit" and isinstance(y[1], str) and len(y[1]) == 16:
            return y[1].encode()
        if y[0] == "array" and len(y[1]) == 16 and all(z[0] == "lit" for z in y[1]):
            return bytes(z[1] for z in y[1])
    return None


def db_lookup(chk, prog):
    """R8: the example database (Vec<User>) identifies users / sessions by full string equality."""
    us = prog.structs.get("humphrey_auth::user::User", {}).get("fields", [])
    ss = prog.structs.get("humphrey_auth::session::Session", {}).get("fields", [])
    ui = {x["name"]: i for i, x in enumerate(us)}
    si = {x["name"]: i for i, x in enumerate(ss)}
    chk.floor("User / Session field tables", len(ui) + len(si), 5)
    if "uid" not in ui or "session" not in ui or "token" not in si:
        return

    def has_upvar(d):
        return desc_contains(d, lambda y: y[0] == "upvar")

    def _param_ty(body, y, want):
        return y[0] == "param" and want in (body.local_ty(y[1]) or "")

    def defaulted(d):
        # a stand-in value for a user without a session (`.unwrap_or_default()`, `.map_or("", ..)`, `unwrap_or("")`): the empty (or any fixed)
        # token would then identify every user who is not logged in
        return desc_contains(d, lambda y: (y[0] == "call" and core.re.search(r"::(unwrap_or|unwrap_or_default|unwrap_or_else|map_or|map_or_else|or|or_else)$|Default>?::default$", y[1]) is not None) or
                             (y[0] == "multi" and any(isinstance(a, tuple) and a[0] == "lit" for a in y[1])))

    def stored_token(body, d):
        # <entry>.session.<..>.token, or <a Session reached from the entry>.token inside a nested closure / helper
        return not has_upvar(d) and not defaulted(d) and desc_contains(d, lambda y: y[0] == "field" and y[2] == si["token"] and (
            desc_contains(y[1], lambda z: z[0] == "field" and z[2] == ui["session"]) or _param_ty(body, y[1], "session::Session")))

    def stored_uid(body, d):
        return not has_upvar(d) and desc_contains(d, lambda y: y[0] == "field" and y[2] == ui["uid"] and _param_ty(body, y[1], "user::User"))

    def presented(body, d):
        # the value the caller presented: captured by the predicate closure (or a helper's own parameter), never a stored field
        return (has_upvar(d) or desc_contains(d, lambda y: y[0] == "param")) and not stored_token(body, d) and not stored_uid(body, d)

    base = "<std::vec::Vec<humphrey_auth::user::User> as humphrey_auth::database::AuthDatabase>::"
    n = 0
    for m, stored, pres, what in (("get_user_by_token", stored_token, presented, "token"), ("get_session_by_token", stored_token, presented, "token"),
                                  ("get_user_by_uid", stored_uid, presented, "uid"), ("update_user", stored_uid, presented, "uid")):
        b = prog.bodies.get(base + m)
        if not b:
            continue
        finds = b.calls_to(r"Iterator>::find$|Iterator::find$|Iterator>::position$|Iterator::position$")
        for blk, t in finds:
            d = describe(prog, b, t["args"][-1])
            cls = [y[1] for y in _nodes(d) if y[0] == "closure" and y[1] in prog.bodies]
            for c in cls:
                n += 1
                cb = prog.bodies[c]
                ok, why = implies_equality(prog, cb, 0, stored, pres)
                chk.ob("R8.db_lookup", base + m, f"{m}: an entry matches only if its stored {what} == the presented {what} (whole-string equality)", ok, why,
                       where=f"{cb.file}:{cb.line}")
        # `find_map(|user| match &user.session { Some(s) if s.token == token => Some(..), _ => None })`: the closure answers Some only
        # under whole-string equality of stored and presented value
        fmaps = b.calls_to(r"Iterator>::find_map$|Iterator::find_map$")
        for blk, t in fmaps:
            d = describe(prog, b, t["args"][-1])
            for c in [y[1] for y in _nodes(d) if y[0] == "closure" and y[1] in prog.bodies]:
                cb = prog.bodies[c]
                somes = [bi_ for bi_, blk_ in enumerate(cb.blocks) for st_ in blk_["stmts"]
                         if st_.get("rv") and st_["rv"].get("k") == "agg" and st_["rv"].get("variant") == "Some" and "Option" in st_["rv"].get("adt", "")]
                for sb_ in somes:
                    n += 1
                    eqs = [(a, r) for (a, op, r) in panics.cmp_facts(prog, cb, sb_) if op == "=="]
                    ok = any((stored(cb, a) and pres(cb, r)) or (stored(cb, r) and pres(cb, a)) for a, r in eqs)
                    chk.ob("R8.db_lookup", base + m, f"{m}: an entry matches only if its stored {what} == the presented {what} (whole-string equality)", ok,
                           f"the entry is reported as found under {[(panics.short_desc(a), panics.short_desc(r)) for a, r in eqs]}", where=cb.where(sb_))
                if not somes:
                    n += 1
                    chk.ob("R8.db_lookup", base + m, f"{m}: an entry matches only if its stored {what} == the presented {what} (whole-string equality)", False,
                           "the find_map closure's Some results are not built in the closure", where=f"{cb.file}:{cb.line}")
        finds = finds + fmaps
        # loop form: `for user in self.iter() { if <test> { return <found> } }`: every way out of the loop body other than
        # running out of entries is a match, and must be taken only under whole-string equality of stored and presented value
        if not finds:
            for nb, t in b.calls_to(r"Iterator>?::next$|Iterator::next$"):
                recv = describe(prog, b, t["args"][0])
                if not desc_contains(recv, lambda y: y[0] == "param" and y[1] == 1):
                    continue
                cyc = {x for x in b.reachable(b.succs(nb)) if nb in b.reachable([x])} | {nb}
                none_t = [tgt for (s_, tgt) in some_edge_of(prog, b, nb, "None")]
                exits = sorted(set(v for u in cyc for v in b.succs(u) if v not in cyc and v not in none_t and b.term(v)["k"] != "unreachable"))
                for ex in exits:
                    n += 1
                    eqs = [(a, r) for (a, op, r) in panics.cmp_facts(prog, b, ex) if op == "=="]
                    ok = any((stored(b, a) and pres(b, r)) or (stored(b, r) and pres(b, a)) for a, r in eqs)
                    chk.ob("R8.db_lookup", base + m, f"{m}: an entry matches only if its stored {what} == the presented {what} (whole-string equality)", ok,
                           f"the loop is left as 'found' under {[(panics.short_desc(a), panics.short_desc(r)) for a, r in eqs]}", where=b.where(ex))
    chk.floor("Vec<User> lookup predicates", n, 3)
    rb = prog.bodies.get(base + "remove_user")
    if rb:
        for blk, t in rb.calls_to(r"Vec::<T, A>::retain$"):
            d = describe(prog, rb, t["args"][-1])
            for c in [y[1] for y in _nodes(d) if y[0] == "closure" and y[1] in prog.bodies]:
                cb = prog.bodies[c]
                calls = [tt["callee"] for _, tt in cb.calls()]
                ne = [x for x in calls if core.re.search(r"PartialEq(<[^>]*>)?(>)?::ne$", x)]
                others = [x for x in calls if not core.re.search(r"PartialEq(<[^>]*>)?(>)?::ne$|AsRef::as_ref$|Deref::deref$", x)]
                chk.ob("R8.db_lookup", base + "remove_user", "remove_user keeps exactly the entries whose uid != the given uid", len(ne) == 1 and not others,
                       f"retain predicate calls {[core.short(x) for x in calls]}", where=f"{cb.file}:{cb.line}")


def lifetime_fields(chk, prog):
    """R7.lifetime_field: AuthConfig has two lifetimes; the one a builder method stores and the one an operation reads must be the one it is
    named after: `with_default_lifetime` -> `default_lifetime` -> create_session, `with_default_refresh_lifetime` -> `default_refresh_lifetime`
    -> refresh_session.  A refreshed token otherwise lives for the login lifetime (or the reverse)."""
    cfg = prog.structs.get("humphrey_auth::config::AuthConfig", {}).get("fields", [])
    idx = {x["name"]: i for i, x in enumerate(cfg)}
    chk.floor("AuthConfig lifetime fields", sum(1 for k in ("default_lifetime", "default_refresh_lifetime") if k in idx), 2)
    ap = prog.structs.get("humphrey_auth::AuthProvider", {}).get("fields", [])
    ci = next((i for i, x in enumerate(ap) if x["ty"].endswith("config::AuthConfig")), None)
    n = 0
    for setter, field in (("with_default_lifetime", "default_lifetime"), ("with_default_refresh_lifetime", "default_refresh_lifetime")):
        b = prog.bodies.get("humphrey_auth::config::AuthConfig::" + setter)
        if not b or field not in idx:
            continue
        written = []
        for bi, blk in enumerate(b.blocks):
            for st in blk["stmts"]:
                if "pl" in st and "rv" in st:
                    fs = [e[1] for e in st["pl"]["p"] if e[0] == "f"]
                    if fs and "u64" in str(st["pl"]["p"][-1]):
                        d = describe(prog, b, st["rv"]["o"]) if st["rv"]["k"] == "use" else core.describe_rv(prog, b, st["rv"])
                        written.append((fs[-1], d))
                    rv = st["rv"]
                    if rv.get("k") == "agg" and rv.get("adt", "").endswith("config::AuthConfig"):
                        for fname, op in zip(rv.get("fields", []), rv["ops"]):
                            d = describe(prog, b, op)
                            if desc_contains(d, lambda y: y[0] == "param" and y[2] == "lifetime"):
                                written.append((idx.get(fname), d))
        n += 1
        ok = bool(written) and all(f == idx[field] for f, d in written if desc_contains(d, lambda y: y[0] == "param" and y[2] == "lifetime")) and \
            any(f == idx[field] and desc_contains(d, lambda y: y[0] == "param" and y[2] == "lifetime") for f, d in written)
        chk.ob("R7.lifetime_field", b.path, f"{setter} stores its argument in AuthConfig.{field}", ok, f"fields written: {[(f, panics.short_desc(d)) for f, d in written]}")
    for meth, rx, ai, field in (("create_session", r"Session::create_with_lifetime$", 0, "default_lifetime"), ("refresh_session", r"session::Session::refresh$", 1, "default_refresh_lifetime"),
                                ("create_session", r"AuthProvider::<T>::create_session_with_lifetime$", 2, "default_lifetime")):
        b = prog.bodies.get(AP + meth)
        if not b or field not in idx or ci is None:
            continue
        for blk, t in b.calls_to(rx):
            n += 1
            d = panics._strip(describe(prog, b, t["args"][ai]))
            ok = isinstance(d, tuple) and d[0] == "field" and d[2] == idx[field] and isinstance(d[1], tuple) and d[1][0] == "field" and d[1][2] == ci and \
                isinstance(d[1][1], tuple) and d[1][1][0] == "param"
            chk.ob("R7.lifetime_field", b.path, f"{meth}: the lifetime is self.config.{field}", ok,
                   f"lifetime = {panics.short_desc(d)}: the token then expires after the other configured lifetime", where=b.where(blk))
    chk.floor("lifetime field writers / readers", n, 4)


LOOKUP_UID = r"get_user_by_uid$"
# receivers that hand the looked-up user to a closure only when the lookup found one
SOME_ONLY = r"Option::<T>::(map|map_or|map_or_else|is_some_and|and_then|filter|is_none_or)$"
# calls that may sit between the lookup and the user without supplying a user of their own
CARRY = r"get_user_by_uid$|Option::<T>::(as_ref|as_mut|unwrap|expect|take|cloned|copied|as_deref|ok_or|ok_or_else)$|Result::<T, E>::(unwrap|expect|ok)$|::clone$|::deref$|::borrow$|::as_ref$|Try>::branch$|::from_residual$"


def _only_the_lookup(d):
    """The description mentions the uid lookup and every call in it merely carries that result (no stand-in user is supplied)."""
    calls = core.desc_calls(d)
    if not any(core.re.search(LOOKUP_UID, c[1]) for c in calls):
        return False, "the user does not come from get_user_by_uid"
    odd = [c[1] for c in calls if not core.re.search(CARRY, c[1])]
    if odd:
        return False, f"the user may come from {core.short(odd[0])} instead of the lookup"
    if desc_contains(d, lambda y: y[0] in ("agg", "struct") or (y[0] == "multi" and any(not desc_contains(a, lambda z: z[0] == "call" and core.re.search(LOOKUP_UID, z[1]) is not None) for a in y[1]))):
        return False, "the user may be a stand-in built here instead of the looked-up one"
    return True, "the looked-up user"


def refresh_persisted(chk, prog):
    """R7.refresh_persisted: a successful refresh is written back: from the point where the session's expiry is renewed, every path to
    `Ok(())` passes AuthDatabase::update_user (a write-back skipped under a comparison that ignores the expiry leaves the old expiry in force
    while the caller was told the session was extended)."""
    fn = AP + "refresh_session"
    b = prog.bodies.get(fn)
    chk.floor("AuthProvider::refresh_session", 1 if b else 0, 1)
    if not b:
        return
    ss = prog.structs.get("humphrey_auth::session::Session", {}).get("fields", [])
    ei = next((i for i, x in enumerate(ss) if x["name"] == "expiry"), None)
    renew = [blk for blk, t in b.calls_to(r"session::Session::refresh$")]
    for bi, blk in enumerate(b.blocks):
        for s_ in blk["stmts"]:
            if "pl" in s_ and s_["pl"]["p"] and [e[1] for e in s_["pl"]["p"] if e[0] == "f"][-1:] == [ei] and "Session" in str(s_["pl"]["p"]):
                renew.append(bi)
    writes = [blk for blk, t in b.calls_to(r"AuthDatabase::update_user$")]
    chk.floor("expiry renewal sites in refresh_session", len(renew), 1)
    oks = core.ok_return_blocks(b, "Ok")
    for rb in renew:
        w = core.must_pass(b, [rb], oks, through_nodes=writes)
        chk.ob("R7.refresh_persisted", fn, "after the expiry was renewed every Ok return passes update_user", w is None and bool(writes),
               "refresh_session can return Ok without storing the renewed session: the token still expires at its old time", where=b.where(rb), path=w)


def unknown_uid(chk, prog):
    """R6.unknown_uid: AuthProvider::verify checks the password against the user that get_user_by_uid(uid) found, and against nothing
    when it found none: the receiver of every User::verify call is the Some payload of that lookup (directly, or as the parameter of a
    closure an Option combinator runs only for Some), and every value verify() can return is that call's result or `false`."""
    fn = AP + "verify"
    b = prog.bodies.get(fn)
    chk.floor("AuthProvider::verify", 1 if b else 0, 1)
    if not b:
        return
    n = 0
    from . import shared
    for bb in shared.family(prog, fn):
        for blk, t in bb.calls_to(r"user::User::verify$"):
            n += 1
            d = panics._strip(describe(prog, bb, t["args"][0]))
            ok, why = False, f"receiver {panics.short_desc(d)}"
            if d[0] == "param" and bb is not b:
                site = core.closure_site(prog, bb)
                if site:
                    host, _ = site
                    for hb, ht in host.calls():
                        if not any(desc_contains(describe(prog, host, a), lambda y: y[0] == "closure" and y[1] == bb.path) for a in ht["args"][1:]):
                            continue
                        if not core.call_matches(ht, SOME_ONLY):
                            why = f"the closure is run by {core.short(core.callee_names(ht)[0])}"
                            continue
                        ok, why = _only_the_lookup(describe(prog, host, ht["args"][0]))
                        break
            elif d[0] != "param":
                ok, why = _only_the_lookup(d)
            chk.ob("R6.unknown_uid", bb.path, "the password is checked against the user that get_user_by_uid(uid) returned", ok, why, where=bb.where(blk))
    chk.floor("User::verify call sites in AuthProvider::verify", n, 1)
    d0 = describe(prog, b, 0)

    def falls_to_false(d):
        if d == ("lit", False):
            return True
        if d[0] == "multi":
            return bool(d[1]) and all(falls_to_false(a) for a in d[1])
        if d[0] != "call":
            return False
        if core.re.search(r"user::User::verify$", d[1]):
            return True
        a = d[2]
        if core.re.search(r"Option::<T>::unwrap_or$", d[1]):
            return a[1] == ("lit", False) and falls_to_false(a[0])
        if core.re.search(r"Option::<T>::(map|and_then|filter)$", d[1]) or core.re.search(r"Option::<T>::is_some_and$", d[1]):
            return a[1][0] == "closure" and closure_calls(prog, a[1], r"user::User::verify$")
        if core.re.search(r"Option::<T>::map_or$", d[1]):
            return a[1] == ("lit", False) and a[2][0] == "closure" and closure_calls(prog, a[2], r"user::User::verify$")
        if core.re.search(r"Option::<T>::unwrap_or_default$", d[1]):
            return falls_to_false(a[0])
        return False
    chk.ob("R6.unknown_uid", fn, "verify() returns User::verify's answer for the looked-up user and false otherwise", falls_to_false(d0), f"verify() returns {panics.short_desc(d0)}")

"""C15 — config files load into exactly what they describe, or are rejected with a line (structural clauses)."""
from .. import core, tables, panics
from ..core import describe, describe_r, desc_contains, hir_walk, hir_strip, hir_value
from . import c03

CFG = "humphrey_server::config::config::"
TREE = "humphrey_server::config::tree::"


def str_table(prog, fn, ty_hint):
    """{literal: variant name} of the match on a string in fn whose arms yield variants of ty_hint."""
    out, rest = {}, []
    for m in tables.fn_tables(prog, fn):
        if "str" not in m.get("scrut_ty", ""):
            continue
        for keys, guard, val, line, arm in core.match_table(m):
            v = val
            inner = tables.unwrap(v, "Ok")
            if inner is not None:
                v = inner
            if v[0] == "path" and v[1] and ty_hint in v[1]:
                for k in keys:
                    if k[0] == "lit":
                        out[k[1]] = v[1].rsplit("::", 1)[-1]
            elif keys == [("rest",)]:
                rest.append(val)
        if out:
            return out, rest, m
    return out, rest, None


STR_EQ = r"PartialEq.*::eq$"


def str_table_mir(prog, fn, ty_hint):
    """The same table read off the MIR: a `match` on a string and an `if s == "a" {..} else if s == "b" {..}` chain both lower to
    `<str as PartialEq>::eq(s, "lit")` tests; the variant built under the true edge of exactly one of them is that literal's value, and the
    value built (or error returned) under the false edges of all of them is the catch-all.  Helpers split off the function are inlined."""
    b = prog.bodies.get(fn)
    out, rest = {}, []
    if b is None:
        return out, rest, None

    def eq_lit(d):
        if isinstance(d, tuple) and d and d[0] == "call" and core.re.search(STR_EQ, d[1]) and len(d[2]) == 2:
            lits = [a[1] for a in d[2] if isinstance(a, tuple) and a[0] == "lit" and isinstance(a[1], str)]
            if len(lits) == 1:
                return lits[0]
        return None
    keys = set()
    sites = []
    for i, blk in enumerate(b.blocks):
        for s in blk["stmts"]:
            rv = s.get("rv")
            if rv and rv.get("k") == "agg" and rv.get("agg") == "adt" and str(rv.get("adt", "")).endswith(ty_hint):
                gs = core.guards_dominating(prog, b, i)
                trues = [eq_lit(d) for s_, lab, d, info in gs if lab == "true" and eq_lit(d) is not None]
                falses = [eq_lit(d) for s_, lab, d, info in gs if lab == "false" and eq_lit(d) is not None]
                sites.append((rv["variant"], trues, falses))
                keys.update(trues)
    for variant, trues, falses in sites:
        if len(trues) == 1:
            if trues[0] in out and out[trues[0]] != variant:
                out[trues[0]] = "<ambiguous>"
            else:
                out[trues[0]] = variant
        elif not trues and keys and set(falses) >= keys:
            rest.append(("path", variant))
    # the catch-all: an Err built where every literal of the table compared unequal
    for i, blk in enumerate(b.blocks):
        for s in blk["stmts"]:
            rv = s.get("rv")
            if rv and rv.get("k") == "agg" and rv.get("agg") == "adt" and rv.get("adt", "").endswith("result::Result") and rv.get("variant") == "Err":
                gs = core.guards_dominating(prog, b, i)
                falses = set(eq_lit(d) for s_, lab, d, info in gs if lab == "false" and eq_lit(d) is not None)
                trues = [eq_lit(d) for s_, lab, d, info in gs if lab == "true" and eq_lit(d) is not None and eq_lit(d) in keys]
                if keys and falses >= keys and not trues:
                    rest.append(("call", "Err", [describe(prog, b, rv["ops"][0])]))
    return out, rest, b


def enum_tables(chk, prog):
    hir_table = str_table

    def both(prog_, fn_, ty_):
        mp_, rest_, m_ = hir_table(prog_, fn_, ty_)
        if not mp_:
            mp_, rest_, m_ = str_table_mir(prog_, fn_, ty_)
        return mp_, rest_, m_
    str_table_ = both
    fn = CFG + "Config::from_tree"
    mp, rest, m = str_table_(prog, fn, "BlacklistMode")
    chk.ob("R1.tables", fn, "blacklist mode table == {block: Block, forbidden: Forbidden}", mp == {"block": "Block", "forbidden": "Forbidden"}, f"{mp}")
    chk.ob("R1.tables", fn, "any other blacklist mode is rejected", bool(rest) and all("Err" in str(r) for r in rest), f"{rest}")
    fn2 = CFG + "parse_route"
    mp, rest, m = str_table_(prog, fn2, "LoadBalancerMode")
    chk.ob("R1.tables", fn2, "load balancer mode table == {round-robin: RoundRobin, random: Random}", mp == {"round-robin": "RoundRobin", "random": "Random"}, f"{mp}")
    chk.ob("R1.tables", fn2, "any other load balancer mode is rejected", bool(rest) and all("Err" in str(r) for r in rest), f"{rest}")
    fs = prog.impl_fn(r"^<humphrey_server::server::logger::LogLevel as std::str::FromStr>$", "from_str")
    chk.floor("LogLevel::from_str", len(fs), 1)
    if fs:
        mp, rest, m = str_table_(prog, fs[0], "LogLevel")
        chk.ob("R1.tables", fs[0], "log level names == {error, warn, info, debug}", mp == {"error": "Error", "warn": "Warn", "info": "Info", "debug": "Debug"}, f"{mp}")
        chk.ob("R1.tables", fs[0], "any other level is rejected", bool(rest) and all("Err" in str(r) for r in rest), f"{rest}")
    # size units
    fn3 = TREE + "parse_size"
    h = prog.hir.get(fn3)
    chk.floor("parse_size", 1 if h else 0, 1)
    if h:
        # unit letter -> multiplier, from the MIR: the second operand of checked_mul (a literal in each arm, or a local assigned one
        # constant per arm) together with the `match` edge on the suffix character under which it is chosen
        units = {}
        pb = prog.bodies.get(fn3)

        def char_label(blk):
            for s_, lab, dd, info in core.guards_dominating(prog, pb, blk):
                t_ = pb.term(s_)
                if info and info.get("kind") == "int" and (t_.get("discr_ty") == "char") and isinstance(lab, int):
                    return chr(lab)
            return None

        def exact(d_):
            r_ = panics._range_of(prog, pb, d_)
            return r_[0] if r_ and r_[0] == r_[1] else None
        if pb:
            for blk, t in pb.calls_to(r"num::<impl i64>::checked_mul$"):
                op = t["args"][1]
                l = core.op_local(op)
                srcs = []
                seen = set()
                while l is not None and l not in seen:
                    seen.add(l)
                    ds = pb.defs().get(l, [])
                    if len(ds) == 1 and ds[0][2] == "assign" and ds[0][3]["rv"]["k"] in ("use", "cast") and core.op_local(ds[0][3]["rv"]["o"]) is not None:
                        l = core.op_local(ds[0][3]["rv"]["o"])
                        continue
                    for d_ in ds:
                        if d_[2] == "assign":
                            v = exact(core.describe_rv(prog, pb, d_[3]["rv"]) if d_[3]["rv"]["k"] != "use" else core.describe(prog, pb, d_[3]["rv"]["o"]))
                            srcs.append((d_[0], v))
                    break
                if l is None:
                    srcs.append((blk, exact(core.describe(prog, pb, op))))
                for sb, v in srcs:
                    ch = char_label(sb) or char_label(blk)
                    if ch is not None:
                        units[ch] = v
        chk.ob("R1.units", fn3, "size units K/M/G multiply by 1024, 1024^2, 1024^3", units == {"K": 1024, "M": 1024 ** 2, "G": 1024 ** 3}, f"{units}")
        up = any(n.get("e") == "MethodCall" and n.get("name") in ("to_ascii_uppercase", "to_uppercase") for n in hir_walk(h["body"]))
        chk.ob("R1.units", fn3, "the unit letter is matched case-insensitively (upper-cased)", up, "")


def _const_product(e):
    """Product of the integer literals multiplied with the parsed number in an arm body."""
    prod = 1
    found = False
    for n in hir_walk(e):
        if n.get("e") == "Lit" and n.get("t") == "int" and isinstance(n.get("v"), int):
            prod *= n["v"]
            found = True
    return prod if found else None


def route_kinds(chk, prog):
    fn = CFG + "parse_route"
    b = prog.bodies.get(fn)
    chk.floor("parse_route", 1 if b else 0, 1)
    if not b:
        return
    # order of the contains_key tests (dominance order) and the route type built under each
    tests = []
    for blk, t in b.calls_to(r"HashMap::<K, V, S, A>::contains_key$"):
        k = core.describe(prog, b, t["args"][1])
        if k[0] == "lit":
            tests.append((blk, k[1]))
    order = sorted(tests, key=lambda x: sum(1 for y in tests if b.dominates(y[0], x[0]) and y[0] != x[0]))
    keys = [k for _, k in order]
    chk.ob("R1.route_kinds", fn, "route kind precedence is file, directory, proxy, redirect, websocket", keys == ["file", "directory", "proxy", "redirect", "websocket"], f"{keys}")
    ri = [x["name"] for x in prog.structs[CFG + "RouteConfig"]["fields"]]
    got = {}
    for blk_i, blk in enumerate(b.blocks):
        for s in blk["stmts"]:
            rv = s.get("rv")
            if rv and rv.get("k") == "agg" and rv.get("adt", "").endswith("RouteConfig"):
                f0 = dict(zip(rv["fields"], [core.describe(prog, b, o) for o in rv["ops"]]))
                # one construction site fed by a per-kind tuple `(route_type, path, load_balancer)` chosen in the if-chain: one record per
                # alternative of that tuple, judged at the place the alternative is chosen
                records = [(f0, blk_i)]
                rtd = f0["route_type"]
                if rtd[0] == "field" and isinstance(rtd[1], tuple) and rtd[1][0] == "multi" and len(rtd[1]) > 4 and all(isinstance(a, tuple) and a[0] == "tuple" for a in rtd[1][1]):
                    M = rtd[1]

                    def proj(d, alt):
                        if isinstance(d, tuple):
                            if d and d[0] == "field" and d[1] == M and isinstance(d[2], int) and d[2] < len(alt[1]):
                                return alt[1][d[2]]
                            return tuple(proj(x, alt) for x in d)
                        if isinstance(d, list):
                            return [proj(x, alt) for x in d]
                        return d
                    records = [({k_: proj(v_, alt) for k_, v_ in f0.items()}, db) for alt, db in zip(M[1], M[4])]
                for f, at_blk in records:
                    rt = f["route_type"][2] if f["route_type"][0] == "variant" else None
                    facts = panics.cmp_facts(prog, b, at_blk)
                    truth = {}
                    for (a, op, r) in facts:
                        if isinstance(a, tuple) and a and a[0] == "pred" and a[1] == "contains_key" and op == "==" and len(a[2]) > 1 and a[2][1][0] == "lit":
                            truth[a[2][1][1]] = r[1]
                    under = [k for k, v in truth.items() if v]
                    got[rt] = (under, f)
    want = {"File": "file", "Directory": "directory", "Proxy": "proxy", "Redirect": "redirect"}
    for rt, key in want.items():
        under, f = got.get(rt, ([], {}))
        chk.ob("R1.route_kinds", fn, f"RouteType::{rt} is built exactly when the `{key}` key is present (and no earlier kind)", under == [key], f"built under keys {under}")
        if f:
            if rt == "Proxy":
                chk.ob("R1.route_kinds", fn, "proxy route gets a load balancer over the configured targets", f["load_balancer"][0] == "variant" and f["load_balancer"][2] == "Some" and
                       desc_contains(f["load_balancer"], lambda y: y[0] == "call" and y[1].endswith("get_compulsory") and ("lit", "proxy") in y[2]), "")
            else:
                chk.ob("R1.route_kinds", fn, f"{rt} route path <- value of `{key}`", desc_contains(f["path"], lambda y: y[0] == "call" and y[1].endswith("get_compulsory") and ("lit", key) in y[2]), f"{panics.short_desc(f['path'])}")
            chk.ob("R1.route_kinds", fn, f"{rt} route pattern <- the trimmed list element", desc_contains(f["matches"], lambda y: y[0] == "call" and y[1].endswith("::next")), f"{panics.short_desc(f['matches'])}")
    ws_under, wf = got.get("ExclusiveWebSocket", ([], {}))
    chk.ob("R1.route_kinds", fn, "a route with only `websocket` is an ExclusiveWebSocket route", ws_under == ["websocket"], f"{ws_under}")
    # multi-pattern expansion in order, trimmed
    sp = [t for blk, t in b.calls_to(r"<impl str>::split$")]
    pat = [t for t in sp if core.describe(prog, b, t["args"][1]) == ("lit", 44) and desc_contains(core.describe(prog, b, t["args"][0]), lambda y: y[0] == "param" and y[2] == "wild")]
    chk.ob("R3.order", fn, "route patterns are the comma-separated list in order", len(pat) == 1 and not b.calls_to(r"::(rev|sort|sort_unstable|dedup)$"), "")
    trims = [c for c in prog.closures_of(fn) if c.calls_to(r"<impl str>::trim$")]
    # (`.map(str::trim)`: the function item itself as the adaptor's argument)
    trims += [t for blk, t in b.calls_to(r"Iterator::map$") if len(t["args"]) > 1 and core.describe(prog, b, t["args"][1])[0] == "fn" and core.describe(prog, b, t["args"][1])[1].endswith("<impl str>::trim")]
    # (or trimmed where it is used: every `matches` value derives from trim(..))
    chk.ob("R3.order", fn, "each pattern is trimmed", bool(trims) or bool(b.calls_to(r"<impl str>::trim$")), "")
    pushes = [t for blk, t in b.calls_to(r"Vec::<T, A>::(push|insert)$")]
    chk.ob("R3.order", fn, "routes are appended in that order", all(t["callee"].endswith("::push") for t in pushes) and len(pushes) >= 1, f"{[t['callee'] for t in pushes]}")


def error_lines(chk, prog):
    n = 0
    for fn in (TREE + "parse_conf", TREE + "parse_section", TREE + "include", TREE + "quiet_assert"):
        b = prog.bodies.get(fn)
        if not b:
            if not fn.endswith("::quiet_assert"):      # (the assertion helper may have been folded into its callers)
                chk.floor(fn.split("::")[-1], 0, 1)
            continue
        for blk, t in b.calls_to(r"error::ConfigError::new$"):
            n += 1
            msg = core.describe(prog, b, t["args"][0])
            line = core.describe(prog, b, t["args"][2])
            file_ = core.describe(prog, b, t["args"][1])
            from_iter = desc_contains(line, lambda y: y[0] == "call" and y[1].endswith("TracebackIterator::<T>::current_line"))
            from_param = line[0] == "param" and line[2] == "line"
            is_zero = line == ("lit", 0)
            label = msg[1] if msg[0] == "lit" else panics.short_desc(msg)
            if is_zero:
                ok = isinstance(label, str) and "server" in label and fn.endswith("parse_conf")
                chk.ob("R2.error_line", fn, f"error `{label}`: line 0 only for the missing `server` section", ok, "a syntax error is reported with line 0", where=b.where(blk))
            else:
                chk.ob("R2.error_line", fn, f"error `{label}`: line <- current_line() of the line iterator", from_iter or from_param,
                       f"the error's line is {panics.short_desc(line)}", where=b.where(blk))
            okf = desc_contains(file_, lambda y: y[0] == "param" and y[2] in ("filename", "containing_file", "path"))
            chk.ob("R2.error_line", fn, f"error `{label}`: names the file being parsed", okf, f"file is {panics.short_desc(file_)}", where=b.where(blk))
    chk.floor("ConfigError construction sites in the tree parser", n, 4)
    tb = prog.bodies.get("<humphrey_server::config::traceback::TracebackIterator<T> as std::iter::Iterator>::next")
    chk.floor("TracebackIterator::next", 1 if tb else 0, 1)
    if tb:
        inc = [blk for blk in tb.blocks if blk["term"] and blk["term"]["k"] == "assert" and blk["term"]["akind"] == "overflow:Add"]
        nx = tb.calls_to(r"Iterator::next$")
        chk.ob("R2.error_line", tb.path, "current_line is incremented once per line read", len(inc) == 1 and len(nx) == 1, f"{len(inc)} increments, {len(nx)} reads")


def line_source(chk, prog):
    """R2: the lines that are counted are the lines of the file as read: the text handed to `lines()` is the parameter / the buffer
    filled by read_to_string, changed at most by appending (the closing `}` of an included file) — never trimmed, filtered or rebuilt,
    which would shift every reported line number."""
    n = 0
    for pth, bb in sorted(prog.bodies.items()):
        if not pth.startswith("humphrey_server::config::tree::"):
            continue
        for blk, t in bb.calls_to(r"<impl str>::lines$"):
            n += 1
            d = core.describe(prog, bb, t["args"][0])
            calls = sorted(set(c[1] for c in core.desc_calls(d)))
            odd = [c for c in calls if not core.re.search(r"(String::new|String::with_capacity|(::|>::)(deref|as_str|as_ref|borrow|clone|to_owned|to_string|into|from))$", c)]
            src_ok = not odd and (calls or desc_contains(d, lambda y: y[0] == "param"))
            chk.ob("R2.line_source", pth, "lines() is taken over the text as read (parameter or read buffer, reference conversions only)", bool(src_ok),
                   f"lines() receiver = {panics.short_desc(d)}; transformations: {[core.short(c) for c in odd]}: reported line numbers no longer refer to the file's own lines",
                   where=bb.where(blk))
            # in-place edits of the buffer: append only
            root = core.op_local(t["args"][0])
            seen = set()
            while root is not None and root not in seen:
                seen.add(root)
                ds = bb.defs().get(root, [])
                if len(ds) == 1 and ds[0][2] == "assign" and ds[0][3]["rv"]["k"] in ("ref", "use", "cast"):
                    rv = ds[0][3]["rv"]
                    root = rv["pl"]["l"] if rv["k"] == "ref" else core.op_local(rv["o"])
                elif len(ds) == 1 and ds[0][2] == "call" and core.re.search(r"(deref|as_str|as_ref|borrow)$", ds[0][3]["callee"]):
                    root = core.op_local(ds[0][3]["args"][0])
                else:
                    break
            edits = []
            for b2, t2 in bb.calls():
                for a, ty in zip(t2["args"], t2.get("arg_tys") or []):
                    if ty.startswith("&mut std::string::String") and root is not None:
                        r2 = core.op_local(a)
                        s2 = set()
                        while r2 is not None and r2 not in s2:
                            s2.add(r2)
                            ds = bb.defs().get(r2, [])
                            if len(ds) == 1 and ds[0][2] == "assign" and ds[0][3]["rv"]["k"] == "ref":
                                r2 = ds[0][3]["rv"]["pl"]["l"]
                            else:
                                break
                        if r2 == root:
                            edits.append(t2["callee"])
            bad = [e for e in edits if not core.re.search(r"(read_to_string|String::push_str|String::push)$", e)]
            chk.ob("R2.line_source", pth, "the read buffer is only appended to before it is split into lines", not bad, f"in-place edits: {[core.short(e) for e in edits]}", where=bb.where(blk))
    chk.floor("lines() sites in the config tree parser", n, 2)


def ordering(chk, prog):
    """R3: hosts / routes are collected by iterating Vecs in file order, never a HashMap."""
    HM = r"collections::HashMap::<K, V, S(, A)?>::(iter|iter_mut|keys|values|values_mut|into_iter|drain|into_keys|into_values)$|hash_map::.*IntoIterator"
    for fn in (CFG + "Config::from_tree", CFG + "parse_host", TREE + "ConfigNode::get_hosts", TREE + "ConfigNode::get_routes"):
        b = prog.bodies.get(fn)
        chk.floor(fn.split("::")[-1], 1 if b else 0, 1)
        if not b:
            continue
        bad = [t["callee"] for blk, t in b.calls() if core.call_matches(t, HM) or (" ".join(t.get("arg_tys", [])[:1]).lstrip("&").replace("mut ", "").startswith("std::collections::HashMap<") and core.call_matches(t, r"IntoIterator::into_iter$"))]
        chk.ob("R3.order", fn, "no HashMap iteration feeds the host / route lists", not bad, f"iterates a HashMap via {bad}: hosts/routes would come out in hash order")
        muts = []
        for blk, t in b.calls():
            ty0 = (t.get("arg_tys") or [""])[0]
            if ty0.startswith("&mut std::vec::Vec<") and any(x in ty0 for x in ("RouteConfig", "HostConfig", "ConfigNode")):
                muts.append((t.get("callee") or "?").split("::")[-1])
        chk.ob("R3.order", fn, "lists are only appended to", all(m in ("push", "extend", "append", "reserve", "extend_from_slice", "deref_mut", "deref") for m in muts), f"{muts}")
    for fn in (TREE + "ConfigNode::get_hosts", TREE + "ConfigNode::get_routes"):
        b = prog.bodies.get(fn)
        if b:
            its = [core.describe(prog, b, t["args"][0]) for blk, t in b.calls_to(r"IntoIterator::into_iter$|IntoIterator>::into_iter$|slice::<impl \[T\]>::iter$|Vec::<T, A>::iter$")]
            chk.ob("R3.order", fn, "children are visited in stored (file) order",
                   bool(its) and not b.calls_to(r"::(rev|sort|sort_by|sort_by_key|sort_unstable|sort_unstable_by|sort_unstable_by_key|rfold|rfind|next_back|reverse)$"), "")
    # (the line loop may have been moved into a helper that parse_section delegates to: the rule follows the loop)
    cands_ = [prog.bodies[x] for x in [TREE + "parse_section"] + [q for q in (getattr(prog, "new_functions", []) or []) if q.startswith(TREE)] if x in prog.bodies]
    def _node_pushes(bb):
        return [t for blk, t in bb.calls_to(r"Vec::<T, A>::push$") if "ConfigNode" in " ".join((t.get("arg_tys") or [])[:1])]
    loops_ = [bb for bb in cands_ if len(_node_pushes(bb)) >= 2]
    ps = loops_[0] if loops_ else prog.bodies.get(TREE + "parse_section")
    if ps:
        pushes = [t["callee"].split("::")[-1] for blk, t in ps.calls_to(r"Vec::<T, A>::(push|insert|sort|sort_by|sort_by_key|reverse|swap|retain|append|splice|drain|truncate|clear|remove|swap_remove|rotate_left|rotate_right|dedup)$|Extend<.*>>::extend$")
                  if "ConfigNode" in " ".join((t.get("arg_tys") or [])[:1])]
        chk.ob("R3.order", ps.path, "section children are appended in line order", all(p in ("push", "extend") for p in pushes) and len(pushes) >= 2, f"{pushes}")
        # the list that is returned is the one list that was appended to from the first line on (not a second list that absorbs it:
        # `included.append(&mut values); values = included` puts an included file's nodes in front of everything before the directive)
        roots = set()
        for blk_ in ps.blocks:
            for s_ in blk_["stmts"]:
                rv = s_.get("rv")
                if "pl" in s_ and s_["pl"]["l"] == 0 and rv and rv.get("k") == "agg" and rv.get("variant") == "Ok" and rv.get("ops"):
                    l_ = core.op_local(rv["ops"][0])
                    if l_ is not None:
                        roots.add(l_)
        single = True
        detail = []
        for l_ in roots:
            # follow plain moves back to the user local
            seen_ = set()
            while l_ is not None and l_ not in seen_:
                seen_.add(l_)
                ds_ = [d for d in ps.defs().get(l_, []) if not (d[2] == "assign" and d[3]["pl"]["p"])]
                if len(ds_) == 1 and ds_[0][2] == "assign" and ds_[0][3]["rv"]["k"] == "use" and core.op_local(ds_[0][3]["rv"]["o"]) is not None and not ds_[0][3]["rv"]["o"]["pl"]["p"]:
                    l_ = core.op_local(ds_[0][3]["rv"]["o"])
                    continue
                if len(ds_) == 1 and ds_[0][2] == "assign" and ds_[0][3]["rv"]["k"] == "agg" and ds_[0][3]["rv"].get("agg") in ("adt", "tuple"):
                    # the list sits inside the value that is returned (Section(name, values), (values, rest), ...)
                    inner = [core.op_local(o) for o in ds_[0][3]["rv"]["ops"] if core.op_local(o) is not None and "Vec<humphrey_server::config::tree::ConfigNode" in (ps.local_ty(core.op_local(o)) or "")]
                    if len(inner) == 1:
                        l_ = inner[0]
                        continue
                # ... or comes back from the inlined line-loop helper through `?`: Ok(values) -> branch -> Continue payload
                if len(ds_) == 1 and ds_[0][2] == "assign" and ds_[0][3]["rv"]["k"] == "use" and core.op_local(ds_[0][3]["rv"]["o"]) is not None and \
                        [e[0] for e in ds_[0][3]["rv"]["o"]["pl"]["p"]] in (["dc", "f"], ["f"]):
                    l_ = core.op_local(ds_[0][3]["rv"]["o"])
                    continue
                if len(ds_) == 1 and ds_[0][2] == "call" and (ds_[0][3].get("callee") or "").endswith("Try::branch") and ds_[0][3]["args"] and core.op_local(ds_[0][3]["args"][0]) is not None:
                    l_ = core.op_local(ds_[0][3]["args"][0])
                    continue
                oks_ = [d for d in ds_ if d[2] == "assign" and d[3]["rv"]["k"] == "agg" and d[3]["rv"].get("variant") in ("Ok", "Continue") and len(d[3]["rv"].get("ops") or []) == 1]
                errs_ = [d for d in ds_ if d not in oks_ and ((d[2] == "assign" and d[3]["rv"]["k"] == "agg" and d[3]["rv"].get("variant") in ("Err", "Break")) or
                                                               (d[2] == "call" and (d[3].get("callee") or "").endswith("from_residual")))]
                if len(oks_) == 1 and len(oks_) + len(errs_) == len(ds_) and core.op_local(oks_[0][3]["rv"]["ops"][0]) is not None:
                    l_ = core.op_local(oks_[0][3]["rv"]["ops"][0])
                    continue
                if len(ds_) != 1 or ds_[0][2] != "call" or not core.re.search(r"Vec::<T>::(new|with_capacity)$", ds_[0][3].get("callee") or ""):
                    single = False
                    detail.append(f"{ps.local_name(l_) or l_}: {len(ds_)} definition(s)")
                break
        chk.ob("R3.order", ps.path, "the returned list is the single list the section's lines were appended to", single and bool(roots), f"{detail}")


def per_pattern_routes(chk, prog):
    """R3: every pattern of a comma-separated route header gets the section's settings — no field of a RouteConfig is taken out of a
    value that the previous pattern already consumed (`Option::take`, `mem::take`, `pop`, an iterator's `next`)."""
    fn = CFG + "parse_route"
    b = prog.bodies.get(fn)
    chk.floor("parse_route", 1 if b else 0, 1)
    if not b:
        return
    n = 0
    for blk_i, blk_ in enumerate(b.blocks):
        for s_ in blk_["stmts"]:
            rv = s_.get("rv")
            if rv and rv.get("k") == "agg" and str(rv.get("adt", "")).endswith("RouteConfig"):
                n += 1
                for f_, o_ in zip(rv["fields"], rv["ops"]):
                    if f_ == "matches":
                        continue
                    d_ = describe(prog, b, o_)
                    used_up = sorted(set(core.short(c[1]) for c in core.desc_calls(d_) if core.re.search(
                        r"Option::<T>::(take|take_if|replace|get_or_insert\w*)$|mem::(take|replace|swap)$|::(pop|pop_front|pop_back|remove|swap_remove|drain|split_off)$|Iterator>?::next$", c[1])))
                    multi_state = desc_contains(d_, lambda y: y[0] == "multi" and len(y) > 3 and (b.locals[y[3]].get("user") if y[3] < len(b.locals) else False) and
                                                any(isinstance(a, tuple) and a and a[0] == "call" and core.re.search(r"Option::<T>::take$|mem::take$", a[1]) for a in y[1]))
                    chk.ob("R3.per_pattern", fn, f"RouteConfig.{f_} does not depend on the patterns before it", not used_up and not multi_state,
                           f"{f_} is taken out of a value with {used_up}: only the first pattern of `route /a, /b` gets it", where=b.where(blk_i))
    chk.floor("RouteConfig construction sites", n, 1)


def quoted_values(chk, prog):
    ps = prog.bodies.get(TREE + "parse_section")
    chk.floor("parse_section", 1 if ps else 0, 1)
    if not ps:
        return
    wm = ps.calls_to(r"krauss::wildcard_match$")
    chk.floor("quoted-value tests", len(wm), 2)
    for blk, t in wm:
        a0, a1 = core.describe(prog, ps, t["args"][0]), core.describe(prog, ps, t["args"][1])
        ok = a0 == ("lit", '"*"') and desc_contains(a1, lambda y: y[0] == "call" and y[1].endswith("<impl str>::trim"))
        chk.ob("R4.quoted", ps.path, "wildcard_match(pattern = \"\\\"*\\\"\", text = the value)", ok, f"({panics.short_desc(a0)}, {panics.short_desc(a1)})", where=ps.where(blk))
    # the node kinds by value shape
    kinds = {}
    for blk_i, blk in enumerate(ps.blocks):
        for s in blk["stmts"]:
            rv = s.get("rv")
            if rv and rv.get("k") == "agg" and rv.get("adt", "").endswith("ConfigNode") and rv["variant"] in ("String", "Number", "Boolean"):
                conds = []
                for cond, truth in panics.bool_facts(prog, ps, blk_i):
                    if cond[0] == "call" and truth:
                        if cond[1].endswith("wildcard_match"):
                            conds.append("quoted")
                        if cond[1].endswith("::is_ok") and desc_contains(cond, lambda y: y[0] == "call" and y[1].endswith("<impl str>::parse")):
                            pc = [c for c in core.desc_calls(cond) if c[1].endswith("<impl str>::parse")]
                            tt = ps.term(pc[0][3])
                            conds.append("parse::<" + ",".join(tt.get("gargs") or []) + ">")
                    if cond[0] == "edge" and cond[1] == "Ok" and desc_contains(cond[2], lambda y: y[0] == "call" and y[1].endswith("parse_size")):
                        conds.append("parse_size")
                kinds.setdefault(rv["variant"], []).append(sorted(set(conds)))
    chk.ob("R4.kinds", ps.path, "a quoted value becomes a String node", kinds.get("String") == [["quoted"]], f"{kinds.get('String')}")
    chk.ob("R4.kinds", ps.path, "an i64 / size value becomes a Number node", sorted(kinds.get("Number", [])) == [["parse::<i64>"], ["parse_size"]], f"{kinds.get('Number')}")
    chk.ob("R4.kinds", ps.path, "true/false becomes a Boolean node", kinds.get("Boolean") == [["parse::<bool>"]], f"{kinds.get('Boolean')}")


def defaults(chk, prog):
    """R5: every optional key has one constant default."""
    seen = {}
    n = 0
    for fn in (CFG + "Config::from_tree", CFG + "parse_route", CFG + "parse_host"):
        b = prog.bodies.get(fn)
        if not b:
            continue
        for blk, t in b.calls_to(r"ExtendedMap<.*>>::(get_optional|get_optional_parsed)$|ExtendedMap::(get_optional|get_optional_parsed)$"):
            n += 1
            key = core.describe(prog, b, t["args"][1])
            dflt = core.describe(prog, b, t["args"][2])
            k = key[1] if key[0] == "lit" else panics.short_desc(key)
            const = dflt[0] == "lit" or (dflt[0] == "variant" and not dflt[3]) or (dflt[0] == "call" and all(a[0] == "lit" for a in dflt[2]))
            chk.ob("R5.defaults", fn, f"`{k}` has a constant default", const, f"default is {panics.short_desc(dflt)}", where=b.where(blk))
            dv = panics.short_desc(dflt)
            if k in seen and seen[k] != dv:
                chk.ob("R5.defaults", fn, f"`{k}` is read with one default everywhere", False, f"defaults {seen[k]} and {dv}")
            seen[k] = dv
    # every key is read (and validated) on every successful load: no validation is conditional on another key
    ft = prog.bodies.get(CFG + "Config::from_tree")
    if ft:
        oks = core.ok_return_blocks(ft, "Ok")
        for blk, t in ft.calls_to(r"ExtendedMap<.*>>::(get_optional|get_optional_parsed|get_owned)$"):
            key = core.describe(prog, ft, t["args"][1])
            k = key[1] if key[0] == "lit" else panics.short_desc(key)
            w = core.must_pass(ft, [0], oks, through_nodes=[blk], after_from=False)
            chk.ob("R5.unconditional", ft.path, f"`{k}` is read on every successful load", w is None,
                   f"`{k}` is only read (and validated) when something else is configured: otherwise its value is silently ignored / an invalid value is accepted", where=ft.where(blk), path=w)
        # enumerated-value tables lie on every successful path as well
        for blk_i in range(len(ft.blocks)):
            pass
    chk.floor("optional keys", n, 5)
    chk.extra["defaults"] = seen
    want = {"server.address": "'0.0.0.0'", "server.port": "80", "server.threads": "32", "server.timeout": "0", "server.cache.size": "0", "server.cache.time": "0"}
    for k, v in want.items():
        chk.ob("R5.defaults", CFG + "Config::from_tree", f"default of `{k}` equals Config::default()'s value", seen.get(k, "").strip("into()") .replace("into(", "").rstrip(")") in (v,) or v in seen.get(k, ""), f"{seen.get(k)}")


NUMBER_KEYS = {"server.port": "u16", "server.threads": "usize", "server.timeout": "u64", "server.cache.size": "usize", "server.cache.time": "usize"}


def number_ranges(chk, prog):
    """R5.number_range: the validation rule of a numeric key is the range of the type it is parsed into — a port is a u16, sizes / counts /
    seconds are unsigned.  Parsing into a wider or signed type and converting afterwards (`as u64`) accepts files the rule rejects (a negative
    timeout then loads as "no timeout")."""
    b = prog.bodies.get(CFG + "Config::from_tree")
    if b is None:
        return
    n = 0
    for blk, t in b.calls_to(r"ExtendedMap::get_(optional|compulsory)_parsed$"):
        ks = [core.describe(prog, b, a) for a in t["args"]]
        key = next((k[1] for k in ks if k[0] == "lit" and isinstance(k[1], str) and k[1] in NUMBER_KEYS), None)
        if key is None:
            continue
        n += 1
        ty = (t.get("gargs") or [""])[-1]
        chk.ob("R5.number_range", b.path, f"`{key}` is parsed as {NUMBER_KEYS[key]}", ty == NUMBER_KEYS[key],
               f"`{key}` is parsed as {ty}: values outside the range of {NUMBER_KEYS[key]} (e.g. negative ones) are no longer rejected but converted", where=b.where(blk))
    chk.floor("numeric keys read by from_tree", n, 5)


def errors_propagate(chk, prog):
    """R2.errors_propagate: a faulty file is rejected, never accepted with a different meaning.  The Result of every fallible step of the loader
    (a function of humphrey_server::config returning Result) is looked at where it is produced — `?`, a `match` / `if let` on it, or returned as
    it is; inside an iterator closure only as `.map(|x| step(x))` whose results are collected into a Result.  An adaptor that iterates over the
    Result itself (`flat_map`, `filter_map`, `flatten`, `.ok()`) silently drops the faulty host / route."""
    n = 0
    for pth, bb in sorted(prog.bodies.items()):
        if not pth.startswith("humphrey_server::config::") or "promoted" in pth:
            continue
        for blk, t in bb.calls():
            r = t.get("resolved") or ""
            if not r.startswith("humphrey_server::config::") or r not in prog.bodies or t.get("dest") is None or t["dest"]["p"]:
                continue
            dl = t["dest"]["l"]
            if not (bb.local_ty(dl) or "").startswith("std::result::Result<"):
                continue
            n += 1
            name = r.rsplit("::", 1)[-1]
            looked = False
            # followed through plain moves
            locs = {dl}
            changed = True
            while changed:
                changed = False
                for blk2 in bb.blocks:
                    for st in blk2["stmts"]:
                        rv = st.get("rv")
                        if rv and rv.get("k") == "use" and core.op_local(rv["o"]) in locs and not rv["o"]["pl"]["p"] and "pl" in st and not st["pl"]["p"] and st["pl"]["l"] not in locs:
                            locs.add(st["pl"]["l"])
                            changed = True
            returned = 0 in locs
            for blk2, blk_ in enumerate(bb.blocks):
                for st in blk_["stmts"]:
                    rv = st.get("rv")
                    if rv and rv.get("k") == "discr" and rv["pl"]["l"] in locs:
                        looked = True
                t2 = blk_["term"]
                if t2 and t2["k"] == "call" and core.call_matches(t2, r"Try::branch$|Result::<T, E>::(map_err|and_then|or_else|map)$") and t2["args"] and core.op_local(t2["args"][0]) in locs:
                    looked = True
            ok = looked
            why = "its Result is neither tested nor propagated"
            if not looked and returned:
                if bb.kind == "closure":
                    site = core.closure_site(prog, bb)
                    host_ok = False
                    if site:
                        hb, _ = site
                        for hblk, ht in hb.calls():
                            if any(core.describe(prog, hb, a)[0:2] == ("closure", bb.path) for a in ht["args"]):
                                adaptor = (ht.get("callee") or "").rsplit("::", 1)[-1]
                                collects = [t3 for _, t3 in hb.calls_to(r"Iterator>?::collect$|Iterator::collect$|Iterator::try_for_each$|Iterator>?::try_fold$") if (hb.local_ty(t3["dest"]["l"]) or "").startswith("std::result::Result<")]
                                host_ok = adaptor in ("map",) and bool(collects)
                                why = f"the closure's Result goes into `{adaptor}`" + ("" if collects else " and is not collected into a Result")
                    ok = host_ok
                else:
                    ok = True       # returned to the caller as it is
            chk.ob("R2.errors_propagate", pth, f"the Result of {name}() is tested or propagated", ok,
                   f"{why}: a fault that {name} reports no longer rejects the file (the faulty host / route silently disappears from the loaded configuration)",
                   where=bb.where(blk))
    chk.floor("fallible loader steps", n, 8)


def unclosed_is_error(chk, prog):
    """R2.unclosed: a section that is still open when its file ends is an error, in the main file and in an included one alike: from the
    `None` edge of the line iterator in parse_section no `Ok(..)` return can be reached (an unclosed `route { ..` in an included file would
    otherwise swallow the sections after it without a diagnostic)."""
    from .c01 import some_edge_of
    n = 0
    for pth, bb in sorted(prog.bodies.items()):
        if not core.re.search(r"^humphrey_server::config::tree::parse_section$", pth):
            continue
        oks = core.ok_return_blocks(bb, "Ok")
        for nb, t in bb.calls_to(r"Iterator>?::next$|Iterator::next$"):
            ty = " ".join(t.get("arg_tys") or [])
            if "TracebackIterator" not in ty and "Lines" not in ty:
                continue
            edges = some_edge_of(prog, bb, nb, "None")
            for sb_, tgt in edges:
                n += 1
                # (on the product with the variant store: an `Err` built in an inlined helper and handed to the caller's `?` does not reach `Ok`)
                from .. import absreach
                reach = absreach.feasible_from(bb, [tgt], prog)
                bad = [o for o in oks if o in reach]
                chk.ob("R2.unclosed", pth, "end of file inside a section is an error (no Ok result once the line iterator has run out)", not bad,
                       "when the lines run out the section can still be returned as parsed: a missing `}` is accepted and the sections after it are nested under the unclosed one",
                       where=bb.where(nb))
    chk.floor("line-iterator exhaustion edges in parse_section", n, 1)


def host_routes_exact(chk, prog):
    """R5.host_routes: the routes of a host are exactly the routes written in its block — none inherited from `HostConfig::default()` (whose
    catch-all `/*` -> `.` directory route exists for running without a configuration file): the `routes` field of the HostConfig that
    parse_host returns is the list parsed from the node on every path."""
    fn = CFG + "parse_host"
    b = prog.bodies.get(fn)
    chk.floor("parse_host", 1 if b else 0, 1)
    if not b:
        return
    st = prog.structs.get("humphrey_server::config::config::HostConfig", {}).get("fields", [])
    ri = next((i for i, x in enumerate(st) if x["name"] == "routes"), None)
    n = 0
    for bi, blk in enumerate(b.blocks):
        for s_ in blk["stmts"]:
            rv = s_.get("rv")
            if not (rv and rv.get("k") == "agg" and str(rv.get("adt", "")).endswith("config::HostConfig") and "routes" in (rv.get("fields") or [])):
                continue
            n += 1
            d = core.describe(prog, b, rv["ops"][rv["fields"].index("routes")])
            inherited = core.desc_contains(d, lambda y: y[0] == "call" and y[1].endswith("::default") and "Default" in y[1])
            ok = not inherited
            if inherited and not s_["pl"]["p"]:
                # built from the default and then given its routes: the assignment must lie on every path to the return
                writes = [bj for bj, blk2 in enumerate(b.blocks) for s2 in blk2["stmts"]
                          if "pl" in s2 and s2["pl"]["l"] == s_["pl"]["l"] and [e[1] for e in s2["pl"]["p"] if e[0] == "f"] == [ri]]
                ok = bool(writes) and core.must_pass(b, [bi], core.return_blocks(b), through_nodes=writes) is None
            chk.ob("R5.host_routes", fn, "HostConfig.routes is the list parsed from the host's block on every path", ok,
                   "the routes can be those of HostConfig::default() (the built-in `/*` directory route): a host written with no routes serves the working directory",
                   where=b.where(bi))
    chk.floor("HostConfig values built in parse_host", n, 1)


def comments_everywhere(chk, prog):
    """R4.comments: a comment may follow any line.  Every line the tree parser takes from its line iterator goes through `clean_up` (comment
    removed, trimmed) before anything looks at it; a site that compares the raw line (e.g. the search for `server {`) makes the meaning of a
    file depend on where its comments are."""
    n = 0
    for pth, bb in sorted(prog.bodies.items()):
        if not pth.startswith("humphrey_server::config::tree::") or "promoted" in pth:
            continue
        cleaned = set()
        for blk, t in bb.calls_to(r"config::tree::clean_up$"):
            d = core.describe(prog, bb, t["args"][0])
            cleaned |= {c[3] for c in core.desc_calls(d) if len(c) > 3}
        for blk, t in bb.calls():
            tys = t.get("arg_tys") or []
            if not tys or "TracebackIterator" not in tys[0] or "&mut" not in tys[0] and not tys[0].startswith("humphrey_server::config::traceback::TracebackIterator"):
                continue
            callee = t.get("resolved") or t.get("callee") or ""
            if core.re.search(r"(::current_line|::by_ref|TracebackIterator<T> as std::convert::From<T>>::from|config::tree::(parse_section|include)|config::error::quiet_assert|::deref(_mut)?|IntoIterator>::into_iter)$", callee) or \
                    callee.startswith("humphrey_server::config::"):
                continue
            n += 1
            if callee.endswith("::next"):
                dty = bb.local_ty(t["dest"]["l"])
                if "str" not in dty:
                    continue
                chk.ob("R4.comments", pth, "the line read here goes through clean_up() before it is interpreted", blk in cleaned,
                       "a raw line (comment not removed) is interpreted: a `# comment` on that line changes what the file means", where=bb.where(blk))
                continue
            # an iterator adapter / consumer over the lines: its closure must clean the line itself
            cls = [core.describe(prog, bb, a) for a in t["args"][1:]]
            cls = [prog.bodies[c[1]] for c in cls if c[0] == "closure" and c[1] in prog.bodies]
            ok = bool(cls)
            for cb in cls:
                cu = cb.calls_to(r"config::tree::clean_up$")
                ok = ok and any(desc_contains(core.describe(prog, cb, t2["args"][0]), lambda y: y[0] == "param") for _, t2 in cu)
            chk.ob("R4.comments", pth, f"lines consumed through {core.short(callee)}: the closure cleans each line with clean_up()", ok,
                   "raw lines (comments not removed) are examined: a `# comment` on such a line changes what the file means", where=bb.where(blk))
    chk.floor("line-consuming sites in the config tree parser", n, 2)


def run(chk):
    prog = chk.use(core.load("A", fresh=(chk.tier == "thorough")))
    chk.explanation = (
        "Static decision of C15's structural clauses: the enumerated-value tables (blacklist mode, load-balancer mode, log level, size units K/M/G = 1024^k) and "
        "their rejection arms; route-kind precedence and the RouteType built under each key; every ConfigError in the tree parser takes its line from the "
        "line iterator (or include's line parameter) and names the file, except the documented line 0; hosts and routes are collected only by appending while "
        "iterating Vecs in file order (no HashMap iteration), multi-pattern routes expand in list order, trimmed; quoted values are recognised with "
        "wildcard_match(\"\\\"*\\\"\", value) and node kinds follow the value shape; each optional key has one constant default; the parser cannot panic "
        "(C03's R-PANIC inventory over parse_conf / from_tree).")
    chk.not_decided = "that the loaded configuration equals the described one (semantic); layout independence; include splicing semantics"
    chk.assumptions = ["rustc type checking / MIR construction / HIR", "Vec iteration is in insertion order"]
    enum_tables(chk, prog)
    route_kinds(chk, prog)
    error_lines(chk, prog)
    line_source(chk, prog)
    comments_everywhere(chk, prog)
    unclosed_is_error(chk, prog)
    host_routes_exact(chk, prog)
    errors_propagate(chk, prog)
    number_ranges(chk, prog)
    ordering(chk, prog)
    per_pattern_routes(chk, prog)
    quoted_values(chk, prog)
    defaults(chk, prog)
    # R6: no crash (shared engine)
    entries = [TREE + "parse_conf", CFG + "Config::from_tree"]
    c03.matcher_affix_assumption(chk, prog, "A", rid="R6.matcher_affixes")
    bodies, sites = panics.inventory(prog, entries)
    allow = panics.load_allow()
    for s in sites:
        how, why = panics.try_discharge(prog, s)
        if how is None and s.fingerprint in allow:
            ok, why2 = c03.check_allow_cond(prog, s, allow[s.fingerprint], bodies)
            if ok:
                how, why = "reviewed", f"{allow[s.fingerprint]['reason']} [{why2}]"
        chk.ob("R6.no_crash", s.body.path, s.fingerprint.split("|", 1)[1], how is not None,
               f"a configuration file can crash the loader: {s.kind} {s.what} ({why or 'no discharge idiom applies'})" if how is None else f"{how}: {why}", where=s.where())
    chk.floor("panic sites in the config loader", len(sites), 6)

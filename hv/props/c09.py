"""C09 — proxy always answers: upstream's response if valid, else 502, within the timeout (structural clauses)."""
from .. import core, tables, locks, panics
from ..core import describe_r as describe, desc_contains
from . import c03

PR = "humphrey::http::proxy::proxy_request"
PRI = "humphrey::http::proxy::proxy_request_internal"
PH = "humphrey_server::server::proxy::proxy_handler"


def root_local(b, l):
    """Follow `x = move y` single definitions back to the variable that was initialised by a call/aggregate."""
    for _ in range(8):
        ds = [d for d in b.defs().get(l, []) if not (d[2] == "assign" and d[3]["pl"]["p"])]
        if len(ds) == 1 and ds[0][2] == "assign" and ds[0][3]["rv"]["k"] == "use" and core.op_local(ds[0][3]["rv"]["o"]) is not None and not ds[0][3]["rv"]["o"]["pl"]["p"]:
            l = core.op_local(ds[0][3]["rv"]["o"])
        else:
            break
    return l


def mutations_of(prog, b, local):
    """Position-free labels of everything that may mutate `local` (assignments to its fields, &mut uses)."""
    local = root_local(b, local)
    out = []
    muts = set()
    for blk_i, blk in enumerate(b.blocks):
        for s in blk["stmts"]:
            if "pl" not in s:
                continue
            if s["pl"]["l"] == local and s["pl"]["p"]:
                fs = [e[1] for e in s["pl"]["p"] if e[0] == "f"]
                out.append(("assign-field", tuple(fs), blk_i, s))
            rv = s["rv"]
            if rv["k"] == "ref" and rv.get("mut") and rv["pl"]["l"] == local:
                muts.add(s["pl"]["l"])
    for blk, t in b.calls():
        for a in t["args"]:
            l = core.op_local(a)
            if l in muts:
                out.append(("call", t.get("callee"), blk, t))
    return out


def run(chk):
    prog = chk.use(core.load("A", fresh=(chk.tier == "thorough")))
    chk.explanation = (
        "Static decision of C09's structural clauses: proxy_request is total (Ok -> upstream response, Err -> 502) and nothing on the call graphs of "
        "proxy_request / proxy_handler can panic (R-PANIC inventory shared with C03); the upstream socket gets read and write timeouts before it is used; "
        "the bytes sent upstream are the serialised clone of the client's request whose only mutations are the stripped URI and the added X-Forwarded-For "
        "carrying the client's origin address; the load-balancer guard is released before the network call; round-robin reads the index before "
        "incrementing and wraps at len.")
    chk.not_decided = "timing itself; status codes Humphrey does not model become 502; LCG quality for random mode"
    chk.assumptions = ["rustc type checking / MIR construction / callee resolution", "set_read_timeout/set_write_timeout bound each blocking socket operation (std contract)"]
    b = prog.bodies.get(PR)
    bi = prog.bodies.get(PRI)
    h = prog.bodies.get(PH)
    chk.floor("proxy_request", 1 if b else 0, 1)
    chk.floor("proxy_request_internal", 1 if bi else 0, 1)
    chk.floor("proxy_handler", 1 if h else 0, 1)
    if not (b and bi and h):
        return
    # ---- R1 total
    # decided on the MIR of proxy_request: what is returned under which outcome of proxy_request_internal
    ok_arm = err_arm = False
    shape = "?"

    def is_502(d):
        return desc_contains(d, lambda y: y[0] == "variant" and y[2] == "BadGateway")
    d0 = core.describe(prog, b, 0)
    if d0[0] == "call" and core.re.search(r"Result::<T, E>::unwrap_or_else$", d0[1]) and desc_contains(d0[2][0], lambda y: y[0] == "call" and y[1].endswith("proxy_request_internal")):
        shape = "unwrap_or_else"
        ok_arm = d0[2][0][0] == "call" and d0[2][0][1].endswith("proxy_request_internal")
        cl = d0[2][1]
        if cl[0] == "closure" and cl[1] in prog.bodies:
            err_arm = is_502(core.describe(prog, prog.bodies[cl[1]], 0))
    else:
        shape = "match"
        oks, errs = [], []
        for d in b.defs().get(0, []):
            labs = [(lab, dd) for s_, lab, dd, info in core.guards_dominating(prog, b, d[0]) if desc_contains(dd, lambda y: y[0] == "call" and y[1].endswith("proxy_request_internal"))]
            val = ("call", d[3].get("resolved") or d[3].get("callee"), [core.describe(prog, b, a) for a in d[3]["args"]], d[0]) if d[2] == "call" else \
                (core.describe_rv(prog, b, d[3]["rv"]) if d[3]["rv"]["k"] != "use" else core.describe(prog, b, d[3]["rv"]["o"]))
            if any(l == "Ok" for l, _ in labs):
                oks.append(val)
            elif any(l == "Err" for l, _ in labs):
                errs.append(val)
        ok_arm = bool(oks) and all(v[0] == "field" and desc_contains(v, lambda y: y[0] == "call" and y[1].endswith("proxy_request_internal")) and not is_502(v) for v in oks)
        err_arm = bool(errs) and all(is_502(v) for v in errs)
    chk.ob("R1.total", PR, "Ok(response) -> that response", ok_arm, f"the upstream's response is not passed through unchanged ({shape})")
    chk.ob("R1.total", PR, "Err(_) -> 502 Bad Gateway", err_arm, f"an upstream failure is not answered with 502 ({shape})")
    # the logger / monitor / HTTP-date code reached from proxy_handler is driven by the system clock, not by the upstream
    # or the client; its arithmetic is in C18's scope and is cut out of this inventory (listed in the evidence)
    CUT = ("humphrey_server::server::logger::", "humphrey::http::date::", "humphrey::monitor::")
    chk.extra["panic_inventory_cut"] = list(CUT)
    bodies, sites = panics.inventory(prog, [PR, PH], exclude=CUT)
    allow = panics.load_allow()
    n = 0
    for s in sites:
        n += 1
        how, why = panics.try_discharge(prog, s)
        if how is None and s.fingerprint in allow:
            ok, why2 = c03.check_allow_cond(prog, s, allow[s.fingerprint], bodies)
            if ok:
                how, why = "reviewed", f"{allow[s.fingerprint]['reason']} [{why2}]"
        chk.ob("R1.no_panic", s.body.path, s.fingerprint.split("|", 1)[1], how is not None,
               f"may panic while proxying: {s.kind} {s.what} ({why or 'no discharge idiom applies'})" if how is None else f"{how}: {why}", where=s.where())
    chk.floor("panic sites on the proxy call graph", n, 8)
    chk.extra["proxy_call_graph_bodies"] = len(bodies)
    from . import shared
    shared.response_reads(chk, prog, "R1.exact_reads")
    shared.header_line_split(chk, prog, "R1.header_split", "humphrey::http::response::Response::from_stream")
    shared.no_blind_consume(chk, prog, "R1.no_blind_consume", r"^humphrey::http::(response|request|proxy)::")
    # "the upstream receives the request unchanged": same-named header fields keep their order in the relayed request
    shared.header_order(chk, prog, "R1.header_order")
    # a chunked upstream body is decoded whichever case the upstream writes its chunk sizes in
    from . import c07 as _c07
    _c07.chunk_size_hex(chk, prog)
    shared.eof_is_error(chk, prog, "R1.eof_is_error", r"^humphrey::http::response::Response::from_stream$", "upstream response head")
    # a valid upstream answer of any version and status is relayed with its body: framing from the headers alone, no literal version test
    shared.response_framing_by_headers(chk, prog, "R1.framing")
    # "the upstream receives the request unchanged": every header name the parser recognises is written back under that name
    # (the header-name table rule of C02: parse and print tables are inverse)
    from . import c02 as _c02
    _c02.header_table(chk, prog, "A")
    # ---- R2 bounded wait
    conn = [blk for blk, t in bi.calls_to(r"TcpStream::connect_timeout$")]
    plain = [blk for blk, t in bi.calls_to(r"TcpStream::connect$")]
    chk.ob("R2.bounded", PRI, "connects with connect_timeout", bool(conn) and not plain, "the connection attempt itself is unbounded")
    reads = [blk for blk, t in bi.calls_to(r"response::Response::from_stream$")]
    writes = [blk for blk, t in bi.calls_to(r"Write::write_all$|Write::write$")]
    chk.floor("upstream read site", len(reads), 1)
    chk.floor("upstream write site", len(writes), 1)
    def tm(rx):
        out = []
        for blk, t in bi.calls_to(rx):
            d = core.describe(prog, bi, t["args"][1])
            same = desc_contains(core.describe(prog, bi, t["args"][0]), lambda y: y[0] == "call" and y[1].endswith("connect_timeout"))
            if d[0] == "variant" and d[2] == "Some" and same:
                # its error must not be ignored: the call's result is branched on (`?`) or the call is followed by an Ok-only path
                out.append(blk)
        return out
    rt, wt = tm(r"TcpStream::set_read_timeout$"), tm(r"TcpStream::set_write_timeout$")
    w = core.must_pass(bi, conn, reads, through_nodes=rt)
    chk.ob("R2.bounded", PRI, "connect -> Response::from_stream passes set_read_timeout(Some(_)) on that socket", w is None and bool(rt),
           "no read timeout on the upstream socket: an upstream that accepts and then stays silent blocks the worker forever", path=w)
    w = core.must_pass(bi, conn, writes, through_nodes=wt)
    chk.ob("R2.bounded", PRI, "connect -> write_all passes set_write_timeout(Some(_)) on that socket", w is None and bool(wt),
           "no write timeout on the upstream socket: an upstream that stops reading blocks the worker forever", path=w)
    for blk in rt + wt:
        d = core.describe(prog, bi, bi.term(blk)["args"][1])
        chk.ob("R2.bounded", PRI, f"{bi.term(blk)['callee'].split('::')[-1]} uses the caller's timeout", desc_contains(d, lambda y: y[0] == "param" and y[2] == "timeout"),
               f"timeout value is {d}")
    # ---- R3 what is forwarded
    for wb in writes:
        t = bi.term(wb)
        d = core.describe(prog, bi, t["args"][1])
        intos = [c for c in core.desc_calls(d) if c[1].endswith("::into")]
        okf = False
        cl = None
        for c in intos:
            src = c[2][0]
            if desc_contains(src, lambda y: y[0] == "call" and y[1].endswith("Clone>::clone") and desc_contains(y[2], lambda z: z[0] == "param" and z[2] == "request")):
                okf = True
                cl = core.op_local(bi.term(c[3])["args"][0])
        chk.ob("R3.forwarded", PRI, "bytes written upstream <- Vec<u8>::from(clone of the client's request)", okf, f"written data: {core.short(str(d))[:120]}", where=bi.where(wb))
        if cl is not None:
            muts = mutations_of(prog, bi, cl)
            labels = []
            for m in muts:
                if m[0] == "call":
                    t2 = m[3]
                    hd = core.describe(prog, bi, t2["args"][1]) if len(t2["args"]) > 1 else None
                    if (t2.get("callee") or "").endswith("Headers::add") and hd == ("lit", "X-Forwarded-For"):
                        v = core.describe(prog, bi, t2["args"][2])
                        ai = next(i for i, x in enumerate(prog.structs["humphrey::http::request::Request"]["fields"]) if x["name"] == "address")
                        ok = desc_contains(v, lambda y: y[0] == "field" and y[2] == 0 and y[1][0] == "field" and y[1][2] == ai)
                        chk.ob("R3.forwarded", PRI, "X-Forwarded-For <- request.address.origin_addr", ok, f"value {core.short(str(v))[:100]}", where=bi.where(m[2]))
                        labels.append("add(X-Forwarded-For)")
                    else:
                        labels.append(f"{(t2.get('callee') or '?').split('::')[-1]}({panics.short_desc(hd) if hd else ''})")
                else:
                    labels.append(f"field{m[1]}=")
            chk.ob("R3.forwarded", PRI, "the only change to the relayed request is the added X-Forwarded-For", labels == ["add(X-Forwarded-For)"],
                   f"mutations of the cloned request: {labels}")
            # ... and it is added on every path to the write (not only when the client sent none: the client's own header may be
            # unparseable, in which case the address falls back to the socket peer and nothing carrying it would be relayed)
            adds = [m[2] for m in muts if m[0] == "call" and (m[3].get("callee") or "").endswith("Headers::add")]
            w_ = core.must_pass(bi, [0], [wb], through_nodes=adds, after_from=False)
            chk.ob("R3.forwarded", PRI, "X-Forwarded-For is added on every path to the upstream write", w_ is None and bool(adds),
                   "the relayed request can be written without the X-Forwarded-For carrying the client's address", where=bi.where(wb), path=w_)
    # server side: proxied_request = clone(request) with uri replaced by the stripped uri
    prc = [(blk, t) for blk, t in h.calls_to(r"proxy::proxy_request$")]
    chk.floor("proxy_request call in proxy_handler", len(prc), 1)
    for blk, t in prc:
        l = core.op_local(t["args"][0])
        # &proxied_request -> local
        from ..fmt import _deref_chain
        base = root_local(h, _deref_chain(h, l))
        d0 = core.describe(prog, h, t["args"][0])
        okc = desc_contains(d0, lambda y: y[0] == "call" and y[1].endswith("Clone>::clone") and desc_contains(y[2], lambda z: z[0] == "param" and z[2] == "request"))
        chk.ob("R3.forwarded", PH, "proxy_request is given a clone of the client's request", okc, f"argument {core.short(str(d0))[:100]}", where=h.where(blk))
        if base is not None:
            ui = next(i for i, x in enumerate(prog.structs["humphrey::http::request::Request"]["fields"]) if x["name"] == "uri")
            muts = mutations_of(prog, h, base)
            labels = sorted(set("uri=" if (m[0] == "assign-field" and m[1] == (ui,)) else str(m[:2]) for m in muts))
            chk.ob("R3.forwarded", PH, "the only change before relaying is the stripped URI", labels == ["uri="], f"mutations: {labels}")
            for m in muts:
                if m[0] == "assign-field" and m[1] == (ui,):
                    v = core.describe(prog, h, m[3]["rv"]["o"])
                    # a copy of request.uri itself: between the field and the copying call only reference conversions (a `trim_start_matches`,
                    # `replace`, slice, ... in between relays a different path)
                    def bare_uri(z):
                        while z[0] == "call" and core.re.search(r"(Deref>::deref|AsRef<\w+>>::as_ref|::as_str|Borrow<\w+>>::borrow|::as_ref|::deref)$", z[1]) and z[2]:
                            z = z[2][0]
                        return z[0] == "field" and z[2] == ui and desc_contains(z[1], lambda q: q[0] == "param" and q[2] == "request")
                    ok = desc_contains(v, lambda y: y[0] == "call" and core.re.search(r"(Clone>::clone|ToString>::to_string|ToOwned>::to_owned|::to_string|::to_owned|String as std::convert::From<&str>>::from)$", y[1]) is not None and
                                       bool(y[2]) and bare_uri(y[2][0]))
                    chk.ob("R3.forwarded", PH, "relayed uri derives from the request's uri", ok, f"uri value {core.short(str(v))[:100]}")
    # ---- R4 lock released before the network call
    he = prog.elab.get(PH)
    if he:
        for blk, t in he.calls_to(r"proxy::proxy_request$"):
            held = {l: ty for l, ty in locks.held_locks(he, blk).items() if ty and "LoadBalancer" in ty}
            chk.ob("R4.lock", PH, "no LoadBalancer guard live at proxy_request", not held,
                   "the load balancer lock is held during the upstream round trip: proxied requests are serialised", where=he.where(blk))
        sel = he.calls_to(r"LoadBalancer::select_target$")
        chk.floor("select_target call", len(sel), 1)
        for blk, t in sel:
            d = core.describe(prog, he, t["args"][0])
            ok = desc_contains(d, lambda y: y[0] == "call" and y[1].endswith("DerefMut>::deref_mut")) and desc_contains(d, lambda y: y[0] == "call" and y[1].endswith("EqMutex::<T>::lock"))
            chk.ob("R4.lock", PH, "select_target is called through the mutex guard", ok, f"receiver {core.short(str(d))[:100]}", where=he.where(blk))
    # ---- R5 the rotation advances once per proxied request, not per request seen
    hb = prog.bodies.get(PH)
    if hb:
        sel_b = [blk for blk, t in hb.calls_to(r"LoadBalancer::select_target$")]
        prx = [blk for blk, t in hb.calls_to(r"proxy::proxy_request$")]
        gw = [blk for blk, t in hb.calls_to(r"Response::empty$") if core.is_variant(core.describe(prog, hb, t["args"][0]), "StatusCode", "BadGateway")]
        for sb in sel_b:
            w = core.must_pass(hb, [sb], core.return_blocks(hb), through_nodes=prx + gw)
            chk.ob("R5.rotation_per_proxied", PH, "a target is selected only for a request that is then relayed to it or answered 502 for it (select_target -> every return passes proxy_request / 502)", w is None and bool(prx),
                   "select_target also runs for requests that are answered without being relayed (e.g. 403): the rotation skips a target", where=hb.where(sb), path=w)
        for pb in prx:
            w = core.must_pass(hb, [0], [pb], through_nodes=sel_b, after_from=False)
            chk.ob("R5.rotation_per_proxied", PH, "every relayed request selected its target first", w is None and bool(sel_b), "", where=hb.where(pb), path=w)
            dt = core.describe(prog, hb, hb.term(pb)["args"][1]) if len(hb.term(pb)["args"]) > 1 else None
            allargs = [core.describe(prog, hb, a) for a in hb.term(pb)["args"]]
            chk.ob("R5.rotation_per_proxied", PH, "the request is relayed to the selected target", any(desc_contains(a, lambda y: y[0] == "call" and y[1].endswith("select_target")) for a in allargs),
                   f"{[core.short(str(a))[:60] for a in allargs]}", where=hb.where(pb))
    # ---- R5 rotation
    st = prog.bodies.get("humphrey_server::server::proxy::LoadBalancer::select_target")
    chk.floor("select_target", 1 if st else 0, 1)
    if st:
        ii = next(i for i, x in enumerate(prog.structs["humphrey_server::server::proxy::LoadBalancer"]["fields"]) if x["name"] == "index")
        ti = next(i for i, x in enumerate(prog.structs["humphrey_server::server::proxy::LoadBalancer"]["fields"]) if x["name"] == "targets")
        reads_, incs, zeros = [], [], []
        for blk_i, blk in enumerate(st.blocks):
            for s in blk["stmts"]:
                if "pl" not in s:
                    continue
                fs = [e[1] for e in s["pl"]["p"] if e[0] == "f"]
                if fs == [ii] and st.local_ty(s["pl"]["l"]).endswith("LoadBalancer"):
                    # the stored value may be a local that was assigned 0 on one arm and index + 1 on the other: look at those assignments
                    leaves = []
                    src = core.op_local(s["rv"]["o"]) if s["rv"]["k"] == "use" else None
                    seen_l = set()
                    while src is not None and src not in seen_l:
                        seen_l.add(src)
                        ds_ = st.defs().get(src, [])
                        if len(ds_) == 1 and ds_[0][2] == "assign" and ds_[0][3]["rv"]["k"] == "use" and core.op_local(ds_[0][3]["rv"]["o"]) is not None and not ds_[0][3]["rv"]["o"]["pl"]["p"]:
                            src = core.op_local(ds_[0][3]["rv"]["o"])
                            continue
                        if len(ds_) > 1 and all(d_[2] == "assign" and d_[3]["rv"]["k"] == "use" for d_ in ds_):
                            leaves = [(d_[0], core.describe(prog, st, d_[3]["rv"]["o"])) for d_ in ds_]
                        break
                    if not leaves:
                        leaves = [(blk_i, core.describe(prog, st, s["rv"]["o"]) if s["rv"]["k"] == "use" else None)]
                    for lb, v in leaves:
                        if v == ("lit", 0):
                            zeros.append(lb)
                        else:
                            incs.append(lb)
                rv = s["rv"]
                if rv["k"] == "use" and core.op_place(rv["o"]) and [e[1] for e in core.op_place(rv["o"])["p"] if e[0] == "f"] == [ii] and not s["pl"]["p"] and st.locals[s["pl"]["l"]].get("user"):
                    reads_.append((blk_i, s["pl"]["l"]))
        idx_calls = [(blk, t) for blk, t in st.calls_to(r"Index<I>>::index$|ops::Index::index$")]
        ok_read = False
        for blk, t in idx_calls:
            il = core.op_local(t["args"][1])
            for rb, rl in reads_:
                if il == rl or _copies(st, il, rl):
                    ok_read = all(st.dominates(rb, ib) and rb != ib or (rb == ib and True) for ib in incs) and bool(incs)
        chk.ob("R5.rotation", st.path, "the returned target is indexed by the index value read before the increment", ok_read,
               "round-robin returns targets[index] after advancing (or never advances): rotation skips/repeats a target")
        wrap = False
        for zb in zeros:
            for s, lab, d, info in core.guards_dominating(prog, st, zb):
                if d[0] == "bin" and ((d[1] in ("Eq", "Ge") and lab == "true") or (d[1] in ("Ne", "Lt") and lab == "false")):
                    if desc_contains(d, lambda y: y[0] == "call" and y[1].endswith("::len") and desc_contains(y[2], lambda z: z[0] == "field" and z[2] == ti)):
                        wrap = True
        chk.ob("R5.rotation", st.path, "index wraps to 0 when it reaches targets.len()", wrap, "the rotation index is not reset at the end of the target list (next request indexes out of bounds)")
        ch = st.calls_to(r"rand::Choose>::choose$|Choose::choose$")
        chk.ob("R5.rotation", st.path, "random mode chooses from the configured targets", any(desc_contains(core.describe(prog, st, t["args"][0]), lambda z: z[0] == "field" and z[2] == ti) for _, t in ch), "")
    _typing_witness(chk)

def _copies(b, a, src):
    seen = set()
    work = [a]
    while work:
        l = work.pop()
        if l == src:
            return True
        if l in seen or l is None:
            continue
        seen.add(l)
        for d in b.defs().get(l, []):
            if d[2] == "assign" and d[3]["rv"]["k"] == "use":
                work.append(core.op_local(d[3]["rv"]["o"]))
    return False


def desc_hir_502(val):
    s = str(val)
    return "BadGateway" in s and "Response::empty" in s or "BadGateway" in s and "Response::new" in s


def _typing_witness(chk):
    """thorough tier: compile-fail witness with compiling twin (rustdoc `compile_fail,E0xxx` on nightly)."""
    if chk.tier != "thorough":
        return
    from .. import witness
    ok, res = witness.run("C09")
    chk.extra["typing_witness"] = res
    chk.ob("R4.typing_witness", "witness/typing", "LoadBalancer::select_target does not type-check through a shared reference (compile_fail E0596 + twin)", ok, "select_target no longer needs &mut: concurrent selections are not serialised by the type: " + str(res)[:300])

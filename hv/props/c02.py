"""C02 — request parsing is faithful, segmentation-independent, round-trips (structural clauses)."""
from .. import core, tables
from ..core import describe, desc_contains, desc_calls
from ..core import resolve_upvars as resolve_upvars_
from . import shared

BARE_READ = r"(^|::)(std::io::Read::read|std::io::Read::read_vectored|std::io::Read::read_buf|std::io::BufRead::fill_buf|" \
            r"tokio::io::AsyncReadExt::read|tokio::io::AsyncReadExt::read_buf|tokio::io::AsyncBufReadExt::fill_buf|" \
            r"std::io::Read::read_to_end|std::io::Read::read_to_string|tokio::io::AsyncReadExt::read_to_end|" \
            r"tokio::io::AsyncReadExt::read_to_string|std::net::TcpStream::peek)$"
TEXT_READ = r"(std::io::BufRead::read_line|std::io::BufRead::lines|tokio::io::AsyncBufReadExt::read_line|tokio::io::AsyncBufReadExt::lines)$"
GOOD_READ = r"(std::io::Read::read_exact|std::io::BufRead::read_until|tokio::io::AsyncReadExt::read_exact|" \
            r"tokio::io::AsyncBufReadExt::read_until)$"


def method_table(chk, prog, cfg):
    enum = prog.enums.get("humphrey::http::method::Method")
    variants = [v["name"] for v in enum["variants"]] if enum else []
    chk.floor("Method variants", len(variants), 5)
    f = "humphrey::http::method::Method::from_name"
    g = prog.impl_fn(r"^<humphrey::http::method::Method as std::fmt::Display>$", "fmt")
    chk.floor("Method::from_name", 1 if f in prog.hir else 0, 1)
    chk.floor("Display for Method", len(g), 1)
    if f not in prog.hir or not g:
        return
    m = tables.main_table(prog, f)
    if m is None:
        # lookup form: `TABLE.iter().find(|m| m.verb() == name).ok_or(Err)` with TABLE a constant list of variants and `verb` the variant ->
        # spelling table: from_name then returns the variant whose spelling is the name, i.e. the inverse of `verb` on TABLE
        fb = prog.bodies.get(f)
        finds = fb.calls_to(r"Iterator>?::find$") if fb else []
        names_, key_fn, cmp_ok, err_ok = [], None, False, False
        if len(finds) == 1:
            recv_, cl_ = describe(prog, fb, finds[0][1]["args"][0]), describe(prog, fb, finds[0][1]["args"][1])
            arrs = [y for y in core.desc_subterms(recv_) if y[0] == "array"]
            names_ = [x[2] for x in arrs[0][1] if x[0] == "variant" and x[1].endswith("method::Method")] if arrs else []
            plain = not [c for c in core.desc_calls(recv_) if core.re.search(r"::(rev|skip|take|filter|step_by|chain)$", c[1])]
            if cl_[0] == "closure" and cl_[1] in prog.bodies:
                cb_ = prog.bodies[cl_[1]]
                r_ = describe(prog, cb_, 0)
                if r_[0] == "call" and core.re.search(r"PartialEq.*::eq$", r_[1]) and len(r_[2]) == 2:
                    sides = r_[2]
                    ups = [x for x in sides if desc_contains(x, lambda y: y[0] == "upvar")]
                    ks = [x for x in sides if not desc_contains(x, lambda y: y[0] == "upvar")]
                    if len(ks) == 1 and len(ups) == 1:
                        # the spelling function: called on the element, or (a new helper) inlined into the predicate
                        kc = [c[1] for c in desc_calls(ks[0]) if c[1] in prog.bodies] + list(getattr(prog, "inlined", {}).get(cl_[1], []))
                        kc = sorted(set(kc))
                        key_fn = kc[0] if len(kc) == 1 else None
                        up = resolve_upvars_(prog, cb_, ups[0])
                        cmp_ok = plain and desc_contains(up, lambda y: y[0] == "param" and y[1] == 1) and \
                            not [c for c in desc_calls(up) if core.re.search(r"lowercase|uppercase|trim", c[1])]
            d0 = describe(prog, fb, 0)
            err_ok = "Err" in str(d0) or bool(fb.calls_to(r"Option::<T>::ok_or$"))
        kt = tables.main_table(prog, key_fn) if key_fn else None
        v2k = {}
        if kt is not None:
            raw_, _, _ = tables.simple_map(kt, key_kinds=("path",))
            v2k = {tables.variant_name(k): v[1] for k, v in raw_.items() if v[0] == "lit"}
        chk.ob("R1.from_name.arm", f, "lookup form: find over a constant table of variants by their spelling, compared with the parameter as given",
               bool(names_) and key_fn is not None and cmp_ok and all(n in v2k for n in names_),
               f"table {names_}, spelling function {key_fn}, comparison with the parameter {cmp_ok}", cfg=cfg)
        chk.ob("R1.from_name.rest", f, "unlisted method names are rejected", err_ok, "", cfg=cfg)
        n2v = {}
        for n in names_:
            if n in v2k:
                n2v.setdefault(v2k[n], n)
        mp, rest = {}, []
    else:
        mp, rest, dup = tables.simple_map(m, key_kinds=("lit",))
        n2v = {}
    for name, val in mp.items():
        inner = tables.unwrap(val, "Ok")
        ok = inner is not None and inner[0] == "path"
        chk.ob("R1.from_name.arm", f, f"name={name}", ok, "arm is not Ok(<Method variant>)", cfg=cfg)
        if ok:
            n2v[name] = tables.variant_name(inner[1])
    for keys, guard, val, line in rest:
        chk.ob("R1.from_name.rest", f, f"keys={keys}", keys == [("rest",)] and val[0] == "call" and tables.norm_path(val[1]) == "Err",
               "unlisted method names must be rejected", cfg=cfg)
    if m is not None:
        chain, base = tables.scrutinee_chain(m)
        chk.ob("R1.from_name.case", f, "method names matched case-sensitively on the parameter", not any("lowercase" in c or "uppercase" in c for c in chain), f"scrutinee chain {chain}", cfg=cfg)
    ms = [t for t in tables.fn_tables(prog, g[0]) if "Method" in t.get("scrut_ty", "")]
    chk.floor("Display for Method table", len(ms), 1)
    if not ms:
        return
    v2n_raw, rest2, _ = tables.simple_map(ms[0], key_kinds=("path",))
    v2n = {tables.variant_name(k): v[1] for k, v in v2n_raw.items() if v[0] == "lit"}
    for v in variants:
        names = [n for n, vv in n2v.items() if vv == v]
        chk.ob("R1.bijection", "Method", f"{v}: parsed from exactly one name", len(names) == 1, f"names {names}", cfg=cfg)
        chk.ob("R1.bijection", "Method", f"{v}: printable", v in v2n, "missing Display arm", cfg=cfg)
        if len(names) == 1 and v in v2n:
            chk.ob("R1.inverse", "Method", f"{v}: from_name(to_string(v)) == v", names[0] == v2n[v], f"prints {v2n[v]!r}, parsed from {names[0]!r}", cfg=cfg)
            chk.ob("R1.oracle", "Method", f"{v}: RFC 9110 token", v2n[v] == v.upper(), f"Method::{v} is spelled {v2n[v]!r}", cfg=cfg)


def header_table(chk, prog, cfg):
    enum = prog.enums.get("humphrey::http::headers::HeaderType")
    variants = [v["name"] for v in enum["variants"] if not v["fields"]] if enum else []
    chk.floor("HeaderType named variants", len(variants), 41)
    f = prog.impl_fn(r"^<humphrey::http::headers::HeaderType as std::convert::From<&str>>$", "from")
    g = prog.impl_fn(r"^<humphrey::http::headers::HeaderType as std::string::ToString>$", "to_string") + \
        prog.impl_fn(r"^<humphrey::http::headers::HeaderType as std::fmt::Display>$", "fmt")
    chk.floor("From<&str> for HeaderType", len(f), 1)
    chk.floor("HeaderType to_string", len(g), 1)
    if not f or not g:
        return
    f, g = f[0], g[0]
    m = tables.main_table(prog, f)
    if m is None:
        # the scrutinee is a local (the lower-cased name hoisted into a `let`): take the string table of the function
        cands = [t for t in tables.fn_tables(prog, f) if "str" in t.get("scrut_ty", "")]
        m = cands[0] if cands else None
    chk.floor(f"name table of From<&str> for HeaderType [{cfg}]", 1 if m else 0, 1)
    if m is None:
        return
    chain, base = tables.scrutinee_chain(m)
    lowered = any("to_ascii_lowercase" in c or "to_lowercase" in c for c in chain)
    if not lowered:
        # the same fact on the MIR: every comparison of the table is made against a value that went through to_ascii_lowercase / to_lowercase
        fb_ = prog.bodies.get(f)
        eqs = [t for _, t in fb_.calls() if core.re.search(r"PartialEq.*::eq$", t.get("resolved") or t.get("callee") or "")] if fb_ else []
        sides = []
        for t in eqs:
            ds_ = [describe(prog, fb_, a) for a in t["args"]]
            if any(d_[0] == "lit" and isinstance(d_[1], str) for d_ in ds_):
                sides += [d_ for d_ in ds_ if not (d_[0] == "lit" and isinstance(d_[1], str))]
        lowered = bool(sides) and all(desc_contains(d_, lambda y: y[0] == "call" and core.re.search(r"to_ascii_lowercase$|to_lowercase$", y[1]) is not None) for d_ in sides)
    chk.ob("R2.case_insensitive", f, "scrutinee is the lower-cased name", lowered, f"scrutinee chain is {chain}: header names would be matched case-sensitively", cfg=cfg)
    mp, rest, dup = tables.simple_map(m, key_kinds=("lit",))
    k2v = {}
    for key, val in mp.items():
        chk.ob("R2.key_lower", f, f"key {key!r} is lower-case", key == key.lower(), "an upper-case key can never match the lower-cased scrutinee", cfg=cfg)
        if val[0] == "path":
            k2v[key] = tables.variant_name(val[1])
    # Custom arm
    custom_ok = False
    for keys, guard, val, line in rest:
        if keys == [("rest",)] and val[0] == "call" and val[1] and val[1].endswith("HeaderType::Custom"):
            arm = [a for a in m["arms"] if a.get("line") == line][-1]
            bind = arm["pat"].get("name")
            arg = val[2][0]
            custom_ok = desc_contains(arg, lambda x: x == ("local", bind))
    if not custom_ok:
        # on the MIR: every HeaderType::Custom(..) built here carries a value that went through to_ascii_lowercase / to_lowercase
        fb_ = prog.bodies.get(f)
        cs_ = [describe(prog, fb_, s_["rv"]["ops"][0]) for blk_ in (fb_.blocks if fb_ else []) for s_ in blk_["stmts"]
               if s_.get("rv") and s_["rv"].get("k") == "agg" and str(s_["rv"].get("adt", "")).endswith("HeaderType") and s_["rv"].get("variant") == "Custom" and s_["rv"].get("ops")]
        custom_ok = bool(cs_) and all(desc_contains(d_, lambda y: y[0] == "call" and core.re.search(r"to_ascii_lowercase$|to_lowercase$", y[1]) is not None) for d_ in cs_)
    chk.ob("R2.custom_lower", f, "Custom(_) carries the lower-cased name", custom_ok and lowered,
           "unknown header names must be stored lower-cased so that lookups are case-insensitive", cfg=cfg)
    ms = [t for t in tables.fn_tables(prog, g) if "HeaderType" in t.get("scrut_ty", "")]
    chk.floor("HeaderType to_string table", len(ms), 1)
    v2s = {}
    if ms:
        raw, _, _ = tables.simple_map(ms[0], key_kinds=("path",))
        v2s = {tables.variant_name(k): v[1] for k, v in raw.items() if v[0] == "lit"}
    for v in variants:
        keys = [k for k, vv in k2v.items() if vv == v]
        chk.ob("R2.bijection", "HeaderType", f"{v}: parsed from exactly one name", len(keys) == 1, f"keys {keys}", cfg=cfg)
        s = v2s.get(v)
        chk.ob("R2.bijection", "HeaderType", f"{v}: has a name", bool(s), f"to_string gives {s!r}", cfg=cfg)
        if len(keys) == 1 and s:
            chk.ob("R2.inverse", "HeaderType", f"{v}: from(to_string(v)) == v", s.lower() == keys[0], f"prints {s!r} but is parsed from {keys[0]!r}", cfg=cfg)


def reads(chk, prog, cfg):
    """R4: the request parser reads only through read_exact / read_until; body length <- Content-Length."""
    fns = ["humphrey::http::request::Request::from_stream", "humphrey::http::request::Request::from_stream_inner"]
    if cfg == "A":
        fns.append("humphrey::http::request::Request::from_stream_with_timeout")
    total_good = 0
    for fn in fns:
        b = prog.impl_body(fn)
        chk.floor(f"request parser {fn.split('::')[-1]} [{cfg}]", 1 if b else 0, 1)
        if not b:
            continue
        chk.saw_fn(fn)
        for blk, t in b.calls():
            chk.call_sites += 1
            if core.call_matches(t, BARE_READ):
                chk.ob("R4.reads", fn, f"bare read {t['callee']}", False,
                       f"{t['callee']} may return after any prefix of the bytes: the parse would depend on TCP segmentation", where=b.where(blk), cfg=cfg)
            elif core.call_matches(t, TEXT_READ):
                # a read that validates UTF-8 reports malformed bytes as io::ErrorKind::InvalidData: unless the kind is looked at, the parser
                # cannot tell a malformed request (answered 400) from a failed connection (closed silently)
                kinds = b.calls_to(r"std::io::Error::kind$")
                chk.ob("R4.reads", fn, f"text read {t['callee'].split('::')[-1]}: malformed bytes are told apart from I/O failure", bool(kinds),
                       f"{t['callee']} fails with an I/O error on bytes that are not UTF-8; the request parser maps read errors to RequestError::Stream, so such a "
                       "malformed request is dropped silently instead of being answered 400 (read bytes and validate them: from_utf8 -> RequestError::Request)",
                       where=b.where(blk), cfg=cfg)
                total_good += 1
            elif core.call_matches(t, GOOD_READ):
                total_good += 1
                chk.ob("R4.reads", fn, f"{t['callee'].split('::')[-1]}@{describe_short(prog, b, t)}", True, where=b.where(blk), cfg=cfg)
    chk.floor(f"segmentation-proof reads in the request parser [{cfg}]", total_good, 2)
    # received bytes become text only by UTF-8 decoding: a per-byte conversion (`b as char`, char::from(b)) reads them as ISO-8859-1 and
    # from_utf8_lossy substitutes, so a non-ASCII header value is no longer the value that was sent (and is re-encoded on relay)
    fam = set()
    for fn in fns:
        b = prog.impl_body(fn)
        if b is not None:
            fam |= {q for q in prog.reach_bodies([b.path], extra_edges=lambda bb: [c.path for c in prog.closures_of(bb.path)]) if q.startswith("humphrey::http::request::")}
    n_dec = 0
    for q in sorted(fam):
        bb = prog.bodies[q]
        for bi, blk in enumerate(bb.blocks):
            for st in blk["stmts"]:
                rv = st.get("rv")
                if rv and rv.get("k") == "cast" and not st["pl"]["p"] and bb.local_ty(st["pl"]["l"]) == "char":
                    chk.ob("R4.utf8_decode", q, "no byte is turned into a character by a cast", False,
                           "`byte as char` decodes the received bytes as ISO-8859-1: a UTF-8 header value such as `Zürich` is parsed as `ZÃ¼rich` and re-encoded when the request is relayed",
                           where=bb.where(bi), cfg=cfg)
        for bi, t in bb.calls():
            if core.call_matches(t, r"from_utf8$|String::from_utf8$"):
                n_dec += 1
            if core.call_matches(t, r"(from_utf8_lossy|from_utf8_unchecked|from_utf8_unchecked_mut|<char as std::convert::From<u8>>::from|char::from_u32|char::from_u32_unchecked|char::from_digit)$"):
                chk.ob("R4.utf8_decode", q, f"received bytes are decoded with from_utf8, not {core.short(t['callee'])}", False,
                       f"{t['callee']} does not reproduce the text the bytes denote (substitution / per-byte decoding)", where=bb.where(bi), cfg=cfg)
    chk.floor(f"UTF-8 decoding sites in the request parser [{cfg}]", n_dec, 1)
    # body buffer
    fn = "humphrey::http::request::Request::from_stream_inner"
    b = prog.impl_body(fn)
    if not b:
        return
    # one reader: once the stream is wrapped in a BufReader, every later read goes through it (bytes it has read ahead
    # are otherwise skipped, and what is skipped depends on how the bytes were segmented)
    wraps = [blk for blk, t in b.calls_to(r"BufReader::<R>::(new|with_capacity)$")]
    chk.floor(f"BufReader wrapping the stream [{cfg}]", len(wraps), 1)
    bypass = b.calls_to(r"BufReader::<R>::(get_mut|get_ref|into_inner|get_pin_mut)$")
    chk.ob("R4.one_reader", fn, "the BufReader is never unwrapped / bypassed (get_mut, get_ref, into_inner)", not bypass,
           f"{[t['callee'].split('::')[-1] for _, t in bypass]}: reading the underlying stream skips the bytes the BufReader has already buffered",
           where=b.where(bypass[0][0]) if bypass else "", cfg=cfg)
    nrd = 0
    for blk, t in b.calls():
        if not core.call_matches(t, GOOD_READ) and not core.call_matches(t, BARE_READ):
            continue
        if not any(blk in b.reachable([w]) for w in wraps):
            continue
        nrd += 1
        rd = describe(prog, b, t["args"][0])
        thru = desc_contains(rd, lambda x: x[0] == "call" and core.re.search(r"BufReader::<R>::(new|with_capacity)$", x[1]) is not None) or \
            "BufReader" in (t.get("arg_tys") or [""])[0]
        chk.ob("R4.one_reader", fn, f"{t['callee'].split('::')[-1]}@{describe_short(prog, b, t)} reads through the BufReader", thru,
               f"receiver is {core.short(str(rd))[:120]} ({(t.get('arg_tys') or ['?'])[0]})", where=b.where(blk), cfg=cfg)
    chk.floor(f"reads after the BufReader was created [{cfg}]", nrd, 1)
    found = 0
    for blk, t in b.calls_to(r"read_exact$"):
        buf = describe(prog, b, t["args"][1])
        allocs = [c for c in desc_calls(buf) if c[1].endswith("vec::from_elem") or "with_capacity" in c[1] or c[1].endswith("::resize")]
        if not allocs:
            continue
        found += 1
        n = allocs[0][2][1] if len(allocs[0][2]) > 1 else allocs[0][2][0]
        from_cl = desc_contains(n, lambda x: x[0] == "call" and x[1].endswith("Headers::get") and any(core.is_variant(a, "HeaderType", "ContentLength") for a in x[2]))
        parsed = desc_contains(n, lambda x: x[0] == "call" and x[1].endswith("::parse"))
        chk.ob("R4.body_len", fn, "body buffer length <- parse(headers.get(Content-Length))", from_cl and parsed,
               f"the body buffer is sized by {n}", where=b.where(blk), cfg=cfg)
    chk.floor(f"body read site [{cfg}]", found, 1)
    body_iff_content_length(chk, prog, cfg, b, fn)


def body_iff_content_length(chk, prog, cfg, b, fn, rule="R4.body_iff_cl"):
    """The body is read exactly when a Content-Length field is present: after the header block, the only decisions on the way to
    the body read are the presence of Content-Length and error propagation (not the method, not another header)."""
    reads = []
    for blk, t in b.calls_to(r"read_exact$"):
        buf = describe(prog, b, t["args"][1])
        if [c for c in desc_calls(buf) if c[1].endswith("vec::from_elem") or "with_capacity" in c[1] or c[1].endswith("::resize")]:
            reads.append(blk)
    anchors = [blk for blk, t in b.calls_to(r"Address::from_headers$")]
    if not reads or not anchors:
        chk.ob(rule, fn, "body read / header-block end located", False, f"reads={reads} anchors={anchors}", cfg=cfg)
        return
    after = b.reachable(anchors)
    oks = core.ok_return_blocks(b, "Ok")
    cl_sw = []
    for s_ in sorted(after):
        t = b.term(s_)
        if not t or t["k"] != "switch":
            continue
        info = core.switch_info(prog, b, s_)
        if not info or info.get("kind") != "enum" or "Some" not in info["edges"] or info.get("src") is None:
            continue
        d = core._describe_place(prog, b, info["src"], 0, set())
        calls = [c[1] for c in desc_calls(d)]
        has_cl = desc_contains(d, lambda y: y[0] == "call" and y[1].endswith("Headers::get") and any(core.is_variant(a, "HeaderType", "ContentLength") for a in y[2]))
        if has_cl:
            # (presence-preserving steps are fine: `map` keeps Some as Some, `transpose` / `map_err` / `?` only add the error exit)
            pure = all(core.re.search(r"Headers::(get|new)$|(::|>::)(deref|as_ref|as_str|borrow|clone|into|from)$|Option::<T>::(map|as_ref|as_deref|copied|cloned)$|"
                                      r"Option::<std::result::Result<T, E>>::transpose$|Option::<Result<T, E>>::transpose$|::transpose$|Result::<T, E>::map_err$|ops::Try>::branch$|<impl str>::parse$|FromStr>?::from_str$", c) for c in calls)
            cl_sw.append((s_, info, pure, calls))
    chk.ob(rule, fn, "one test of headers.get(Content-Length) decides whether a body follows", len(cl_sw) == 1, f"{len(cl_sw)} tests", cfg=cfg)
    for s_, info, pure, calls in cl_sw[:1]:
        chk.ob(rule, fn, "the test is on the presence of the field itself (no filter / and_then / method-dependent combinator)", pure,
               f"the tested value goes through {[core.short(c) for c in calls]}: a body announced by Content-Length can then be left unread and is taken for the next request",
               where=b.where(s_), cfg=cfg)
        w = core.must_pass(b, anchors, oks, through_nodes=[s_])
        chk.ob(rule, fn, "every successful parse passes that test", w is None, "a path returns a request without having looked at Content-Length", where=b.where(s_), path=w, cfg=cfg)
        w = core.must_pass(b, [info["edges"]["Some"]], oks, through_nodes=reads, after_from=False)
        chk.ob(rule, fn, "Content-Length present -> the body is read before the request is returned", w is None, "", where=b.where(s_), path=w, cfg=cfg)
        none_t = info["edges"].get("None", info.get("otherwise"))
        seen = b.reachable([none_t], removed_nodes=[s_]) if none_t is not None else set()
        chk.ob(rule, fn, "Content-Length absent -> nothing further is read", not any(r in seen for r in reads), "", where=b.where(s_), cfg=cfg)


def describe_short(prog, b, t):
    d = describe(prog, b, t["args"][0]) if t["args"] else None
    return core_name(d)


def core_name(d):
    if not d:
        return "?"
    if d[0] == "call":
        return d[1].split("::")[-1] + "()"
    if d[0] == "param":
        return f"{d[2]}"
    if d[0] == "local":
        return f"{d[2]}"
    return d[0]


XFF_OK = r"(::|>::)(trim|trim_start|trim_end|deref|as_ref|as_str|borrow|clone|to_owned|to_string|into|from)$"


def xff_elements(chk, prog, cfg, rule, fn="humphrey::http::address::Address::from_headers"):
    """Every element of the X-Forwarded-For list is handed to IpAddr::from_str after whitespace trimming and nothing else:
    every listed address is then recorded (origin_addr / proxies), which is what the blacklist test relies on."""
    b = prog.bodies.get(fn)
    if not b:
        return
    sites = []
    reach = sorted(prog.reach_bodies([fn], extra_edges=lambda bb: [c.path for c in prog.closures_of(bb.path)]))
    for pth in reach:
        c = prog.bodies[pth]
        for blk, t in c.calls_to(r"FromStr::from_str$|IpAddr::from_str$|::parse$"):
            if "IpAddr" in (t.get("resolved") or "") + " ".join(t.get("gargs") or []) + (t.get("callee_args") or ""):
                sites.append((c, blk, t))
    chk.floor(f"X-Forwarded-For element parse site [{cfg}]", len(sites), 1)
    splits = [blk for blk, t in b.calls_to(r"<impl str>::split$")]
    chk.floor(f"X-Forwarded-For list split [{cfg}]", len(splits), 1)
    for blk in splits:
        sep = describe(prog, b, b.term(blk)["args"][1])
        chk.ob(rule, fn, "the list is split at every ','", sep == ("lit", 44) or sep == ("lit", ","), f"separator {sep}", where=b.where(blk), cfg=cfg)
    for c, blk, t in sites:
        d = describe(prog, c, t["args"][0])
        trimmed = desc_contains(d, lambda x: x[0] == "call" and ("::trim" in x[1]))
        # the element may be trimmed in the caller (a `.map(str::trim)` adaptor before the closure)
        if not trimmed and c.kind == "closure":
            for blk2, t2 in b.calls():
                if t2.get("callee", "").endswith("Iterator::map"):
                    a = describe(prog, b, t2["args"][1]) if len(t2["args"]) > 1 else None
                    if a and desc_contains(a, lambda x: x[0] == "fn" and "::trim" in x[1]):
                        trimmed = True
        chk.ob(rule, fn, "IpAddr::from_str(<trimmed list element>)", trimmed,
               f"the X-Forwarded-For element is parsed as {d}: with optional whitespace after the comma (RFC 9110 list syntax) "
               f"the address is silently skipped and origin/proxies are wrong", where=c.where(blk), cfg=cfg)
        odd = sorted(set(x[1] for x in desc_calls(d) if not core.re.search(XFF_OK, x[1])))
        direct = c.path.startswith(fn + "::{closure") or c.path == fn or c.path in (getattr(prog, "extra_closures", {}) or {}).get(fn, [])
        # the element: the adaptor closure's parameter, or (loop form) the item produced by iterating the split
        is_elem = direct and (desc_contains(d, lambda x: x[0] == "param") and c.kind == "closure" or
                              desc_contains(d, lambda x: x[0] == "call" and core.re.search(r"Iterator>?::next$|Iterator::next$", x[1]) is not None and
                                            desc_contains(x[2], lambda z: z[0] == "call" and z[1].endswith("<impl str>::split"))))
        odd = [x for x in odd if not core.re.search(r"Iterator>?::next$|Iterator::next$|IntoIterator>?::into_iter$|<impl str>::split$|Headers::get$|Try>?::branch$", x)]
        chk.ob(rule, fn, "the element reaches IpAddr::from_str through trimming only (no port / bracket / prefix surgery)", not odd and is_elem,
               f"the element is rewritten by {[core.short(x) for x in odd]} in {core.short(c.path)} before it is parsed: addresses that the rewrite mangles "
               "(e.g. `::1` split at its last ':') are silently dropped from origin/proxies, so a blacklisted forwarded-for address is not seen",
               where=c.where(blk), cfg=cfg)
    # nothing but the parse decides which elements are kept
    fm = [(blk, t) for blk, t in b.calls_to(r"Iterator::filter_map$|Iterator::filter$|Iterator::take$|Iterator::skip$|Iterator::take_while$|Iterator::skip_while$|Iterator::step_by$|Iterator::map$|Iterator::flat_map$|Iterator::map_while$|Iterator::scan$")]
    keep = [t["callee"].split("::")[-1] for blk, t in fm]
    loop_ok = False
    if not keep:
        # loop form: every element whose parse is Ok is pushed, as parsed
        for c, blk, t in sites:
            for pb, pt in c.calls_to(r"Vec::<T, A>::push$"):
                v = describe(prog, c, pt["args"][1])
                under_ok = any(lab == "Ok" and desc_contains(dd, lambda y: y[0] == "call" and len(y) > 3 and y[3] == blk) for s_, lab, dd, info in core.guards_dominating(prog, c, pb))
                if under_ok and desc_contains(v, lambda y: y[0] == "call" and len(y) > 3 and y[3] == blk) and not [x for x in desc_calls(v) if not (core.re.search(r"from_str$|::parse$|Iterator>?::next$|IntoIterator>?::into_iter$|<impl str>::split$|Headers::get$|Try>?::branch$", x[1]) or core.re.search(XFF_OK, x[1]))]:
                    loop_ok = True
    chk.ob(rule, fn, "elements are dropped only when IpAddr::from_str rejects them and recorded as parsed (single filter_map over the split, no re-mapping)", keep == ["filter_map"] or loop_ok,
           f"adaptors on the element list: {keep}; loop form: {loop_ok}", cfg=cfg)


def cookies(chk, prog, cfg):
    """R7: cookies are the `;`-separated pieces of the Cookie field, each split at its first `=` and trimmed; get_cookie(name)
    is the first of those whose name equals `name` as a whole string (humphrey-auth authenticates through it)."""
    from . import c17
    gc = prog.bodies.get("humphrey::http::request::Request::get_cookies")
    g1 = prog.bodies.get("humphrey::http::request::Request::get_cookie")
    chk.floor(f"get_cookies / get_cookie [{cfg}]", (1 if gc else 0) + (1 if g1 else 0), 2)
    if not gc or not g1:
        return
    fam = shared.family(prog, gc.path)
    src = [(bb, blk, t) for bb in fam for blk, t in bb.calls_to(r"Headers::get$")]
    ok = any(any(core.is_variant(a, "HeaderType", "Cookie") for a in [describe(prog, bb, x) for x in t["args"]]) for bb, blk, t in src)
    chk.ob("R7.cookies", gc.path, "the list is read from the Cookie header field", ok, "", cfg=cfg)
    sp = [(bb, blk, t) for bb in fam for blk, t in bb.calls_to(r"<impl str>::(split|splitn|rsplit|split_terminator|split_whitespace)$")]
    chk.ob("R7.cookies", gc.path, "pairs are separated at every ';'", len(sp) == 1 and sp[0][2]["callee"].endswith("::split") and describe(prog, sp[0][0], sp[0][2]["args"][1]) == ("lit", 59),
           f"{[(core.short(t['callee']), describe(prog, bb, t['args'][1])) for bb, blk, t in sp]}", cfg=cfg)
    news = [(bb, blk, t) for bb in fam for blk, t in bb.calls_to(r"cookie::Cookie::new$")]
    chk.floor(f"Cookie::new in get_cookies [{cfg}]", len(news), 1)
    for bb, blk, t in news:
        for idx, what in ((0, "name"), (1, "value")):
            d = describe(prog, bb, t["args"][idx])
            so = [c for c in desc_calls(d) if c[1].endswith("::split_once")]
            first_eq = len(so) >= 1 and so[0][2][1] == ("lit", 61)
            # what is done to the half after the split (the pair itself may come from a closure parameter or from the loop over `split(';')`)
            def above_split(y, acc):
                if isinstance(y, tuple):
                    if y and y[0] == "call":
                        acc.append(y[1])
                        if y[1].endswith("::split_once"):
                            for a_ in y[2][1:]:
                                above_split(a_, acc)
                            return acc
                    for z in y:
                        above_split(z, acc)
                elif isinstance(y, list):
                    for z in y:
                        above_split(z, acc)
                return acc
            odd = sorted(set(c for c in above_split(d, []) if not core.re.search(r"(::|>::)(trim|trim_start|trim_end|split_once|branch|deref|as_ref|as_str|borrow|to_string|to_owned|clone|into|from)$", c)))
            half = desc_contains(d, lambda y: y[0] == "field" and y[2] == idx and desc_contains(y[1], lambda z: z[0] == "call" and z[1].endswith("::split_once")))
            chk.ob("R7.cookies", gc.path, f"cookie {what} = trimmed {'left' if idx == 0 else 'right'} half of the pair split at its first '='", first_eq and half and not odd,
                   f"{what} = {core.short(str(d))[:140]}; other transformations: {[core.short(x) for x in odd]}", where=bb.where(blk), cfg=cfg)
    keep = [t["callee"].split("::")[-1] for bb in fam for blk, t in bb.calls_to(r"Iterator::(filter_map|filter|take|skip|take_while|skip_while|step_by|rev)$")]
    # the only conditions under which a piece becomes a cookie: the header exists, the piece exists, and it contains '=' (split_once is Some)
    extra = []
    for bb, blk, t in news:
        for s_, lab, gd, info in core.guards_dominating(prog, bb, blk):
            ok_g = isinstance(gd, tuple) and gd[0] == "call" and (
                (lab in ("Some", "Continue") and core.re.search(r"::split_once$|Headers::get$|Iterator>?::next$|ops::Try>::branch$", gd[1])) or
                (lab in ("true", "false") and core.re.search(r"::(is_some|is_none)$", gd[1]) and desc_contains(gd, lambda y: y[0] == "call" and core.re.search(r"::split_once$|Headers::get$", y[1]) is not None)))
            if not ok_g:
                extra.append((lab, core.short(str(gd))[:60]))
    chk.ob("R7.cookies", gc.path, "pieces are dropped only when they contain no '='", keep in (["filter_map"], []) and not extra, f"adaptors: {keep}; other conditions: {extra}", cfg=cfg)
    # get_cookie
    finds = g1.calls_to(r"Iterator>::find$|Iterator::find$")
    from_list = bool(finds) and desc_contains(describe(prog, g1, finds[0][1]["args"][0]), lambda y: y[0] == "call" and y[1].endswith("Request::get_cookies"))
    if finds and not from_list:
        # both go through one shared iterator (`self.cookie_pairs()`, inlined): get_cookie searches the very chain that get_cookies collects
        def shape(d):
            if isinstance(d, tuple):
                if d and d[0] == "call":
                    return ("call", d[1], [shape(x) for x in d[2]])
                if d and d[0] == "param":
                    return ("param", d[1])
                return tuple(shape(x) for x in d)
            if isinstance(d, list):
                return [shape(x) for x in d]
            return d
        gret = describe(prog, gc, 0)
        if gret[0] == "call" and gret[1].endswith("::collect") and gret[2]:
            from_list = shape(gret[2][0]) == shape(describe(prog, g1, finds[0][1]["args"][0]))
    rev = g1.calls_to(r"Iterator::rev$|Iterator::last$|Iterator::max_by|Iterator::min_by")
    loop_ok = None
    if not finds:
        # loop form: `for cookie in self.get_cookies() { if cookie.name == name { return Some(cookie) } } None`
        nx = [(blk, t) for blk, t in g1.calls_to(r"IntoIter<T, A> as std::iter::Iterator>::next$|Iter<'a, T> as std::iter::Iterator>::next$")
              if desc_contains(describe(prog, g1, t["args"][0]), lambda y: y[0] == "call" and y[1].endswith("Request::get_cookies"))]
        somes, nones, bad_ret = [], 0, []
        for i_, blk_ in enumerate(g1.blocks):
            for s_ in blk_["stmts"]:
                if "pl" in s_ and s_["pl"]["l"] == 0 and not s_["pl"]["p"]:
                    rv_ = s_["rv"]
                    if rv_["k"] == "agg" and rv_.get("variant") == "None":
                        nones += 1
                    elif rv_["k"] == "agg" and rv_.get("variant") == "Some":
                        somes.append((i_, describe(prog, g1, rv_["ops"][0])))
                    else:
                        bad_ret.append(i_)
        loop_ok = len(nx) == 1 and len(somes) >= 1 and not bad_ret and nones >= 1
        st_ = prog.structs.get("humphrey::http::cookie::Cookie", {}).get("fields", [])
        ni_ = next((i for i, x in enumerate(st_) if x["name"] == "name"), None)
        eq_ok = True
        for i_, elem in somes:
            is_elem = elem[0] == "field" and elem[2] == 0 and elem[1][0] == "call" and len(elem[1]) > 3 and nx and elem[1][3] == nx[0][0]
            gs_ = core.guards_dominating(prog, g1, i_)
            eq = False
            for s2, lab, gd, info in gs_:
                if lab == "true" and isinstance(gd, tuple) and gd[0] == "call" and core.re.search(r"PartialEq.*::eq$", gd[1]) and len(gd[2]) == 2:
                    a_, b__ = gd[2]
                    for x_, y_ in ((a_, b__), (b__, a_)):
                        if desc_contains(x_, lambda z: z[0] == "field" and z[2] == ni_ and z[1] == elem) and desc_contains(y_, lambda z: z[0] == "param" and z[2] == "name") \
                                and not [c for c in desc_calls(x_) + desc_calls(y_) if not core.re.search(r"(::|>::)(deref|as_ref|as_str|borrow|next|into_iter|get_cookies)$", c[1])]:
                            eq = True
            loop_ok = loop_ok and is_elem
            eq_ok = eq_ok and eq
        chk.ob("R7.cookie_lookup", g1.path, "a cookie matches only if its name == the requested name (whole-string equality)", eq_ok and bool(somes),
               "the returned cookie is not guarded by cookie.name == name", cfg=cfg)
    chk.ob("R7.cookie_lookup", g1.path, "get_cookie searches the list produced by get_cookies, front to back", (from_list and len(finds) == 1 and not rev) or (bool(loop_ok) and not rev),
           "get_cookie does not go through get_cookies(): the two can disagree (e.g. a substring search matches `XToken=..` for `Token`)", cfg=cfg)
    d0 = describe(prog, g1, 0)
    chk.ob("R7.cookie_lookup", g1.path, "get_cookie returns what find() returned", (d0[0] == "call" and d0[1].endswith("::find")) or bool(loop_ok), f"{core.short(str(d0))[:120]}", cfg=cfg)
    st = prog.structs.get("humphrey::http::cookie::Cookie", {}).get("fields", [])
    ni = next((i for i, x in enumerate(st) if x["name"] == "name"), None)
    for blk, t in finds:
        dd = describe(prog, g1, t["args"][-1])
        for y in c17._nodes(dd):
            if y[0] == "closure" and y[1] in prog.bodies:
                cb = prog.bodies[y[1]]
                stored = lambda body, d: (not desc_contains(d, lambda z: z[0] == "upvar")) and desc_contains(d, lambda z: z[0] == "field" and z[2] == ni and z[1][0] == "param" and "Cookie" in (body.local_ty(z[1][1]) or ""))
                pres = lambda body, d: desc_contains(d, lambda z: z[0] == "upvar") and not stored(body, d)
                ok, why = c17.implies_equality(prog, cb, 0, stored, pres)
                chk.ob("R7.cookie_lookup", g1.path, "a cookie matches only if its name == the requested name (whole-string equality)", ok, why, where=f"{cb.file}:{cb.line}", cfg=cfg)


def body_bytes(chk, prog, cfg):
    """R9.body_bytes: a body is arbitrary bytes.  The request serialiser appends `content` as the bytes it holds: nothing on the way from the
    field to the output decodes it as text (from_utf8_lossy substitutes U+FFFD for every byte that is not UTF-8, while Content-Length keeps
    the original length), and the output is a byte vector, not a String."""
    fs = prog.impl_fn(r"^<std::vec::Vec<u8> as std::convert::From<humphrey::http::request::Request>>$", "from")
    chk.floor(f"From<Request> for Vec<u8> [{cfg}]", len(fs), 1)
    if not fs:
        return
    b = prog.bodies[fs[0]]
    st = [x["name"] for x in prog.structs.get("humphrey::http::request::Request", {}).get("fields", [])]
    ci = st.index("content") if "content" in st else None
    bad = []
    n = 0
    for bb in shared.family(prog, b.path):
        for blk, t in bb.calls():
            n += 1
            if core.call_matches(t, r"(from_utf8_lossy|from_utf8_unchecked|String::from_utf8|str::from_utf8|from_utf8)$"):
                args = [describe(prog, bb, a) for a in t["args"]]
                if ci is None or any(desc_contains(a, lambda y: y[0] == "field" and y[2] == ci) or desc_contains(a, lambda y: y[0] == "param" and "content" in str(y[-1])) for a in args):
                    bad.append((bb, blk, t["callee"]))
    chk.ob("R9.body_bytes", b.path, "the body is appended as bytes (never decoded as text on the way out)", not bad,
           f"{[core.short(c) for _, _, c in bad]} is applied to the body: bytes that are not valid UTF-8 are replaced, so a binary body relayed upstream is not the body received "
           "(and no longer matches Content-Length)", where=bad[0][0].where(bad[0][1]) if bad else "", cfg=cfg)
    chk.floor(f"calls examined in the request serialiser [{cfg}]", n, 5)


def address(chk, prog, cfg):
    fn = "humphrey::http::address::Address::from_headers"
    b = prog.bodies.get(fn)
    chk.floor("Address::from_headers", 1 if b else 0, 1)
    if not b:
        return
    xff_elements(chk, prog, cfg, "R5.trim")
    # R6: origin <- last element; peer appended to proxies; port from the peer
    st = prog.structs["humphrey::http::address::Address"]["fields"]
    idx = {x["name"]: i for i, x in enumerate(st)}
    aggs = []
    for blk_i, blk in enumerate(b.blocks):
        for s in blk["stmts"]:
            rv = s.get("rv")
            if rv and rv.get("k") == "agg" and rv.get("adt", "").endswith("address::Address"):
                aggs.append((blk_i, rv))
    chk.floor("Address construction in from_headers", len(aggs), 1)
    for blk_i, rv in aggs:
        origin = describe(prog, b, rv["ops"][idx["origin_addr"]])
        port = describe(prog, b, rv["ops"][idx["port"]])
        chk.ob("R6.origin", fn, "origin_addr <- last listed address", desc_contains(origin, lambda x: x[0] == "call" and core.re.search(r"(<impl \[T\]>::last|Vec::<T, A>::pop|<impl \[T\]>::split_last)$", x[1]) is not None),
               f"origin is {origin}", where=b.where(blk_i), cfg=cfg)
        chk.ob("R6.port", fn, "port <- peer socket", desc_contains(port, lambda x: x[0] == "call" and x[1].endswith("SocketAddr::port")),
               f"port is {port}", where=b.where(blk_i), cfg=cfg)
    pushes = [(blk, t) for blk, t in b.calls_to(r"Vec::<T, A>::push$")]
    ok = any(desc_contains(describe(prog, b, t["args"][1]), lambda x: x[0] == "call" and x[1].endswith("SocketAddr::ip")) for blk, t in pushes)
    chk.ob("R6.peer", fn, "peer address appended to proxies", ok, "the connecting peer is not recorded as the last proxy", cfg=cfg)
    # "earlier ones plus the peer = proxies": apart from taking off the last element (the origin) the list of forwarded addresses is kept as listed
    REMOVERS = r"(Vec::<T, A>::(retain|retain_mut|dedup|dedup_by|dedup_by_key|drain|swap_remove|clear|insert|split_off|extract_if|splice|remove|truncate)|<impl \[T\]>::(sort|sort_by|sort_by_key|sort_unstable|sort_unstable_by|sort_unstable_by_key|sort_by_cached_key|reverse|rotate_left|rotate_right|swap|fill|copy_from_slice|select_nth_unstable))$"
    n = 0
    for blk, t in b.calls():
        tys = t.get("arg_tys") or []
        if tys and "IpAddr" in tys[0] and core.call_matches(t, r"(Vec::<T, A>::pop|<impl \[T\]>::(split_last|last))$"):
            n += 1
        if not tys or "IpAddr" not in tys[0] or not core.call_matches(t, REMOVERS):
            continue
        n += 1
        last = t["callee"].rsplit("::", 1)[-1]
        ok = False
        why = f"{last} on the list of forwarded addresses"
        if last in ("remove", "truncate") and len(t["args"]) > 1:
            ix_ = describe(prog, b, t["args"][1])
            from .. import panics
            ix_ = panics._strip(ix_)
            # len - 1 (checked or plain subtraction)
            ok = isinstance(ix_, tuple) and (ix_[0] == "field" and isinstance(ix_[1], tuple) and ix_[1][0] == "bin" and ix_[1][1].startswith("Sub") and
                                             desc_contains(ix_[1][2], lambda y: y[0] == "call" and y[1].endswith("::len")) and ix_[1][3] == ("lit", 1)
                                             or ix_[0] == "bin" and ix_[1].startswith("Sub") and desc_contains(ix_[2], lambda y: y[0] == "call" and y[1].endswith("::len")) and ix_[3] == ("lit", 1)
                                             or ix_[0] == "call" and core.re.search(r"::(saturating_sub|wrapping_sub)$", ix_[1]) is not None and desc_contains(ix_[2][0], lambda y: y[0] == "call" and y[1].endswith("::len")) and ix_[2][1] == ("lit", 1))
            why = f"{last}({panics.short_desc(ix_)})"
        chk.ob("R6.proxies_kept", fn, "only the last listed address (the origin) is taken off the forwarded list", ok,
               f"{why}: addresses other than the last one are removed / moved, so `proxies` is no longer the earlier addresses plus the peer "
               "(a chain that repeats an address, e.g. `1.1.1.1, 2.2.2.2, 1.1.1.1`, loses hops)", where=b.where(blk), cfg=cfg)
    chk.floor(f"sites that take the origin off the forwarded list [{cfg}]", n, 1)


def run(chk):
    chk.explanation = (
        "Static decision of structural clauses of C02 on both parsers (sync [A], tokio [B]): method and header-name tables "
        "are inverse bijections with case-insensitive header matching (R1, R2); header storage/serialisation keeps the "
        "relative order of same-named fields (R3); the parser reads only through read_exact/read_until so results cannot "
        "depend on segmentation, and the body length is the parsed Content-Length (R4); X-Forwarded-For elements are "
        "trimmed, origin = last listed, peer appended (R5, R6).")
    chk.not_decided = "that the parsed fields equal what the bytes denote; cookies; the round-trip equality itself"
    chk.assumptions = ["rustc type checking / MIR construction / callee resolution",
                       "read_exact / read_until deliver the same bytes under any segmentation (std / tokio contract)"]
    for cfg in ("A", "B"):
        prog = chk.use(core.load(cfg, fresh=(chk.tier == "thorough")))
        method_table(chk, prog, cfg)
        header_table(chk, prog, cfg)
        shared.header_order(chk, prog, "R3", cfg=cfg)
        shared.target_split(chk, prog, "R8.target_split", cfg=cfg)
        shared.header_line_split(chk, prog, "R8.header_split", "humphrey::http::request::Request::from_stream_inner", cfg=cfg)
        reads(chk, prog, cfg)
        shared.every_header_line_stored(chk, prog, "R8.every_header_stored", "humphrey::http::request::Request::from_stream_inner", cfg=cfg)
        shared.request_address_fixed(chk, prog, "R6.address_of_this_request", cfg=cfg)
        from . import shared as _sh
        _sh.start_line_exact(chk, prog, "R3.start_line", cfg=cfg)
        body_bytes(chk, prog, cfg)
        address(chk, prog, cfg)
        cookies(chk, prog, cfg)

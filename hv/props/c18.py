"""C18 — home-grown SHA-1, Base64, percent-encoding and HTTP dates are exact (structural clauses: constants, tables, gates)."""
import json
import os

from .. import core, tables, panics, fmt
from ..core import describe, desc_contains, hir_walk, hir_strip, hir_value
from . import c03

ORACLES = os.path.join(os.path.dirname(os.path.dirname(os.path.dirname(os.path.abspath(__file__)))), "oracles")


def eval_bits(e, env):
    """Evaluate a HIR boolean-function expression over 1-bit values."""
    e = hir_strip(e)
    k = e.get("e")
    if k == "Path" and e.get("res") == "Local":
        return env.get(e.get("name"))
    if k == "Binary":
        a, b = eval_bits(e["l"], env), eval_bits(e["r"], env)
        if a is None or b is None:
            return None
        return {"BitAnd": a & b, "BitOr": a | b, "BitXor": a ^ b}.get(e["op"])
    if k == "Unary" and e.get("op") == "Not":
        a = eval_bits(e["x"], env)
        return None if a is None else a ^ 1
    if k == "Tup":
        return None
    return None


def truth_table(e):
    out = []
    for b in (0, 1):
        for c in (0, 1):
            for d in (0, 1):
                out.append(eval_bits(e, {"b": b, "c": c, "d": d}))
    return out


REF = {
    "ch": [(b & c) | ((b ^ 1) & d) for b in (0, 1) for c in (0, 1) for d in (0, 1)],
    "parity": [b ^ c ^ d for b in (0, 1) for c in (0, 1) for d in (0, 1)],
    "maj": [(b & c) | (b & d) | (c & d) for b in (0, 1) for c in (0, 1) for d in (0, 1)],
}


def sha1(chk, prog, orc):
    fs = [p for p in prog.hir if p.endswith("SHA1Hash>::hash")]
    chk.floor("SHA-1 hash fn", len(fs), 1)
    if not fs:
        return
    f = fs[0]
    h = prog.hir[f]["body"]
    # initial values: `let mut hN: u32 = LIT` in order
    inits = []
    for n in hir_walk(h):
        if n.get("s") == "Let" and n.get("pat", {}).get("p") == "Bind" and str(n["pat"].get("name", "")).startswith("h") and n["pat"]["name"][1:].isdigit():
            v = hir_value(n.get("init")) if n.get("init") else None
            if v and v[0] == "lit":
                inits.append((n["pat"]["name"], v[1]))
    inits.sort()
    got = [int(v) if not isinstance(v, str) else int(v) for _, v in inits]
    chk.ob("R1.sha1", f, "initial hash values H0..H4", got == orc["sha1_init"], f"{[hex(x) for x in got]}")
    ms = [m for m in core.hir_find(h, "Match") if m.get("scrut_ty") == "usize"]
    chk.floor("SHA-1 round table", len(ms), 1)
    if ms:
        rows = {}
        for keys, guard, val, line, arm in core.match_table(ms[0]):
            for k in keys:
                if k[0] == "range":
                    body = hir_strip(arm["body"])
                    if body.get("e") == "Tup" and len(body["xs"]) == 2:
                        kv = hir_value(body["xs"][1])
                        rows[f"{k[1]}-{k[2]}"] = (truth_table(body["xs"][0]), int(kv[1]) if kv[0] == "lit" else None)
        for rng, kconst in orc["sha1_k"].items():
            tt, kk = rows.get(rng, (None, None))
            chk.ob("R1.sha1", f, f"rounds {rng}: K = 0x{kconst:08X}", kk == kconst, f"K is {hex(kk) if kk is not None else None}")
            chk.ob("R1.sha1", f, f"rounds {rng}: f = {orc['sha1_f'][rng]}", tt == REF[orc["sha1_f"][rng]], f"truth table {tt}")
        chk.ob("R1.sha1", f, "round ranges are exactly 0-19, 20-39, 40-59, 60-79", sorted(rows) == sorted(orc["sha1_k"]), f"{sorted(rows)}")
    b = prog.bodies.get(f)
    if b:
        rots = sorted(core.describe(prog, b, t["args"][1])[1] for blk, t in b.calls_to(r"num::<impl u32>::rotate_left$"))
        chk.ob("R1.sha1", f, "rotations are by 1 (schedule), 5 and 30 (round)", rots == [1, 5, 30], f"{rots}")
        be = b.calls_to(r"num::<impl u32>::from_(be|le)_bytes$") + [x for c in prog.all_closures_of(f) for x in c.calls_to(r"num::<impl u32>::to_(be|le)_bytes$")] + b.calls_to(r"num::<impl u(size|64)>::to_(be|le)_bytes$")
        chk.ob("R1.sha1", f, "words, length and digest are big-endian", all("_be_" in t["callee"] for _, t in be) and len(be) >= 3, f"{[t['callee'].split('::')[-1] for _, t in be]}")
        pads = [s for blk in b.blocks for s in blk["stmts"] if "rv" in s and s["rv"]["k"] == "use" and s["rv"]["o"].get("v") == 128 and s["pl"]["p"]]
        chk.ob("R1.sha1", f, "padding starts with the byte 0x80", len(pads) >= 1, "")


def sha1_padding(chk, prog, rule="R1.sha1_padding"):
    """RFC 3174 section 4 padding, for every input length L (R-ARITH, quasi-linear case split):
    padded length = 64 * ceil((L + 9) / 64); message[0..L] = input; message[L] = 0x80; the last 8 bytes are the big-endian
    bit count 8 * L; and the block loop runs padded/64 times."""
    from .. import qlin, panics
    fs = [p for p in prog.bodies if p.endswith("SHA1Hash>::hash")]
    if not fs:
        return
    f = fs[0]
    b = prog.bodies[f]

    def is_len(d):
        d = panics._strip(d)
        return isinstance(d, tuple) and d[0] == "call" and d[1].endswith("::len") and \
            desc_contains(d, lambda y: y[0] == "param" and y[1] == 1) and not desc_contains(d, lambda y: y[0] == "call" and y[1].endswith("from_elem"))

    def q(d):
        return qlin.from_desc(d, is_len, strip=panics._strip)

    ref_len = qlin.mul(qlin.div(qlin.add(qlin.var(), qlin.const(72)), 64), 64)

    def decide(site, d, ref, why, where=""):
        try:
            e = q(d)
            ok, wit = qlin.equal_forall(e, ref)
            detail = "" if ok else f"{e.text} differs from {ref.text} at L = {wit}: {why}"
            if not ok and isinstance(wit, int):
                try:
                    detail += f" (computed {e(wit)}, required {ref(wit)})"
                except qlin.NotQuasiLinear:
                    pass
        except qlin.NotQuasiLinear as x:
            ok, detail = False, f"not a quasi-linear function of the input length: {x}"
        chk.ob(rule, f, site, ok, detail, where=where)

    fe = b.calls_to(r"vec::from_elem$")
    chk.floor("SHA-1 message buffer allocation", len(fe), 1)
    for blk, t in fe:
        decide("padded length == 64 * ceil((L + 9) / 64) for every input length L", core.describe(prog, b, t["args"][1]), ref_len,
               "a different message is hashed for inputs of that length (wrong digest, wrong Sec-WebSocket-Accept)", b.where(blk))
    # writes into the buffer
    n = 0
    for blk, t in b.calls_to(r"IndexMut(<[^>]*>)?(>)?::index_mut$"):
        d0 = core.describe(prog, b, t["args"][0])
        if not desc_contains(d0, lambda y: y[0] == "call" and y[1].endswith("from_elem")):
            continue
        ix = core.describe(prog, b, t["args"][1])
        n += 1
        if ix[0] == "variant" and ix[2] == "Range":
            decide("message[a..b] = input: a == 0", ix[3][0], qlin.const(0), "the input is copied to the wrong offset", b.where(blk))
            decide("message[a..b] = input: b == L", ix[3][1], qlin.var(), "the input is copied only in part", b.where(blk))
        elif ix[0] == "variant" and ix[2] == "RangeFrom":
            decide("the bit count occupies the last 8 bytes: start == padded length - 8", ix[3][0], qlin.sub(ref_len, qlin.const(8)),
                   "the length field is written at the wrong place", b.where(blk))
        else:
            decide("the 0x80 marker is written at index L", ix, qlin.var(), "the padding marker does not follow the input", b.where(blk))
    chk.floor("SHA-1 buffer writes (input, marker, bit count)", n, 3)
    for blk, t in b.calls_to(r"num::<impl u(size|64)>::to_(be|le)_bytes$"):
        decide("the bit count written is 8 * L", core.describe(prog, b, t["args"][0]), qlin.mul(qlin.var(), 8), "the encoded message length is wrong", b.where(blk))
        chk.ob(rule, f, "the bit count is 8 bytes wide", core.re.search(r"impl u64|impl usize", t["callee"]) is not None, t["callee"])
    for blk, t in b.calls_to(r"IntoIterator>::into_iter$|IntoIterator::into_iter$"):
        d = core.describe(prog, b, t["args"][0])
        if d[0] == "variant" and d[2] == "Range" and desc_contains(d[3][1], lambda y: y[0] == "call" and y[1].endswith("::len")):
            decide("block loop upper bound == padded length / 64", d[3][1], qlin.div(ref_len, 64), "not every block is compressed", b.where(blk))
            decide("block loop starts at 0", d[3][0], qlin.const(0), "", b.where(blk))


def sha1_structure(chk, prog, orc, rule="R1.sha1_structure"):
    """RFC 3174 section 6.1, pinned by data flow (no names, no positions): W[0..15] are the big-endian words of the block;
    W[t] = rotl1(W[t-3] ^ W[t-8] ^ W[t-14] ^ W[t-16]) for t in 16..80; A..E start from H0..H4; each round sets
    TEMP = rotl5(A) + f + E + K + W[t], E=D, D=C, C=rotl30(B), B=A, A=TEMP; H_k += (A..E)_k after the 80 rounds; the digest is
    H0..H4 big-endian in order.  Together with the padding (R1.sha1_padding) and the f/K table (R1.sha1) this is the whole algorithm."""
    from .. import wordsym as ws
    from .c01 import some_edge_of
    fs = [p for p in prog.bodies if p.endswith("SHA1Hash>::hash")]
    if not fs:
        return
    fn = fs[0]
    b = prog.bodies[fn]

    def ob(site, ok, detail="", where=""):
        chk.ob(rule, fn, site, ok, detail, where=where or b.file)

    def root_copy(l, depth=0):
        ds = b.defs().get(l, [])
        if depth < 8 and len(ds) == 1 and ds[0][2] == "assign" and not ds[0][3]["pl"]["p"] and ds[0][3]["rv"]["k"] in ("use", "cast"):
            o = ds[0][3]["rv"]["o"]
            if o.get("pl") and not o["pl"]["p"]:
                return root_copy(o["pl"]["l"], depth + 1)
        return l

    # H0..H4 by their initial constants
    H = []
    for v in orc["sha1_init"]:
        ls = [l for l, loc in enumerate(b.locals) if loc["ty"] == "u32" and
              any(d[2] == "assign" and not d[3]["pl"]["p"] and d[3]["rv"]["k"] == "use" and d[3]["rv"]["o"].get("v") == v for d in b.defs().get(l, []))]
        H.append(ls[0] if len(ls) == 1 else None)
    ob("five chaining variables initialised with the RFC constants", None not in H and len(set(H)) == 5, f"{H}")
    if None in H:
        return
    # H_k <- wrapping_add(H_k, X_k)
    X = []
    for k, h in enumerate(H):
        upd = [d for d in b.defs()[h] if not (d[2] == "assign" and d[3]["rv"]["k"] == "use" and d[3]["rv"]["o"].get("k") == "const")]
        x = None
        if len(upd) == 1:
            src = None
            if upd[0][2] == "assign" and upd[0][3]["rv"]["k"] == "use" and upd[0][3]["rv"]["o"].get("pl"):
                src = upd[0][3]["rv"]["o"]["pl"]["l"]
            elif upd[0][2] == "call":
                src = h
            for d in b.defs().get(src, []) if src is not None else []:
                if d[2] == "call" and d[3]["callee"].endswith("wrapping_add"):
                    args = [root_copy(core.op_local(a)) for a in d[3]["args"]]
                    if h in args and len(args) == 2:
                        x = [a for a in args if a != h]
                        x = x[0] if len(x) == 1 else None
        X.append(x)
    ob("after the rounds H_k = H_k + (working variable k), k = 0..4 (wrapping)", None not in X and len(set(X)) == 5,
       f"working variables {[b.local_name(x) if x is not None else None for x in X]}")
    if None in X or len(set(X)) != 5:
        return
    # A..E <- H0..H4 at the start of each block
    init_ok = all(any(d[2] == "assign" and d[3]["rv"]["k"] == "use" and root_copy(core.op_local(d[3]["rv"]["o"]) if core.op_local(d[3]["rv"]["o"]) is not None else -1) == H[k]
                      for d in b.defs()[X[k]]) for k in range(5))
    ob("working variables start each block as copies of H0..H4, in order", init_ok)
    # ---- the round
    r5 = [blk for blk, t in b.calls_to(r"num::<impl u32>::rotate_left$") if core.describe(prog, b, t["args"][1]) == ("lit", 5)]
    chk.floor("SHA-1 round (rotate_left(.., 5) site)", len(r5), 1)
    if r5:
        names = "ABCDE"
        env = {X[k]: ("v", names[k]) for k in range(5)}
        w = ws.Walk(prog, b, env=env)
        w.run(r5[0])
        got = [w.env.get(X[k]) for k in range(5)]
        leaves = ws.flatten(got[0], callname="wrapping_add") if got[0] else []
        rot = ("call", "rotate_left", [("v", "A"), ("lit", 5)])
        rest = [x for x in leaves if x != rot and x != ("v", "E")]
        ob("TEMP is the wrapping sum of exactly five terms including rotl5(A) and E", len(leaves) == 5 and rot in leaves and ("v", "E") in leaves,
           f"TEMP = {ws.show(got[0]) if got[0] else None}", where=b.where(r5[0]))
        # the other three: f, K (the two halves of the per-round table entry) and W[t]
        fk = [x for x in rest if x[0] == "v"]
        tup = set()
        halves = set()
        word = None
        def local_named(nm):
            return next((i for i, loc in enumerate(b.locals) if (loc.get("name") or f"_{i}") == nm), None)
        for x in rest:
            if x[0] == "field" and x[1][0] == "v":
                tl = local_named(x[1][1])
                if tl is not None and "(u32, u32)" in b.local_ty(tl):
                    tup.add(tl)
                    halves.add(x[2])
                continue
            l = local_named(x[1]) if x[0] == "v" else None
            if l is None:
                continue
            ds = b.defs().get(l, [])
            if len(ds) == 1 and ds[0][2] == "assign" and ds[0][3]["rv"]["k"] == "use" and ds[0][3]["rv"]["o"].get("pl") and \
                    [e[0] for e in ds[0][3]["rv"]["o"]["pl"]["p"]] == ["f"] and "(u32, u32)" in b.local_ty(ds[0][3]["rv"]["o"]["pl"]["l"]):
                tup.add(ds[0][3]["rv"]["o"]["pl"]["l"])
                halves.add(ds[0][3]["rv"]["o"]["pl"]["p"][0][1])
            else:
                dd = core.describe(prog, b, l)
                if desc_contains(dd, lambda y: y[0] == "call" and y[1].endswith("::next")):
                    word = dd
        ob("the remaining addends are f and K of the round's table entry", len(tup) == 1 and halves == {0, 1}, f"{[ws.show(x) for x in rest]}")
        chunk_l = next((l for l, loc in enumerate(b.locals) if loc["ty"] == "[u32; 80]"), None)
        w_ok = word is not None and desc_contains(word, lambda y: y[0] == "call" and y[1].endswith("::enumerate")) and \
            desc_contains(word, lambda y: y[0] == "call" and y[1].endswith("<impl [T]>::iter"))
        ob("... and W[t], taken from the 80-word schedule in order (iter().enumerate())", w_ok, f"{panics.short_desc(word) if word else None}")
        ob("B' = A", got[1] == ("v", "A"), f"B' = {ws.show(got[1]) if got[1] else None}")
        ob("C' = rotl30(B)", got[2] == ("call", "rotate_left", [("v", "B"), ("lit", 30)]), f"C' = {ws.show(got[2]) if got[2] else None}")
        ob("D' = C", got[3] == ("v", "C"), f"D' = {ws.show(got[3]) if got[3] else None}")
        ob("E' = D", got[4] == ("v", "D"), f"E' = {ws.show(got[4]) if got[4] else None}")
    # ---- f / K pairing, by data flow: each table entry's boolean function is over B, C, D and goes with its own constant
    def tt(term):
        def ev(t, env):
            if t[0] == "v":
                return env.get(t[1])
            if t[0] == "op" and t[1] in ("BitAnd", "BitOr", "BitXor"):
                x, y = ev(t[2], env), ev(t[3], env)
                if x is None or y is None:
                    return None
                return {"BitAnd": x & y, "BitOr": x | y, "BitXor": x ^ y}[t[1]]
            if t[0] == "not":
                x = ev(t[1], env)
                return None if x is None else x ^ 1
            return None
        return [ev(term, {"B": bb, "C": cc, "D": dd}) for bb in (0, 1) for cc in (0, 1) for dd in (0, 1)]
    entries = [(i, st["pl"]["l"]) for i, blk in enumerate(b.blocks) for st in blk["stmts"]
               if st.get("rv") and st["rv"].get("k") == "agg" and st["rv"].get("agg") == "tuple" and len(st["rv"]["ops"]) == 2 and "(u32, u32)" in b.local_ty(st["pl"]["l"])]
    chk.floor("SHA-1 f/K table entries", len(entries), 4)
    by_k = {}
    for kname, kv in orc["sha1_k"].items():
        by_k.setdefault(kv, []).append(orc["sha1_f"][kname])
    seen_k = []
    for blk_i, tl in entries:
        w2 = ws.Walk(prog, b, env={X[k]: ("v", "ABCDE"[k]) for k in range(5)})
        w2.run(blk_i)
        tv = w2.env.get(tl)
        if not tv or tv[0] != "tuple":
            ob("table entry is a (f, K) pair", False, f"{tv}", where=b.where(blk_i))
            continue
        fterm, kterm = tv[1]
        kval = kterm[1] if kterm[0] == "lit" else None
        seen_k.append(kval)
        want = by_k.get(kval)
        table = tt(fterm)
        ob(f"K = 0x{(kval or 0):08X} is paired with f = {want[0] if want else '?'} over (B, C, D)", bool(want) and table == REF[want[0]],
           f"f = {ws.show(fterm)} has truth table {table}", where=b.where(blk_i))
    ob("the four round constants each occur once", sorted(k for k in seen_k if k is not None) == sorted(set(orc["sha1_k"].values())) and len(seen_k) == 4, f"{seen_k}")
    # ---- the schedule
    chunk_l = next((l for l, loc in enumerate(b.locals) if loc["ty"] == "[u32; 80]"), None)
    chk.floor("SHA-1 80-word schedule array", 1 if chunk_l is not None else 0, 1)
    nexts = {}
    for blk, t in b.calls_to(r"Iterator>::next$|Iterator::next$"):
        d = core.describe(prog, b, t["args"][0])
        for c in core.desc_calls(d):
            if c[1].endswith("into_iter") and c[2] and c[2][0][0] == "variant" and c[2][0][2] == "Range":
                lo, hi = c[2][0][3]
                if lo[0] == "lit" and hi[0] == "lit":
                    nexts[(lo[1], hi[1])] = blk
    ob("schedule loops: t in 0..16 (load) and 16..80 (expand)", (0, 16) in nexts and (16, 80) in nexts, f"{sorted(nexts)}")
    for rng, what in (((16, 80), "expand"), ((0, 16), "load")):
        if rng not in nexts or chunk_l is None:
            continue
        edges = some_edge_of(prog, b, nexts[rng], "Some")
        if not edges:
            ob(f"{what}: loop body found", False)
            continue
        w = ws.Walk(prog, b, arrays=[chunk_l])
        w.run(edges[0][1], stop=[nexts[rng]])
        st = [(ix, val) for arr, ix, val in w.stores if arr == chunk_l]
        if not st:
            ob(f"{what}: stores into the schedule", False, "none found")
            continue
        I = st[-1][0]
        final = st[-1][1]
        ob(f"{what}: every store targets W[t]", all(ix == I for ix, _ in st), f"{[ws.show(ix) for ix, _ in st]}")
        if what == "expand":
            okr = final[0] == "call" and final[1] == "rotate_left" and final[2][1] == ("lit", 1)
            xs = ws.flatten(final[2][0], opname="BitXor") if okr else []
            offs = []
            for x in xs:
                if x[0] == "elem" and x[2][0] == "op" and x[2][1] == "Sub" and x[2][2] == I and x[2][3][0] == "lit":
                    offs.append(x[2][3][1])
                else:
                    offs.append(ws.show(x))
            ob("expand: W[t] = rotl1(W[t-3] ^ W[t-8] ^ W[t-14] ^ W[t-16])", okr and sorted(offs, key=str) == [14, 16, 3, 8] or (okr and sorted(o for o in offs if isinstance(o, int)) == [3, 8, 14, 16] and len(offs) == 4),
                   f"W[t] = {ws.show(final)[:200]}", where=b.where(nexts[rng]))
        else:
            ok = final[0] == "call" and final[1] == "from_be_bytes"
            rngs = []

            def find(t):
                if isinstance(t, tuple):
                    if t[0] == "adt" and t[1] == "Range":
                        rngs.append(t)
                    for y in t[1:]:
                        if isinstance(y, (tuple, list)):
                            find(y) if isinstance(y, tuple) else [find(z) for z in y]
            find(final)
            aff = None
            if rngs:
                s0, e0 = ws.affine(rngs[0][2][0]), ws.affine(rngs[0][2][1])
                ikey = ws.show(I)
                coef_i = s0.get(ikey, 0)
                others = {k: v for k, v in s0.items() if k not in ("", ikey)}
                diff = {k: e0.get(k, 0) - s0.get(k, 0) for k in set(s0) | set(e0)}
                aff = (coef_i, sorted(others.values()), s0.get("", 0), {k: v for k, v in diff.items() if v})
            ok2 = aff is not None and aff[0] == 4 and aff[1] == [64] and aff[2] == 0 and aff[3] == {"": 4}
            ob("load: W[t] = big-endian word at message[64*block + 4*t .. + 4]", ok and ok2, f"W[t] = {ws.show(final)[:160]}; offsets {aff}", where=b.where(nexts[rng]))
    # ---- the digest
    arrs = [(i, st["rv"]) for i, blk in enumerate(b.blocks) for st in blk["stmts"] if st.get("rv") and st["rv"].get("k") == "agg" and st["rv"].get("agg") == "array" and len(st["rv"]["ops"]) == 5]
    order = [[root_copy(core.op_local(o)) for o in rv["ops"]] for i, rv in arrs]
    ob("the digest is assembled from [H0, H1, H2, H3, H4] in this order", H in order, f"{order}")
    cl = [c for c in prog.closures_of(fn) if c.calls_to(r"num::<impl u32>::to_(be|le|ne)_bytes$")]
    ob("each H_k is written big-endian", len(cl) >= 1 and all(t["callee"].endswith("to_be_bytes") for c in cl for _, t in c.calls_to(r"num::<impl u32>::to_(be|le|ne)_bytes$")), "")
    d0 = None
    for blk, t in b.calls_to(r"Iterator::zip$"):
        d0 = [core.describe(prog, b, a) for a in t["args"]]
    okz = d0 is not None and desc_contains(d0[0], lambda y: y[0] == "call" and y[1].endswith("iter_mut")) and desc_contains(d0[1], lambda y: y[0] == "call" and y[1].endswith("flat_map"))
    ob("the 20 output bytes are the flattened words in order (result.iter_mut().zip(words.flat_map(bytes)))", okz, f"{[panics.short_desc(x) for x in d0] if d0 else None}")


def base64(chk, prog, orc):
    a = core.const_value(prog, "humphrey_ws::util::base64::ALPHABET")
    s = None
    if a and a[0] == "lit":
        s = a[1].decode() if isinstance(a[1], bytes) else a[1]
    else:
        h = prog.hir.get("humphrey_ws::util::base64::ALPHABET")
        if h:
            for n in hir_walk(h["body"]):
                if n.get("e") == "Lit" and n.get("t") == "bytes":
                    s = bytes(n["v"]).decode()
    chk.ob("R1.base64", "humphrey_ws::util::base64::ALPHABET", "alphabet equals RFC 4648 table 1", s == orc["base64_alphabet"], f"{s!r}")
    dec = [p for p in prog.hir if p.endswith("Base64Decode>::decode")]
    chk.floor("Base64 decode fn", len(dec), 1)
    if dec:
        f = dec[0]
        ms = [m for m in core.hir_find(prog.hir[f]["body"], "Match") if m.get("scrut_ty", "") in ("&u8", "u8")]
        chk.floor("Base64 decoder symbol table", len(ms), 1)
        if ms:
            shifts = {}
            offs = {}
            for keys, guard, val, line, arm in core.match_table(ms[0]):
                body = hir_strip(arm["body"])
                if body.get("e") != "AssignOp" or not str(body.get("op", "")).startswith("BitOr"):
                    continue
                r = hir_strip(body["r"])
                if r.get("e") == "Binary" and r.get("op") == "Shl":
                    label = ",".join(_key_label(k) for k in keys)
                    shifts[label] = repr(_canon(r["r"]))
                    offs[label] = _affine(r["l"])
            vals = set(shifts.values())
            for label, sh in sorted(shifts.items()):
                chk.ob("R2.decoder_arms", f, f"arm {label}: shifts its 6-bit value by the same expression as its siblings", len(vals) == 1 or list(shifts.values()).count(sh) > len(shifts) / 2,
                       f"arm {label} shifts by `{sh}` while the other arms shift by {sorted(vals - {sh})}: the symbol decodes correctly only in some positions")
            chk.ob("R2.decoder_arms", f, "all symbol arms agree on the shift", len(vals) == 1, f"{shifts}")
            # value of a symbol = symbol + offset (RFC 4648 table 1): 'A'..'Z' -65, 'a'..'z' -71, '0'..'9' +4, '+' 62, '/' 63
            want = {"65..90": (1, -65), "97..122": (1, -71), "48..57": (1, 4), "43": (0, 62), "47": (0, 63)}
            for label, (co, cst) in want.items():
                a_ = offs.get(label)
                got = None
                if a_ is not None:
                    vs = [v for kk, v in a_.items() if kk != ""]
                    got = ((vs[0] if vs else 0), a_.get("", 0))
                chk.ob("R1.base64", f, f"symbol class {label} decodes to {'symbol' if co else ''}{cst:+d}", got == (co, cst), f"decoded as {a_}")
    enc = [p for p in prog.bodies if p.endswith("Base64Encode>::encode")]
    chk.floor("Base64 encode fn", len(enc), 1)
    if enc:
        b = prog.bodies[enc[0]]
        pads = [core.describe(prog, b, t["args"][1]) for blk, t in b.calls_to(r"String::push$")]
        npad = sum(1 for d in pads if d == ("lit", 61))
        chk.ob("R1.base64", enc[0], "padding character is '=' (3 pushes: two for 1 leftover byte, one for 2)", npad == 3, f"{npad} '=' pushes")
        # (the bit layout of the encoder is decided exactly by base64_encoder_bits)


def base64_encoder_bits(chk, prog, rule="R3.base64_bits"):
    """RFC 4648 section 4, decided bit by bit (R-BITS) and index by index (R-ARITH): each pushed symbol is ALPHABET[sextet] where the
    sextet's six bits are exactly the prescribed input bits; full groups are bytes[3g..3g+3] for g in 0..len/3, the tail is
    bytes[len - len%3..] with one ('xx==') or two ('xxx=') bytes."""
    from .. import bits, qlin
    enc = [p for p in prog.bodies if p.endswith("Base64Encode>::encode")]
    if not enc:
        return
    fn = enc[0]
    b = prog.bodies[fn]
    be = bits.BitEval(prog, b)
    runs = {}
    for blk, t in b.calls_to(r"String::push$"):
        a = t["args"][1]
        item = None
        if a.get("k") == "const":
            item = ("pad", a.get("v"))
        else:
            l = core.op_local(a)
            ds = b.defs().get(l, [])
            if len(ds) == 1 and ds[0][2] == "assign" and ds[0][3]["rv"]["k"] == "cast":
                src = core.op_local(ds[0][3]["rv"]["o"])
                d2 = b.defs().get(src, [])
                if len(d2) == 1 and d2[0][2] == "assign" and d2[0][3]["rv"]["k"] == "use" and d2[0][3]["rv"]["o"].get("pl"):
                    pl = d2[0][3]["rv"]["o"]["pl"]
                    tab = core.describe(prog, b, pl["l"])
                    idx = [e for e in pl["p"] if e[0] == "i"]
                    is_alpha = bool(b.defs().get(pl["l"])) and any(dd[2] == "assign" and dd[3]["rv"]["k"] == "use" and str(dd[3]["rv"]["o"].get("def", "")).endswith("base64::ALPHABET")
                                                                   for dd in b.defs().get(pl["l"], []))
                    if is_alpha and len(idx) == 1:
                        item = ("sym", be.local(idx[0][1]))
        ctx = tuple((s_, lab) for s_, lab, dd, info in core.guards_dominating(prog, b, blk))
        runs.setdefault(ctx, []).append((blk, item))
    chk.floor("Base64 encoder push runs (full group, 1 left over, 2 left over)", len(runs), 3)

    def want(pairs):
        return [x if x in (0, 1) else ("B", x[0], x[1]) for x in pairs]
    S0 = want([(0, 2), (0, 3), (0, 4), (0, 5), (0, 6), (0, 7)])
    S1 = want([(1, 4), (1, 5), (1, 6), (1, 7), (0, 0), (0, 1)])
    S2 = want([(2, 6), (2, 7), (1, 0), (1, 1), (1, 2), (1, 3)])
    S3 = want([(2, 0), (2, 1), (2, 2), (2, 3), (2, 4), (2, 5)])
    S1p = want([0, 0, 0, 0, (0, 0), (0, 1)])
    S2p = want([0, 0, (1, 0), (1, 1), (1, 2), (1, 3)])
    SHAPES = {(4, 0): ("full 3-byte group", [S0, S1, S2, S3]), (2, 2): ("one byte left over", [S0, S1p]), (3, 1): ("two bytes left over", [S0, S1, S2p])}
    seen_shapes = {}
    for ctx, items in runs.items():
        items.sort(key=lambda x: sum(1 for y in items if b.dominates(y[0], x[0])))
        syms = [it for blk, it in items if it and it[0] == "sym"]
        pads = [it for blk, it in items if it and it[0] == "pad"]
        other = [blk for blk, it in items if it is None]
        shape = SHAPES.get((len(syms), len(pads)))
        where = b.where(items[0][0])
        if other or shape is None:
            chk.ob(rule, fn, f"run of {len(items)} pushes is one of: 4 symbols / 2 symbols + '==' / 3 symbols + '='", False,
                   f"{len(syms)} symbol(s), {len(pads)} constant(s), {len(other)} push(es) that are not ALPHABET[..] lookups", where=where)
            continue
        name, exp = shape
        seen_shapes[name] = ctx
        order_ok = [it[0] for blk, it in items] == ["sym"] * len(syms) + ["pad"] * len(pads)
        chk.ob(rule, fn, f"{name}: symbols first, then the padding", order_ok and all(p_[1] == 61 for p_ in pads), f"{[it[0] for blk, it in items]}", where=where)
        keys = set()
        for i, (it, ex) in enumerate(zip(syms, exp)):
            got = it[1]
            if got is None:
                chk.ob(rule, fn, f"{name}: symbol {i} index is a pure bit selection", False, "index is not built from element loads, shifts, masks and ors", where=where)
                continue
            norm = []
            for s_ in got:
                if s_ in (0, 1):
                    norm.append(s_)
                elif s_ is None:
                    norm.append(None)
                else:
                    keys.add(s_[1])
                    norm.append(("B", s_[2], s_[3]))
            ok = norm[:6] == ex and all(x == 0 for x in norm[6:])
            chk.ob(rule, fn, f"{name}: symbol {i} = ALPHABET[{' '.join(('b%d.%d' % (x[1], x[2])) if isinstance(x, tuple) else str(x) for x in reversed(ex))}]", ok,
                   f"index bits (msb first) are [{bits.show(got, 8)}]: the wrong input bits are encoded", where=where)
        chk.ob(rule, fn, f"{name}: all symbols read the same group slice", len(keys) == 1, f"{sorted(keys)}", where=where)
    chk.ob(rule, fn, "the three cases (full group, one and two bytes left over) are all present", len(seen_shapes) == 3, f"{sorted(seen_shapes)}")

    # which bytes form a group (R-ARITH over the slice bounds)
    def is_len(d):
        d = panics._strip(d)
        return isinstance(d, tuple) and d[0] == "call" and d[1].endswith("::len")

    def is_next(d):
        d = panics._strip(d)
        return isinstance(d, tuple) and ((d[0] == "field" and isinstance(d[1], tuple) and d[1][0] == "call" and d[1][1].endswith("::next")) or (d[0] == "call" and d[1].endswith("::next")))

    def decide(site, d, var_pred, ref, why, where=""):
        try:
            e = qlin.from_desc(d, var_pred, strip=panics._strip)
            ok, wit = qlin.equal_forall(e, ref)
            chk.ob(rule, fn, site, ok, "" if ok else f"{e.text} differs from {ref.text} at {wit}: {why}", where=where)
        except qlin.NotQuasiLinear as x:
            chk.ob(rule, fn, site, False, f"not quasi-linear: {x}", where=where)

    L, G = qlin.var("len"), qlin.var("g")
    n_sl = 0
    for blk, t in b.calls_to(r"Index(<[^>]*>)?(>)?::index$"):
        ix = core.describe(prog, b, t["args"][1])
        base = core.describe(prog, b, t["args"][0])
        src_ok = desc_contains(base, lambda y: y[0] == "call" and y[1].endswith("as_ref")) and desc_contains(base, lambda y: y[0] == "param" and y[1] == 1)
        if ix[0] != "variant" or ix[2] not in ("Range", "RangeFrom"):
            continue
        n_sl += 1
        chk.ob(rule, fn, f"{ix[2]} slice is taken from the input bytes", src_ok, f"{core.short(str(base))[:100]}", where=b.where(blk))
        if ix[2] == "Range":
            decide("full group g starts at byte 3g", ix[3][0], is_next, qlin.mul(G, 3), "groups overlap or skip bytes", b.where(blk))
            decide("full group g ends at byte 3g + 3", ix[3][1], is_next, qlin.add(qlin.mul(G, 3), qlin.const(3)), "a group is not three bytes", b.where(blk))
        else:
            decide("the tail starts at byte len - len % 3", ix[3][0], is_len, qlin.mul(qlin.div(L, 3), 3), "the left-over bytes are taken from the wrong offset", b.where(blk))
    chk.floor("group slices in the Base64 encoder", n_sl, 2)
    for blk, t in b.calls_to(r"IntoIterator>::into_iter$|IntoIterator::into_iter$"):
        d = core.describe(prog, b, t["args"][0])
        if d[0] == "variant" and d[2] == "Range":
            decide("full groups are g = 0 ..", d[3][0], is_len, qlin.const(0), "", b.where(blk))
            decide("full groups are g = .. len / 3", d[3][1], is_len, qlin.div(L, 3), "not every full group is encoded", b.where(blk))
    # the left-over cases are selected by len % 3 == 1 / == 2
    for name, k in (("one byte left over", 1), ("two bytes left over", 2)):
        ctx = seen_shapes.get(name)
        if ctx is None:
            continue
        ok = False
        for s_, lab in ctx:
            info = core.switch_info(prog, b, s_)
            d = core.describe(prog, b, b.term(s_)["discr"])
            if isinstance(d, tuple) and d[0] == "bin" and d[1] == "Eq" and lab == "true":
                try:
                    e = qlin.from_desc(d[2], is_len, strip=panics._strip)
                    rem = qlin.sub(L, qlin.mul(qlin.div(L, 3), 3))
                    if qlin.equal_forall(e, rem)[0] and d[3] == ("lit", k):
                        ok = True
                except qlin.NotQuasiLinear:
                    pass
        chk.ob(rule, fn, f"{name}: selected exactly when len % 3 == {k}", ok, "the padding case is chosen by a different condition")


def base64_decoder_structure(chk, prog, rule="R3.base64_decoder"):
    """The decoder is the inverse of the encoder by construction: input taken in groups of exactly 4 symbols (last group may be shorter),
    a zeroed u32 accumulator per group, symbol i contributes value << (18 - 6i), '=' at position i ends the group, and the output is
    bytes 1..end of the big-endian accumulator (end = 4, or the position of '=')."""
    from .. import qlin
    dec = [p for p in prog.bodies if p.endswith("Base64Decode>::decode")]
    if not dec:
        return
    fn = dec[0]
    b = prog.bodies[fn]
    ch = b.calls_to(r"<impl \[T\]>::(chunks|chunks_exact|rchunks|windows|array_chunks)$")
    chk.floor("Base64 decoder grouping call", len(ch), 1)
    for blk, t in ch:
        n = core.describe(prog, b, t["args"][1])
        src = core.describe(prog, b, t["args"][0])
        ok = t["callee"].endswith("::chunks") and n == ("lit", 4)
        chk.ob(rule, fn, "the input is consumed in chunks(4): every symbol, including a short last group, is examined", ok,
               f"{core.short(t['callee'])}({n}): with chunks_exact / other sizes trailing symbols are skipped or groups misaligned, so malformed input is accepted",
               where=b.where(blk))
        chk.ob(rule, fn, "the groups are cut from the whole input", desc_contains(src, lambda y: y[0] == "param" and y[1] == 1) and
               not [c for c in core.desc_calls(src) if not core.re.search(r"(as_bytes|as_ref|deref|as_str|borrow)$", c[1])], f"{panics.short_desc(src)}", where=b.where(blk))
    # accumulator: a u32 local with a zero definition inside the group loop and only `|=` updates
    accs = [l for l, loc in enumerate(b.locals) if loc["ty"] == "u32" and len(b.defs().get(l, [])) > 2]
    chk.floor("Base64 decoder accumulator", len(accs), 1)
    if not accs:
        return
    acc = accs[0]
    zero = [d for d in b.defs()[acc] if d[2] == "assign" and d[3]["rv"]["k"] == "use" and d[3]["rv"]["o"].get("v") == 0]
    ors = [d for d in b.defs()[acc] if d[2] == "assign" and d[3]["rv"]["k"] == "bin" and d[3]["rv"]["op"] == "BitOr" and core.op_local(d[3]["rv"]["l"]) == acc]
    other = [d for d in b.defs()[acc] if d not in zero and d not in ors]
    nexts = [blk for blk, t in b.calls_to(r"Iterator>::next$|Iterator::next$")]
    outer = [n for n in nexts if desc_contains(core.describe(prog, b, b.term(n)["args"][0]), lambda y: y[0] == "call" and y[1].endswith("::chunks")) and
             not desc_contains(core.describe(prog, b, b.term(n)["args"][0]), lambda y: y[0] == "call" and y[1].endswith("::enumerate"))]
    in_loop = bool(zero) and bool(outer) and all(core.must_pass(b, outer, outer, through_nodes=[z[0] for z in zero]) is None for _ in [0])
    chk.ob(rule, fn, "the accumulator is reset to 0 for every group and only ever updated by `|=`", len(zero) == 1 and in_loop and not other and len(ors) >= 5,
           f"{len(zero)} zeroing, {len(ors)} |= updates, {len(other)} other updates; reset on every group iteration: {in_loop}")

    def is_i(d):
        d = panics._strip(d)
        # the index half of the (index, element) pair produced by enumerate().next(): projections of the call only
        if not (isinstance(d, tuple) and d[0] == "field" and d[2] == 0):
            return False
        x = d[1]
        while isinstance(x, tuple) and x[0] == "field":
            x = x[1]
        return isinstance(x, tuple) and x[0] == "call" and x[1].endswith("::next") and desc_contains(x, lambda y: y[0] == "call" and y[1].endswith("::enumerate"))
    for d in ors:
        r = core.describe(prog, b, d[3]["rv"]["r"])
        ok, got = False, None
        if isinstance(r, tuple) and r[0] == "bin" and r[1] == "Shl":
            try:
                e = qlin.from_desc(r[3], is_i, strip=panics._strip)
                got = [e(i) for i in range(4)]
                ok = got == [18, 12, 6, 0]
            except qlin.NotQuasiLinear as x:
                got = str(x)
        chk.ob(rule, fn, f"update at {b.where(d[0]).split(':')[-1] if False else 'arm'} #{ors.index(d)}: symbol i is shifted by 18 - 6i (i = 0..3)", ok, f"shift amounts for i = 0..3: {got}", where=b.where(d[0]))
    # output bytes
    outs = b.calls_to(r"Vec::<T, A>::extend_from_slice$|Vec::<T, A>::push$|Extend<.*>>::extend$")
    n_out = 0
    for blk, t in outs:
        v = core.describe(prog, b, t["args"][1])
        if not desc_contains(v, lambda y: y[0] == "call" and y[1].endswith("to_be_bytes")):
            chk.ob(rule, fn, "every output byte comes from the big-endian accumulator", False, f"{panics.short_desc(v)}", where=b.where(blk))
            continue
        n_out += 1
        gets = [c for c in core.desc_calls(v) if c[1].endswith("::get") or c[1].endswith("::index")]
        rng = gets[0][2][1] if gets and len(gets[0][2]) > 1 else None
        tb = [c for c in core.desc_calls(v) if c[1].endswith("to_be_bytes")]
        from_acc = bool(tb) and tb[0][2] and (tb[0][2][0][0] == "multi" or tb[0][2][0] == ("local", acc) or b.local_name(acc) in str(tb[0][2][0]))
        ok = rng is not None and rng[0] == "variant" and rng[2] == "Range" and rng[3][0] == ("lit", 1)
        end = rng[3][1] if ok else None
        end_l = None
        if end is not None and isinstance(end, tuple) and end[0] in ("multi", "local"):
            end_l = end
        chk.ob(rule, fn, "output = accumulator.to_be_bytes()[1..end]", ok and from_acc, f"{panics.short_desc(v)}", where=b.where(blk))
    chk.floor("Base64 decoder output sites", n_out, 1)
    # `end`: 4 unless '=' was met at position i, which also ends the group
    ends = [l for l, loc in enumerate(b.locals) if loc["ty"] == "usize" and len(b.defs().get(l, [])) == 2 and
            any(d[2] == "assign" and d[3]["rv"]["k"] == "use" and d[3]["rv"]["o"].get("v") == 4 for d in b.defs()[l])]
    chk.floor("Base64 decoder end marker", len(ends), 1)
    for l in ends[:1]:
        setd = [d for d in b.defs()[l] if not (d[3]["rv"]["k"] == "use" and d[3]["rv"]["o"].get("v") == 4)]
        ok = False
        why = ""
        for d in setd:
            v = core.describe(prog, b, d[3]["rv"]["o"]) if d[3]["rv"]["k"] == "use" else None
            gs = core.guards_dominating(prog, b, d[0])
            on_pad = any(str(lab) in ("61", "'='") or lab == 61 for s_, lab, dd, info in gs)
            inner = [n for n in nexts if n not in outer]
            leaves = not any(n in b.reachable(b.succs(d[0])) and False for n in inner)
            # after the assignment the inner (symbol) loop is not re-entered before the output site
            outb = [blk for blk, t in outs]
            w = core.must_pass(b, [d[0]], inner, through_nodes=outb) if inner and outb else None
            ok = v is not None and is_i(v) and on_pad and w is None
            why = f"value {panics.short_desc(v) if v else None}, under '=' arm: {on_pad}, ends the group: {w is None}"
        chk.ob(rule, fn, "end = position of '=' (else 4), and '=' ends the group", ok, why)


def _affine(e):
    """Affine normal form {var: coeff, '': const} of an integer HIR expression (casts/derefs peeled), or None."""
    e = hir_strip(e)
    k = e.get("e")
    if k == "Lit" and isinstance(e.get("v"), int):
        return {"": e["v"]}
    if k == "Path" and e.get("res") == "Local":
        return {e.get("name"): 1, "": 0}
    if k == "Cast":
        return _affine(e["x"])
    if k == "Binary" and e.get("op") in ("Add", "Sub"):
        a, b = _affine(e["l"]), _affine(e["r"])
        if a is None or b is None:
            return None
        sg = 1 if e["op"] == "Add" else -1
        out = dict(a)
        for kk, v in b.items():
            out[kk] = out.get(kk, 0) + sg * v
        return {kk: v for kk, v in out.items() if v != 0 or kk == ""}
    if k == "Binary" and e.get("op") == "Mul":
        a, b = _affine(e["l"]), _affine(e["r"])
        if a is None or b is None:
            return None
        if set(a) <= {""}:
            return {kk: v * a.get("", 0) for kk, v in b.items()}
        if set(b) <= {""}:
            return {kk: v * b.get("", 0) for kk, v in a.items()}
    return None


def _canon(e):
    """Canonical form: affine where possible, else (op, canon, canon)."""
    a = _affine(e)
    if a is not None:
        return ("aff", tuple(sorted((kk, v) for kk, v in a.items() if v != 0 or kk == "")))
    e = hir_strip(e)
    if e.get("e") == "Binary":
        return (e["op"], _canon(e["l"]), _canon(e["r"]))
    if e.get("e") == "Cast":
        return _canon(e["x"])
    return ("?", e.get("e"))


def _key_label(k):
    if k[0] == "range":
        return f"{k[1]}..{k[2]}"
    if k[0] == "lit":
        return str(k[1])
    return k[0]


def _norm_expr(e):
    e = hir_strip(e)
    k = e.get("e")
    if k == "Lit":
        return str(e.get("v"))
    if k == "Path":
        return e.get("name") or str(e.get("path", "")).split("::")[-1]
    if k == "Binary":
        op = {"Add": "+", "Sub": "-", "Mul": "*", "Div": "/", "Rem": "%", "Shl": "<<", "Shr": ">>", "BitAnd": "&", "BitOr": "|", "BitXor": "^"}.get(e["op"], e["op"])
        return f"({_norm_expr(e['l'])}{op}{_norm_expr(e['r'])})"
    if k == "Cast":
        return _norm_expr(e["x"])
    if k == "Unary":
        return f"{e.get('op')}({_norm_expr(e['x'])})"
    return k or "?"


HEX_UPPER = "0123456789ABCDEF"
HEXDIGITS = set(b"0123456789abcdefABCDEF")


def _next_payloads(prog, b, d):
    """Sub-descriptions of d that are the element taken out of `iter.next()` (directly or through `?`), keyed by the next() block."""
    out = {}
    for y in core.desc_subterms(d):
        if y[0] != "field" or y[2] != 0 or not isinstance(y[1], tuple) or not y[1] or y[1][0] != "call":
            continue
        inner = y[1]
        if inner[1].endswith("ops::Try>::branch") and inner[2] and isinstance(inner[2][0], tuple) and inner[2][0] and inner[2][0][0] == "call":
            inner = inner[2][0]
        if core.re.search(r"Iterator>?::next$", inner[1]) and len(inner) > 3:
            out.setdefault(inner[3], y)
    return out


def percent_encode(chk, prog, orc, fn):
    """Decided with R-BYTECLASS (hv/byteset.py): which byte values reach the `keep` site and which the `escape` site, and what the escape writes."""
    from .. import byteset
    b = prog.bodies[fn]
    U = byteset.mask_of(lambda v: chr(v) in orc["unreserved"])
    loops = [(blk, t) for blk, t in b.calls_to(r"Iterator>?::next$") if desc_contains(describe(prog, b, t["args"][0]), lambda y: y[0] == "param" and y[1] == 1)]
    chk.floor("byte loop in percent_encode", len(loops), 1)
    if len(loops) != 1:
        return
    var = ("field", describe(prog, b, loops[0][1]["dest"]["l"]), 0)
    fl = byteset.ByteFlow(prog, b, var)
    keep, esc_marker, esc_fmt, digits, unknown = [], [], [], [], []
    for blk, t in b.calls():
        name = t.get("resolved") or t.get("callee") or ""
        if not core.re.search(r"string::String::(push|push_str|insert|insert_str|extend\w*)$|String as std::ops::AddAssign<&str>>::add_assign$|String as std::fmt::Write>::write_(str|char|fmt)$", name):
            continue
        arg = describe(prog, b, t["args"][-1])
        m = fl.mask_at(blk)
        if name.endswith("String::push") or name.endswith("write_char"):
            if fl.is_alias_desc(arg):
                keep.append((blk, m))
            elif arg == ("lit", 37):
                esc_marker.append((blk, m))
            else:
                digits.append((blk, m, arg))
            continue
        fsites = [c[3] for c in core.desc_calls(arg) if "fmt::Arguments" in c[1] and len(c) > 3]
        parts = fmt.format_parts(b, fsites[0]) if fsites else None
        specs = fmt.format_specs(b, fsites[0]) if fsites else None
        if parts and specs and len(parts) == 2 and parts[0] == ("lit", "%") and parts[1][0] == "arg" and len(specs) == 1:
            ad = describe(prog, b, parts[1][1]) if parts[1][1] is not None else None
            sp = specs[0]
            good = ad is not None and fl.is_alias_desc(ad) and (parts[1][2] or "").endswith("new_upper_hex") and sp["width"] == 2 and \
                sp["flags"] is not None and sp["flags"] & fmt.ZERO_PAD_FLAG and not sp["flags"] & fmt.ALTERNATE_FLAG
            esc_fmt.append((blk, m, good, f"{parts} {specs}"))
        else:
            unknown.append((blk, name.split("::")[-1], core.short(str(arg))[:80]))
    show = lambda m: "".join(chr(v) if 32 < v < 127 else "." for v in byteset.members(m))
    chk.ob("R1.percent", fn, "every write to the output is a kept byte, a '%' or an escape digit", not unknown and fl.converged, f"unrecognised writes: {unknown}")
    chk.floor("verbatim write in percent_encode", len(keep), 1)
    chk.floor("escape write in percent_encode", len(esc_marker) + len(esc_fmt), 1)
    km = 0
    for blk, m in keep:
        km |= m
        chk.ob("R1.percent", fn, "a byte is kept verbatim only if it is in the unreserved set", m & ~U == 0,
               f"kept verbatim although reserved: {show(m & ~U)!r}", where=b.where(blk))
    em = 0
    for blk, m in esc_marker + [(x[0], x[1]) for x in esc_fmt]:
        em |= m
        chk.ob("R1.percent", fn, "an unreserved byte is never escaped", m & U == 0, f"escaped although unreserved: {show(m & U)!r}", where=b.where(blk))
    chk.ob("R1.percent", fn, "unreserved set equals RFC 3986 §2.3 (kept = unreserved, escaped = everything else)", km == U and em == byteset.ALL & ~U,
           f"kept {show(km)!r}; escaped {len(byteset.members(em))} values")
    for blk, m, good, what in esc_fmt:
        chk.ob("R1.percent", fn, "escapes are written as '%' + two hex digits", good, f"escape template {what}: not '%' followed by the byte as {{:02X}}", where=b.where(blk))
    for blk, m in esc_marker:
        after = [(db, dm, da) for db, dm, da in digits if b.dominates(blk, db)]
        after.sort(key=lambda x: sum(1 for y in after if b.dominates(y[0], x[0])))
        ok = len(after) == 2
        detail = f"{len(after)} digit write(s) after the '%'"
        if ok:
            for (db, dm, da), pick in zip(after, (lambda v: v >> 4, lambda v: v & 15)):
                for v in byteset.members(m):
                    got = fl.eval(da, v)
                    if got != ord(HEX_UPPER[pick(v)]):
                        ok = False
                        detail = f"byte {v:#04x}: digit written is {got!r}, expected {HEX_UPPER[pick(v)]!r}"
                        break
                if not ok:
                    break
        chk.ob("R1.percent", fn, "escapes are written as '%' + two hex digits", ok, detail, where=b.where(blk))
    loose = [db for db, dm, da in digits if not any(b.dominates(mb, db) for mb, _ in esc_marker)]
    chk.ob("R1.percent", fn, "no character is written outside keep / escape", not loose, f"writes at blocks {loose}")


def percent_decode(chk, prog, orc, fn, owner=True):
    """owner=False: the caller is another property's check that uses the decoder (C06); C18 owns the decoder's shape floors, so a decoder
    this rule does not recognise is reported there and only noted here."""
    from .. import byteset
    b = prog.bodies[fn]
    nexts = [(blk, t) for blk, t in b.calls_to(r"Iterator>?::next$")]
    pushes = [(blk, t) for blk, t in b.calls_to(r"vec::Vec::<T, A>::(push|extend_from_slice|insert)$")]
    if not owner:
        lit_n = sum(1 for blk, t in pushes if byteset.strip_conv(describe(prog, b, t["args"][-1])) in _next_payloads(prog, b, describe(prog, b, t["args"][-1])).values())
        if len(pushes) < 2 or lit_n < 1 or lit_n == len(pushes):
            chk.extra["percent_decode_shape"] = "not the byte-iterator shape this rule follows: decided by C18's check only"
            return
    chk.floor("output writes in percent_decode", len(pushes), 2)
    # the loop byte: the next() whose element is pushed as it is
    lit_sites, esc_sites = [], []
    for blk, t in pushes:
        arg = describe(prog, b, t["args"][-1])
        pl = _next_payloads(prog, b, arg)
        if byteset.strip_conv(arg) in pl.values():
            lit_sites.append((blk, arg))
        else:
            esc_sites.append((blk, arg, pl))
    chk.floor("literal copy site in percent_decode", len(lit_sites), 1)
    chk.floor("escape decode site in percent_decode", len(esc_sites), 1)
    if not lit_sites or not esc_sites:
        return
    main = byteset.strip_conv(lit_sites[0][1])
    fl = byteset.ByteFlow(prog, b, main)
    show = lambda m: "".join(chr(v) if 32 < v < 127 else "." for v in byteset.members(m))
    for blk, arg in lit_sites:
        m = fl.mask_at(blk)
        chk.ob("R3.percent_decode", fn, "every byte except '%' is copied as it is", byteset.strip_conv(arg) == main and m == byteset.ALL & ~(1 << 37),
               f"copied literally for {len(byteset.members(m))} byte values ({'%' if m >> 37 & 1 else 'without %'}); missing: {show(byteset.ALL & ~(1 << 37) & ~m)!r}", where=b.where(blk))
    hexmask = byteset.mask_of(lambda v: v in HEXDIGITS)
    for blk, arg, pl in esc_sites:
        m = fl.mask_at(blk)
        chk.ob("R3.percent_decode", fn, "an escape is decoded only after '%'", m == 1 << 37, f"escape site reached for {show(m)!r}", where=b.where(blk))
        digs = [pl[k] for k in sorted(pl) if byteset.strip_conv(pl[k]) != main]
        # order: the digit read first is the high one
        digs.sort(key=lambda d: sum(1 for e in digs if e is not d and b.dominates(next(k for k in pl if pl[k] is e), next(k for k in pl if pl[k] is d))))
        if len(digs) != 2:
            chk.ob("R3.hex_gate", fn, "the decoded byte is computed from the two characters after '%'", False, f"{len(digs)} characters feed the decoded byte", where=b.where(blk))
            continue
        fh, fl2 = byteset.ByteFlow(prog, b, digs[0]), byteset.ByteFlow(prog, b, digs[1])
        mh, ml = fh.mask_at(blk), fl2.mask_at(blk)
        chk.ob("R3.hex_gate", fn, "both characters after '%' are tested with is_ascii_hexdigit before from_str_radix", mh & ~hexmask == 0 and ml & ~hexmask == 0,
               f"decoded although not hex digits: first {show(mh & ~hexmask)[:20]!r} second {show(ml & ~hexmask)[:20]!r}: \"%+f\" would decode", where=b.where(blk))
        chk.ob("R3.percent_decode", fn, "every pair of hex digits (either case) is decoded", mh == hexmask and ml == hexmask,
               f"accepted first digits {show(mh)!r}, second {show(ml)!r}", where=b.where(blk))
        # value: either std's from_str_radix(.., 16) over the two characters in order, or an expression decided for all 22 x 22 pairs
        radix = [c for c in core.desc_calls(arg) if c[1].endswith("from_str_radix")]
        if radix:
            c = radix[0]
            fsites = [x[3] for x in core.desc_calls(c[2][0]) if "fmt::Arguments" in x[1] and len(x) > 3]
            parts = fmt.format_parts(b, fsites[0]) if fsites else None
            specs = fmt.format_specs(b, fsites[0]) if fsites else None
            okf = False
            what = f"{parts}"
            if parts and len(parts) == 2 and all(p[0] == "arg" and (p[2] or "").endswith("new_display") for p in parts) and specs and all(sp["flags"] is None and sp["width"] is None for sp in specs):
                ds = [byteset.strip_conv(describe(prog, b, p[1])) if p[1] is not None else None for p in parts]
                okf = ds[0] == byteset.strip_conv(digs[0]) and ds[1] == byteset.strip_conv(digs[1])
            else:
                # from_utf8 / slice of the two bytes
                sub = core.desc_subterms(c[2][0])
                arr = [y for y in sub if y[0] == "array" and len(y[1]) == 2]
                if arr:
                    ds = [byteset.strip_conv(x) for x in arr[0][1]]
                    okf = ds[0] == byteset.strip_conv(digs[0]) and ds[1] == byteset.strip_conv(digs[1])
                    what = f"array {[core.short(str(x))[:40] for x in ds]}"
            chk.ob("R3.hex_gate", fn, "the decoded byte is from_str_radix(<first><second>, 16)", okf and c[2][1] == ("lit", 16), f"text parsed: {what}; radix {c[2][1]}", where=b.where(blk))
            chk.ob("R3.hex_gate", fn, "radix is 16", c[2][1] == ("lit", 16), "")
        else:
            bad = None
            for h in byteset.members(mh & hexmask):
                for l in byteset.members(ml & hexmask):
                    got = fh.eval(arg, h, others=[(fl2, l)])
                    want = int(chr(h), 16) * 16 + int(chr(l), 16)
                    if got != want:
                        bad = (chr(h), chr(l), got, want)
                        break
                if bad:
                    break
            chk.ob("R3.hex_gate", fn, "the decoded byte is 16 * value(first) + value(second)", bad is None and bool(mh & hexmask) and bool(ml & hexmask),
                   f"%{bad[0]}{bad[1]} decodes to {bad[2]!r}, expected {bad[3]}" if bad else "no hex digits reach the site", where=b.where(blk))


def percent(chk, prog, orc):
    u = core.const_value(prog, "humphrey::percent::UNRESERVED_CHARACTERS")
    if u and u[0] == "lit":
        s = u[1].decode() if isinstance(u[1], bytes) else u[1]
        chk.ob("R1.percent", "humphrey::percent::UNRESERVED_CHARACTERS", "unreserved table equals RFC 3986 §2.3", sorted(s) == sorted(orc["unreserved"]), f"{s!r}")
    dec = [p for p in prog.bodies if p.endswith("PercentDecode>::percent_decode")]
    enc = [p for p in prog.bodies if p.endswith("PercentEncode>::percent_encode")]
    chk.floor("percent_decode fn", len(dec), 1)
    chk.floor("percent_encode fn", len(enc), 1)
    if enc:
        percent_encode(chk, prog, orc, enc[0])
    if dec:
        percent_decode(chk, prog, orc, dec[0])


def _same_digit(tested, dig):
    """Both descriptions denote the same `chars.next()?` element (up to refs and `as char` casts)."""
    def calls(d):
        return set((c[1], c[3]) for c in core.desc_calls(d) if len(c) > 3)
    a, b = calls(tested), calls(dig)
    return bool(a) and a == b and _idx(tested) == _idx(dig)


def _idx(d):
    out = []
    def walk(y):
        if isinstance(y, tuple):
            if y and y[0] == "index":
                out.append(y[2])
            for z in y:
                walk(z)
        elif isinstance(y, list):
            for z in y:
                walk(z)
    walk(d)
    return out


def date_arith(chk, prog, fn, orc, rule="R2.date_arith"):
    """Seconds -> (day number, second of day, weekday, hour, minute, second), decided for every timestamp by the piecewise
    quasi-linear case split of hv.symx.  The values are located from the fields of the returned DateTime, not by local names."""
    from .. import symx
    b = prog.bodies.get(fn)
    if b is None:
        return
    aggs = [(i, st["rv"]) for i, blk in enumerate(b.blocks) for st in blk["stmts"]
            if st.get("rv") and st["rv"].get("k") == "agg" and st["rv"].get("adt", "").endswith("date::DateTime")]
    chk.floor("DateTime construction in From<i64>", len(aggs), 1)
    if not aggs:
        return
    rv = aggs[0][1]
    epoch = orc["march_01_2000"] if "march_01_2000" in orc else 951868800
    wd0 = orc["weekday_of_2000_03_01"]

    def user_local(op):
        """follow `as` casts / copies from the field operand to the (possibly re-assigned) source local"""
        l = core.op_local(op)
        for _ in range(6):
            ds = b.defs().get(l, [])
            if len(ds) == 1 and ds[0][2] == "assign" and not ds[0][3]["pl"]["p"] and ds[0][3]["rv"]["k"] in ("use", "cast") \
                    and core.op_local(ds[0][3]["rv"]["o"]) is not None and not ds[0][3]["rv"]["o"]["pl"]["p"]:
                l = core.op_local(ds[0][3]["rv"]["o"])
            else:
                break
        return l

    fld = {name: user_local(rv["ops"][i]) for i, name in enumerate(rv["fields"])}

    def multi(l):
        return len(symx.def_blocks(b, l)) > 1

    def value_of(l):
        pieces, _ = symx.final_value(prog, b, l)
        return symx.expand(prog, b, pieces, keep=multi)

    def one_symbol(pieces):
        ss = set()
        for conds, e in pieces:
            ss |= symx.syms(e)
            for c, _ in conds:
                ss |= symx.syms(c)
        return ss

    DAYNO = {"what": "day number", "full": lambda t: (t - epoch) // 86400, "full_period": 86400}
    SOD = {"what": "second of day", "full": lambda t: (t - epoch) % 86400, "full_period": 86400}
    FIELDS = {
        "weekday": {"stage": lambda d: (d + wd0) % 7, "stage_period": 7, "via": DAYNO, "full": lambda t: ((t - epoch) // 86400 + wd0) % 7, "full_period": 604800,
                    "text": "weekday == (day number + 3) mod 7 (2000-03-01 was a Wednesday)", "why": "the weekday printed in Date / Last-Modified / Expires headers is wrong"},
        "hour": {"stage": lambda r: r // 3600, "stage_domain": (0, 86399), "via": SOD, "full": lambda t: (t - epoch) % 86400 // 3600, "full_period": 86400,
                 "text": "hour == second of day / 3600", "why": "the hour field is wrong"},
        "minute": {"stage": lambda r: r // 60 % 60, "stage_domain": (0, 86399), "via": SOD, "full": lambda t: (t - epoch) % 86400 // 60 % 60, "full_period": 86400,
                   "text": "minute == second of day / 60 mod 60", "why": "the minute field is wrong"},
        "second": {"stage": lambda r: r % 60, "stage_domain": (0, 86399), "via": SOD, "full": lambda t: (t - epoch) % 86400 % 60, "full_period": 86400,
                   "text": "second == second of day mod 60", "why": "the second field is wrong"},
    }
    done_stage = {}

    def run(site, pieces, x, ref, period, domain, why):
        ok, wit, info = symx.decide_forall(pieces, x, ref, period, domain=domain)
        detail = "" if ok else f"differs at {symx.show(x)} = {wit}: computed {symx.select(pieces, {x: wit})}, required {ref(wit)}; {why}"
        chk.ob(rule, fn, site, ok, detail, where=b.file)
        chk.extra.setdefault("date_arith", []).append({"clause": site, **info})

    for name, spec in FIELDS.items():
        site = spec["text"]
        try:
            pieces = value_of(fld[name])
            ss = one_symbol(pieces)
            if len(ss) != 1:
                raise symx.NotDecidable(f"depends on {[symx.show(x) for x in ss]}")
            x = next(iter(ss))
            if x[1] == 1:
                run(site + ", composed with the timestamp -> " + spec["via"]["what"] + " step, for every timestamp", pieces, x, spec["full"], spec["full_period"], None, spec["why"])
                continue
            run(site + f", for every {spec['via']['what']}", pieces, x, spec["stage"], spec.get("stage_period", 1), spec.get("stage_domain"), spec["why"])
            key = (spec["via"]["what"], x[1])
            if key in done_stage:
                continue
            done_stage[key] = True
            via = spec["via"]
            p2 = value_of(x[1])
            s2 = one_symbol(p2)
            if len(s2) != 1 or next(iter(s2))[1] != 1:
                raise symx.NotDecidable(f"{via['what']} depends on {[symx.show(y) for y in s2]}, not on the timestamp alone")
            want = "floor((timestamp - 951868800) / 86400)" if via is DAYNO else "(timestamp - 951868800) mod 86400, in 0..86399"
            run(f"{via['what']} == {want}, for every timestamp", p2, next(iter(s2)), via["full"], via["full_period"], None,
                "offsets before the anchor / exact day boundaries land on the wrong day or give hour 24")
        except symx.NotDecidable as e:
            chk.ob(rule, fn, site, False, f"not decidable by the quasi-linear case split: {e}", where=b.file)
    sods = [k for k in done_stage if k[0] == "second of day"]
    chk.ob(rule, fn, "hour, minute and second are computed from one second-of-day value", len(sods) <= 1, f"{sods}")
    # the remaining fields are updated inside the month loop: outside the fragment
    nd = []
    for name in ("year", "month", "day"):
        try:
            value_of(fld[name])
        except symx.NotDecidable as e:
            nd.append(f"{name}: {e}")
    chk.extra["date_arith_not_decided"] = nd


def _civil(d):
    """(March-based year, day of that year 0..365, month 0..11 (January = 0), day of month 1..31, calendar year) for the day number d
    counted from 2000-03-01, by the era arithmetic of the proleptic Gregorian calendar (valid for every integer d)."""
    z = d + 730485                      # 2000-03-01 is day 5 * 146097 of the era scheme (0000-03-01 = day 0)
    era = z // 146097
    doe = z - era * 146097
    yoe = (doe - doe // 1460 + doe // 36524 - doe // 146096) // 365
    y = yoe + era * 400
    doy = doe - (365 * yoe + yoe // 4 - yoe // 100)
    mp = (5 * doy + 2) // 153
    dom = doy - (153 * mp + 2) // 5 + 1
    m = mp + 3 if mp < 10 else mp - 9
    return y, doy, m - 1, dom, y + (1 if m <= 2 else 0)


def date_ymd(chk, prog, fn, orc, rule="R2.date_ymd"):
    """Year, month and day of month for every day number, in three steps each decided for every input:
    (1) up to the month loop: the day within the March-based year and that year are piecewise quasi-linear functions of the day number
        (hv.symx, one 400-year period per sign region + equal increments);
    (2) the month loop is `while TABLE[m] <= r { r -= TABLE[m]; m += 1 }` from m = 0 over the March-first month-length table
        (data flow of the loop-carried locals; the table is compared with the calendar in R1.dates);
    (3) after the loop: month, day and the year carry as functions of (m, r), decided on all (m, r) the loop can leave (12 x 31 values).
    Composed with the day-number clause of R2.date_arith this fixes year / month / day for every timestamp."""
    from .. import symx
    b = prog.bodies.get(fn)
    if b is None:
        return
    aggs = [(i, st["rv"]) for i, blk in enumerate(b.blocks) for st in blk["stmts"]
            if st.get("rv") and st["rv"].get("k") == "agg" and st["rv"].get("adt", "").endswith("date::DateTime")]
    loop_blocks = [i for i in range(len(b.blocks)) if not b.blocks[i].get("cleanup") and symx.in_loop(b, i)]
    heads = [h for h in loop_blocks if all(b.dominates(h, o) for o in loop_blocks)]
    chk.floor("month loop in From<i64>", len(heads), 1)
    if len(heads) != 1 or not aggs:
        return
    H, (agg_blk, rv) = heads[0], aggs[0]
    table = orc["days_in_months_march_first"]

    def fail(site, why):
        chk.ob(rule, fn, site, False, why, where=b.file)
    # ---- (3) after the loop
    exits = sorted(set(x for lb in loop_blocks for x in b.succs(lb) if x not in loop_blocks and not b.blocks[x].get("cleanup")))
    site3 = "after the month loop: month = (m + 2) mod 12, day = r + 1, year + 1 exactly when m + 2 >= 12"
    try:
        if len(exits) != 1:
            raise symx.NotDecidable(f"{len(exits)} loop exits")
        reg = symx.Region(prog, b, exits[0], agg_blk, max_paths=64)
        fields = {}
        paths = reg.paths()
        for conds, env in paths:
            env = dict(env)
            for st in b.blocks[agg_blk]["stmts"]:
                if st.get("rv") is rv:
                    break
                if "pl" in st and not st["pl"]["p"]:
                    env[st["pl"]["l"]] = reg._rvalue(env, st["rv"])
            for i, name in enumerate(rv["fields"]):
                if name in ("year", "month", "day"):
                    fields.setdefault(name, []).append((conds, reg._operand(env, rv["ops"][i])))
        raw_fields = fields
        in_loop_defs = lambda l: any(d in loop_blocks for d in symx.def_blocks(b, l))

        def expand_with(extra):
            fs_, all_ = {}, set()
            for name in raw_fields:
                fs_[name] = symx.expand(prog, b, raw_fields[name], keep=lambda l: len(symx.def_blocks(b, l)) > 1 or l == extra)
                for conds, e in fs_[name]:
                    all_ |= symx.syms(e)
                    for c, _ in conds:
                        all_ |= symx.syms(c)
            return fs_, all_
        fields, allsyms = expand_with(None)
        # the loop-carried locals and the pre-loop year
        carried = [x for x in allsyms if in_loop_defs(x[1])]
        others = [x for x in allsyms if not in_loop_defs(x[1])]
        if len(carried) == 2 and len(others) > 1:
            # the pre-loop year is a value computed once (`let years = ..`) and only offset after the loop: keep that local as the symbol
            cands = [l for l in range(b.argc + 1, len(b.locals)) if b.local_name(l) and len(symx.def_blocks(b, l)) == 1 and not in_loop_defs(l)
                     and all(b.dominates(d, H) for d in symx.def_blocks(b, l))]
            for l in sorted(cands, key=lambda l: -symx.def_blocks(b, l)[0]):
                try:
                    f2, a2 = expand_with(l)
                except symx.NotDecidable:
                    continue
                o2 = [x for x in a2 if not in_loop_defs(x[1])]
                if len(o2) == 1 and o2[0][1] == l and len([x for x in a2 if in_loop_defs(x[1])]) == 2:
                    fields, allsyms = f2, a2
                    carried = [x for x in allsyms if in_loop_defs(x[1])]
                    others = o2
                    break
        if len(carried) != 2 or len(others) != 1:
            raise symx.NotDecidable(f"fields depend on {[symx.show(x) for x in allsyms]}")
        ysym = others[0]
        # which carried local is the month counter: the one `month` depends on
        msyms = set()
        for conds, e in fields["month"]:
            msyms |= symx.syms(e)
        msym = next(x for x in carried if x in msyms)
        rsym = next(x for x in carried if x is not msym)
        bad = None
        # (a constant added to the pre-loop year after the loop — `years + 2000` — is part of the year: it is read off here and added to the
        # pre-loop value in step 1)
        year_offset = symx.select(fields["year"], {msym: 0, rsym: 0, ysym: 0})
        if not isinstance(year_offset, int) or isinstance(year_offset, bool):
            raise symx.NotDecidable("the year field is not a number for m = 0")
        for m in range(12):
            for r in range(31):
                for Y in (0, 1999, 2000):
                    bind = {msym: m, rsym: r, ysym: Y}
                    got = (symx.select(fields["year"], bind), symx.select(fields["month"], bind), symx.select(fields["day"], bind))
                    want = (Y + year_offset + (1 if m + 2 >= 12 else 0), (m + 2) % 12, r + 1)
                    if got != want and bad is None:
                        bad = (m, r, Y, got, want)
        chk.ob(rule, fn, site3, bad is None, f"with m={bad[0]}, r={bad[1]}, year={bad[2]}: fields (year, month, day) = {bad[3]}, required {bad[4]}" if bad else "", where=b.file)
    except (symx.NotDecidable, StopIteration, KeyError) as e:
        fail(site3, f"not decidable: {e}")
        return
    # ---- (2) the loop itself
    site2 = "the month loop is `while TABLE[m] <= r { r -= TABLE[m]; m += 1 }` starting at m = 0"
    ml, rl = msym[1], rsym[1]
    okl, whyl = True, []
    mdefs = [d for d in b.defs().get(ml, []) if d[0] in loop_blocks]
    rdefs = [d for d in b.defs().get(rl, []) if d[0] in loop_blocks]
    def strip_chk(d):
        if d[0] == "field" and d[2] == 0 and isinstance(d[1], tuple) and d[1][0] == "bin" and d[1][1].endswith("WithOverflow"):
            return ("bin", d[1][1][:-len("WithOverflow")], d[1][2], d[1][3])
        return d
    def is_local(d, l):
        return isinstance(d, tuple) and d and d[0] in ("multi", "local") and (d[3] if d[0] == "multi" and len(d) > 3 else d[1]) == l
    def is_tab(d):
        d = strip_chk(d)
        if d[0] == "index":
            from .. import byteset
            vals = byteset.const_bytes(d[1])
            if vals is None and d[1][0] == "array":
                vals = [x[1] for x in d[1][1]]
            return vals == table and is_local(d[2], ml)
        return False
    if len(mdefs) != 1 or len(rdefs) != 1:
        okl = False
        whyl.append(f"{len(mdefs)} assignment(s) to the month counter and {len(rdefs)} to the day remainder inside the loop")
    else:
        dm = strip_chk(core.describe_rv(prog, b, mdefs[0][3]["rv"])) if mdefs[0][2] == "assign" else None
        dr = strip_chk(core.describe_rv(prog, b, rdefs[0][3]["rv"])) if rdefs[0][2] == "assign" else None
        if not (dm and dm[0] == "bin" and dm[1] == "Add" and is_local(dm[2], ml) and dm[3] == ("lit", 1)):
            okl = False
            whyl.append(f"month counter update is {core.short(str(dm))[:80]}")
        if not (dr and dr[0] == "bin" and dr[1] == "Sub" and is_local(dr[2], rl) and is_tab(dr[3])):
            okl = False
            whyl.append(f"day remainder update is {core.short(str(dr))[:120]}")
    # loop test: the edge into the body is TABLE[m] <= r
    tests = []
    for lb in loop_blocks:
        t = b.term(lb)
        if t and t["k"] == "switch" and t.get("discr_ty") == "bool":
            info = core.switch_info(prog, b, lb)
            d = strip_chk(core.describe(prog, b, t["discr"]))
            stay = [lab for lab, tgt in info["edges"].items() if tgt in loop_blocks]
            leave = [lab for lab, tgt in info["edges"].items() if tgt not in loop_blocks]
            if leave:
                tests.append((d, stay))
    good_test = False
    for d, stay in tests:
        if d[0] == "bin" and d[1] == "Le" and is_tab(d[2]) and is_local(d[3], rl) and stay == ["true"]:
            good_test = True
        if d[0] == "bin" and d[1] == "Ge" and is_local(d[2], rl) and is_tab(d[3]) and stay == ["true"]:
            good_test = True
        if d[0] == "bin" and d[1] == "Gt" and is_tab(d[2]) and is_local(d[3], rl) and stay == ["false"]:
            good_test = True
        if d[0] == "bin" and d[1] == "Lt" and is_local(d[2], rl) and is_tab(d[3]) and stay == ["false"]:
            good_test = True
    if len(tests) != 1 or not good_test:
        okl = False
        whyl.append(f"loop test is {[(core.short(str(d))[:80], stay) for d, stay in tests]}")
    # m starts at 0: its only definition outside the loop is the constant 0 before the loop
    m0 = [d for d in b.defs().get(ml, []) if d[0] not in loop_blocks]
    if not (len(m0) == 1 and m0[0][2] == "assign" and core.describe_rv(prog, b, m0[0][3]["rv"]) == ("lit", 0) and b.dominates(m0[0][0], H)):
        okl = False
        whyl.append("the month counter does not start at 0")
    chk.ob(rule, fn, site2, okl, "; ".join(whyl), where=b.file)
    # ---- (1) before the loop, in two stages cut at a block every path passes:
    #   (1a) up to the cut, r == day number mod 146097 and the cycle count == floor(day number / 146097), for every day number (hv.symx);
    #   (1b) from the cut to the loop, r and the year as functions of (r at the cut, cycle count), for every r in 0..146096 (finite) and
    #        linearly in the cycle count.
    try:
        rpre = [d for d in symx.def_blocks(b, rl) if d not in loop_blocks]
        if not rpre:
            raise symx.NotDecidable("no definition before the loop")
        first_r = [d for d in rpre if all(b.dominates(d, o) for o in rpre)][0]
        multi_ = lambda l: len(symx.def_blocks(b, l)) > 1
        day_locals = set()

        def keep(l):
            """symbols the expressions are left in terms of: re-assigned locals, and the day number (a value computed once as `.. / 86400`:
            expanding it to the timestamp would make the period 86400 x 146097)"""
            if multi_(l):
                return True
            if l in day_locals:
                return True
            try:
                v_ = symx.resolve_single(prog, b, l, multi_)
            except Exception:
                v_ = None
            ds_ = b.defs().get(l, [])
            direct = len(ds_) == 1 and (ds_[0][2] == "call" or (ds_[0][2] == "assign" and ds_[0][3]["rv"]["k"] == "bin"))      # not a copy of it
            if direct and v_ is not None and v_[0] in ("bin", "chk") and v_[1] in ("Div", "DivE") and v_[3] == symx.lit(orc.get("day", 86400)):
                day_locals.add(l)
                return True
            return False
        fix = lambda v: ("bin", v[1], v[2], v[3]) if v[0] == "chk" else v

        def pieces_between(start_, stop_, locals_):
            reg_ = symx.Region(prog, b, start_, stop_, max_paths=256)
            out_ = {l_: [] for l_ in locals_}
            for conds, env in reg_.paths():
                for l_ in locals_:
                    v_ = env.get(l_)
                    out_[l_].append((conds, fix(v_) if v_ is not None else ("sym", l_, b.local_name(l_))))
            return {l_: symx.expand(prog, b, ps_, keep) for l_, ps_ in out_.items()}

        def syms_of(ps_):
            ss_ = set()
            for conds, e in ps_:
                ss_ |= symx.syms(e)
                for c, _ in conds:
                    ss_ |= symx.syms(c)
            return ss_
        # the cut: the block closest to the loop from which the day remainder entering the loop depends on one value only, and at which that
        # value is (day number mod 146097) — found by trying the blocks every path passes, nearest first
        spine = sorted((x for x in range(len(b.blocks)) if b.dominates(x, H) and x != H and x not in loop_blocks and not b.blocks[x].get("cleanup")),
                       key=lambda x: -sum(1 for o in range(len(b.blocks)) if b.dominates(o, x)))
        cut, dsym, rs, after = None, None, None, None
        for X in spine:
            try:
                aft = pieces_between(X, H, [rl, ysym[1]])
                sX = syms_of(aft[rl])
                if len(sX) != 1:
                    continue
                cand = next(iter(sX))
                defs_c = [d for d in symx.def_blocks(b, cand[1]) if b.dominates(d, X)]
                defs_c = [d for d in defs_c if all(b.dominates(d, o) for o in defs_c)]
                if not defs_c:
                    continue
                pX = pieces_between(defs_c[0], X, [cand[1]])[cand[1]]
                sD = syms_of(pX)
                if len(sD) != 1 or next(iter(sD)) == cand:
                    continue
                dX = next(iter(sD))
                ok, wit, info = symx.decide_forall(pX, dX, lambda d: d % 146097, 146097)
                if ok:
                    cut, dsym, rs, after = X, dX, cand, aft
                    chk.extra.setdefault("date_ymd", []).append({"clause": "remaining days at the cut == day number mod 146097", "cut": b.where(X), **info})
                    break
            except symx.NotDecidable:
                continue
        site1a = "the 400-year reduction: remaining days == day number mod 146097 (0..146096) and cycle count == floor(day number / 146097), for every day number"
        if cut is None:
            raise symx.NotDecidable("no block before the month loop from which the day remainder depends on one value that equals (day number mod 146097)")
        pr, py = after[rl], after[ysym[1]]
        if dsym[1] in day_locals:
            # the day number was kept as a symbol: it is floor((timestamp - anchor) / 86400) for every timestamp
            epoch = orc["march_01_2000"] if "march_01_2000" in orc else 951868800
            vd = symx.resolve_single(prog, b, dsym[1], multi_)
            pd_ = symx.expand(prog, b, [([], fix(vd))], multi_)
            sd_ = syms_of(pd_)
            okd = False
            if len(sd_) == 1 and next(iter(sd_))[1] <= b.argc:
                okd, witd, infod = symx.decide_forall(pd_, next(iter(sd_)), lambda t: (t - epoch) // 86400, 86400)
            chk.ob(rule, fn, "day number == floor((timestamp - 951868800) / 86400), for every timestamp", okd,
                   "" if okd else "the day number is not the floor of the division: dates before the anchor are off by one day", where=b.file)
        # a cycle count written as `day_number.div_euclid(146097)` in place is the floor by definition: name it
        QE = ("sym", -1, "day_number.div_euclid(146097)")

        def name_cycle(e):
            if isinstance(e, tuple) and e and e[0] in ("bin", "chk") and e[1] == "DivE" and e[2] == dsym and e[3] == symx.lit(146097):
                return QE
            if isinstance(e, tuple):
                return tuple(name_cycle(x) if isinstance(x, tuple) else x for x in e)
            return e
        py = [([(name_cycle(c), t_) for c, t_ in conds], name_cycle(e)) for conds, e in py]
        qs = syms_of(py) - {rs}
        if len(qs) != 1:
            raise symx.NotDecidable(f"the year depends on {[symx.show(x) for x in syms_of(py)]}")
        qsym = next(iter(qs))
        # (1a) for the cycle count
        okq, pq = False, None
        if qsym == QE:
            okq = True
        else:
            start_q = [d for d in symx.def_blocks(b, qsym[1]) if b.dominates(d, cut)]
            start_q = [d for d in start_q if all(b.dominates(d, o) for o in start_q)]
            pq = pieces_between(start_q[0], cut, [qsym[1]])[qsym[1]] if start_q else None
            if pq is not None and syms_of(pq) == {dsym}:
                okq, witq, infoq = symx.decide_forall(pq, dsym, lambda d: d // 146097, 146097)
        chk.ob(rule, fn, site1a, okq, "" if okq else f"the cycle count is not floor(day number / 146097){' at day number ' + str(witq) if pq is not None and syms_of(pq) == {dsym} else ''}: years before the 2000-03-01 anchor (or after 2400) are off by 400", where=b.file)
        # (1b) exhaustively over one 400-year cycle
        site1b = "entering the month loop, r == day within the March-based year and year == that year, for every day of the 400-year cycle and every cycle"
        def coef_of(e):
            """coefficient of the cycle count in e when e is affine in it (anything may happen to the other values), else None"""
            if qsym not in symx.syms(e):
                return 0
            if e == qsym:
                return 1
            if e[0] in ("bin", "chk") and e[1] in ("Add", "Sub"):
                l_, r_ = coef_of(e[2]), coef_of(e[3])
                if l_ is None or r_ is None:
                    return None
                return l_ + r_ if e[1] == "Add" else l_ - r_
            if e[0] in ("bin", "chk") and e[1] == "Mul":
                for a_, b2 in ((e[2], e[3]), (e[3], e[2])):
                    if a_[0] == "lit" and isinstance(a_[1], int) and not isinstance(a_[1], bool):
                        c_ = coef_of(b2)
                        return None if c_ is None else a_[1] * c_
            return None
        import os as _os
        if _os.environ.get("HV_DEBUG_DATE"):
            print("DEBUG qsym", qsym, "rs", rs, "dsym", dsym)
            for conds, e in py[:2]:
                print("DEBUG py", symx.show(e)[:400])
        for conds, e in py:
            if coef_of(e) != 400 or any(qsym in symx.syms(c) for c, _ in conds):
                raise symx.NotDecidable(f"the year is not (400 x cycle count + a function of the day within the cycle): coefficient {coef_of(e)}")
        bad = None
        for R in range(146097):
            y_, doy_, _, _, _ = _civil(R)
            r_got = symx.select(pr, {rs: R})
            y0 = symx.select(py, {rs: R, qsym: 0})
            y0 = y0 + year_offset if isinstance(y0, int) else y0
            if r_got != doy_ or y0 != y_:
                bad = (R, r_got, doy_, y0, y_)
                break
        if bad is None:
            for R in (0, 36523, 36524, 146096):
                if symx.select(py, {rs: R, qsym: 1}) - symx.select(py, {rs: R, qsym: 0}) != 400 or symx.select(py, {rs: R, qsym: -3}) - symx.select(py, {rs: R, qsym: 0}) != -1200:
                    bad = (R, "cycle step", 400, symx.select(py, {rs: R, qsym: 1}) - symx.select(py, {rs: R, qsym: 0}), 400)
        if bad:
            _, _, m_, dom_, cy_ = _civil(bad[0])
            chk.ob(rule, fn, site1b, False, f"day {bad[0]} of the cycle ({cy_:04d}-{m_ + 1:02d}-{dom_:02d}): day of year {bad[1]} (required {bad[2]}), year {bad[3]} (required {bad[4]}): "
                   "month, day of month or year are wrong on these days (typically the last day of a 4-, 100- or 400-year cycle)", where=b.file)
        else:
            chk.ob(rule, fn, site1b, True, "", where=b.file)
        chk.extra.setdefault("date_ymd", []).append({"clause": site1b, "mode": "finite domain", "points": 146097, "day_number_local": symx.show(dsym)})
    except (symx.NotDecidable, IndexError) as e:
        fail("entering the month loop, r and year are the March-based day-of-year and year of the day number", f"not decidable: {e}")
    # consistency of the reference itself with the table: walking the table from March gives the month / day the era arithmetic gives
    for doy in range(366):
        m, r = 0, doy
        while m < 12 and table[m] <= r:
            r -= table[m]
            m += 1
        _, _, mm, dom, _ = _civil(doy)        # day numbers 0..365 are 2000-03-01 .. 2001-03-01
        if doy < 366 and m < 12 and ((m + 2) % 12, r + 1) != (mm, dom) and doy != 365:
            chk.ob(rule, "oracle", "month table walk agrees with the calendar", False, f"doy {doy}: table gives {(m + 2) % 12, r + 1}, calendar {mm, dom}")
            break


def dates(chk, prog, orc):
    P = "humphrey::http::date::"
    def cv(name):
        v = core.const_value(prog, P + name)
        if v is None:
            return None
        if v[0] == "lit":
            return v[1]
        if v[0] in ("array", "tuple"):
            return [x[1] if x[0] == "lit" else None for x in v[1]]
        if v[0] == "bin" or v[0] == "field":
            r = panics._range_of(prog, prog.bodies.get(P + name), v)
            return r[0] if r and r[0] == r[1] else None
        return None
    for name, key in (("DAYS", "days"), ("MONTHS", "months"), ("DAYS_IN_MONTHS", "days_in_months_march_first"), ("MARCH_01_2000", "march_01_2000")):
        got = cv(name)
        chk.ob("R1.dates", P + name, f"{name} == {orc[key] if not isinstance(orc[key], list) else '[' + str(orc[key][0]) + ', ..]'}", got == orc[key], f"{got}")
    # derived constants: evaluate the HIR initialiser with the other constants
    env = {}
    for name in ("MINUTE", "HOUR", "DAY", "DAYS_4_YEARS", "DAYS_100_YEARS", "DAYS_400_YEARS"):
        h = prog.hir.get(P + name)
        env[name] = _eval_const(h["body"], env) if h else None
    for name, key in (("MINUTE", "minute"), ("HOUR", "hour"), ("DAY", "day"), ("DAYS_4_YEARS", "days_4_years"), ("DAYS_100_YEARS", "days_100_years"), ("DAYS_400_YEARS", "days_400_years")):
        chk.ob("R1.dates", P + name, f"{name} == {orc[key]}", env.get(name) == orc[key], f"{env.get(name)}")
    fs = prog.impl_fn(r"^<humphrey::http::date::DateTime as std::convert::From<i64>>$", "from")
    chk.floor("DateTime::from(i64)", len(fs), 1)
    if fs:
        date_arith(chk, prog, fs[0], orc)
        date_ymd(chk, prog, fs[0], orc)
    ts = prog.impl_fn(r"^<humphrey::http::date::DateTime as std::string::ToString>$", "to_string") + prog.impl_fn(r"^<humphrey::http::date::DateTime as std::fmt::Display>$", "fmt")
    chk.floor("DateTime to_string", len(ts), 1)
    if ts:
        b = prog.bodies[ts[0]]
        sites = fmt.format_sites(b)
        # (a date built from separately formatted pieces — `format!("{} {} GMT", date, time)` — is read with the pieces spliced in)
        flat = [(blk_, fmt.format_parts_flat(b, blk_)) for blk_, _ in sites]
        flat = [(blk_, p_) for blk_, p_ in flat if p_ is not None]
        sites = sorted(flat, key=lambda x: -len(x[1])) or sites
        shape = [[(p[0], p[1] if p[0] == "lit" else "") for p in parts] for _, parts in sites]
        want = [("arg", ""), ("lit", ", "), ("arg", ""), ("lit", " "), ("arg", ""), ("lit", " "), ("arg", ""), ("lit", " "), ("arg", ""), ("lit", ":"), ("arg", ""), ("lit", ":"), ("arg", ""), ("lit", " GMT")]
        chk.ob("R1.dates", ts[0], "IMF-fixdate layout `Www, DD Mon YYYY HH:MM:SS GMT`", want in shape, f"{shape}")
        if sites:
            parts = sites[0][1]
            args = [core.describe(prog, b, p[1]) for p in parts if p[0] == "arg"]
            st = [x["name"] for x in prog.structs["humphrey::http::date::DateTime"]["fields"]]
            def fld(d):
                fs_ = []
                def walk(y):
                    if isinstance(y, tuple):
                        if y and y[0] == "field" and y[1][0] == "param":
                            fs_.append(st[y[2]])
                        for z in y:
                            walk(z)
                    elif isinstance(y, list):
                        for z in y:
                            walk(z)
                walk(d)
                return fs_[0] if fs_ else None
            order = [fld(a) for a in args]
            chk.ob("R1.dates", ts[0], "fields are printed in the order weekday, day, month, year, hour, minute, second", order == ["weekday", "day", "month", "year", "hour", "minute", "second"], f"{order}")
            nm = [("DAYS" if desc_contains(a, lambda y: y[0] == "index") and i == 0 else "MONTHS" if desc_contains(a, lambda y: y[0] == "index") else "") for i, a in enumerate(args)]
            chk.ob("R1.dates", ts[0], "weekday and month are looked up in the name tables", nm[0] == "DAYS" and nm[2] == "MONTHS", f"{nm}")


def _eval_const(e, env):
    e = hir_strip(e)
    k = e.get("e")
    if k == "Lit":
        return e.get("v")
    if k == "Path":
        nm = str(e.get("path", "")).split("::")[-1]
        return env.get(nm)
    if k == "Binary":
        a, b = _eval_const(e["l"], env), _eval_const(e["r"], env)
        if a is None or b is None:
            return None
        return {"Add": a + b, "Sub": a - b, "Mul": a * b}.get(e["op"])
    return None


def no_panic(chk, prog):
    entries = [p for p in prog.bodies if p.endswith("PercentDecode>::percent_decode") or p.endswith("Base64Decode>::decode")]
    chk.floor("decoder entry points", len(entries), 2)
    bodies, sites = panics.inventory(prog, entries)
    allow = panics.load_allow()
    for s in sites:
        how, why = panics.try_discharge(prog, s)
        if how is None and s.fingerprint in allow:
            ok, why2 = c03.check_allow_cond(prog, s, allow[s.fingerprint], bodies)
            if ok:
                how, why = "reviewed", f"{allow[s.fingerprint]['reason']} [{why2}]"
        chk.ob("R4.no_panic", s.body.path, s.fingerprint.split("|", 1)[1], how is not None,
               f"malformed input can panic the decoder: {s.kind} {s.what} ({why or 'no discharge idiom applies'})" if how is None else f"{how}: {why}", where=s.where())
    chk.floor("panic sites in the decoders", len(sites), 4)


def _at_empty(d):
    """Value of an integer expression over `x.len()` and constants when the length is 0 (None if it depends on anything else)."""
    d = panics._strip(d)
    if not isinstance(d, tuple) or not d:
        return None
    if d[0] == "lit" and isinstance(d[1], int) and not isinstance(d[1], bool):
        return d[1]
    if d[0] == "call" and str(d[1]).endswith("::len"):
        return 0
    if d[0] == "field" and len(d) > 2 and d[2] == 0 and isinstance(d[1], tuple) and d[1] and d[1][0] == "bin":
        return _at_empty(d[1])
    if d[0] == "bin" and len(d) >= 4:
        a, b = _at_empty(d[2]), _at_empty(d[3])
        if a is None or b is None:
            return None
        op = str(d[1]).replace("WithOverflow", "").replace("Unchecked", "")
        try:
            return {"Add": lambda: a + b, "Sub": lambda: a - b, "Mul": lambda: a * b, "Div": lambda: a // b, "Rem": lambda: a % b,
                    "Shl": lambda: a << b, "Shr": lambda: a >> b}[op]()
        except (KeyError, ZeroDivisionError, ValueError):
            return None
    return None


def encoders_accept_empty(chk, prog):
    """R4.empty_input: the encoders' size arithmetic holds for the empty input too — no checked `len - c` / `len / k - c` with a constant `c`
    that no comparison guards (the "ceiling" idiom `(len - 1) / 3 + 1` is only valid for len >= 1: on the empty input it panics in a debug
    build and asks for an absurd allocation in a release build).  RFC 4648's first test vector is BASE64("") = ""."""
    entries = [p for p in prog.bodies if p.endswith("Base64Encode>::encode") or p.endswith("PercentEncode>::percent_encode") or p.endswith("SHA1Hash>::hash")]
    chk.floor("encoder entry points", len(entries), 3)
    bodies, sites = panics.inventory(prog, entries)
    n = 0
    for s_ in sites:
        if not (s_.kind == "assert" and s_.what == "overflow:Sub") or len(s_.operands) < 2:
            continue
        lhs, rhs = panics._strip(s_.operands[0]), panics._strip(s_.operands[1])
        if not (isinstance(rhs, tuple) and rhs and rhs[0] == "lit" and isinstance(rhs[1], int) and rhs[1] > 0):
            continue
        if not core.desc_contains(lhs, lambda y: y[0] == "call" and str(y[1]).endswith("::len")):
            continue
        at0 = _at_empty(lhs)
        if at0 is None or at0 >= rhs[1]:
            continue        # not a function of the length alone, or large enough when the length is 0 (SHA-1's padded size minus 8)
        n += 1
        how, why = panics.try_discharge(prog, s_)
        chk.ob("R4.empty_input", s_.body.path, f"`{panics.short_desc(lhs)} - {rhs[1]}` cannot underflow", how is not None,
               f"the length arithmetic subtracts {rhs[1]} from a length that can be 0 ({why or 'no guard on the length dominates it'}): the empty input panics / over-allocates",
               where=s_.where())
    chk.ob("R4.empty_input", "encoders", "subtractions from a length in the encoders examined", True, f"{n} site(s) of the form len - constant")


def run(chk):
    prog = chk.use(core.load("A", fresh=(chk.tier == "thorough")))
    with open(os.path.join(ORACLES, "constants.json")) as fh:
        orc = json.load(fh)
    chk.explanation = (
        "Static decision of C18's structural clauses: constants and tables against the RFCs (SHA-1 initial values, the four round constants with their index "
        "ranges and boolean functions — compared by truth table —, rotation amounts, big-endian conversions, 0x80 padding; Base64 alphabet, symbol offsets, "
        "masks/shifts, '=' padding; RFC 3986 unreserved set; day/month names, March-first month lengths, the 2000-03-01 epoch and its weekday, 4/100/400-year "
        "day counts, IMF-fixdate template and field order); sibling agreement of the Base64 decoder arms' shift; hex-digit gates before from_str_radix in "
        "percent_decode; panic inventory of the two decoders. Decided for every input: the SHA-1 padding arithmetic (R-ARITH) and, by data flow, the whole "
        "compression structure (word load, schedule recurrence, round update, f/K pairing, chaining, digest order), so the function is RFC 3174's method 1; "
        "the Base64 encoder bit by bit (R-BITS) with its group slicing, and the decoder's grouping / shift / output structure, so decode inverts encode; "
        "the HTTP date's day number, second of day, weekday, hour, minute, second as functions of the timestamp (R-ARITH) and year / month / day through "
        "the 400-year reduction, an exhaustive 146 097-day cycle and the month loop (R2.date_ymd); percent-encoding and -decoding byte class by byte class (R-BYTECLASS).")
    chk.not_decided = ("std's u32::rotate_left / wrapping_add / from_be_bytes / u8::from_str_radix / format!(\"{:02X}\") (trusted); run-time equality itself "
                       "(the rules decide the structure and the finite / periodic arithmetic that determine it)")
    chk.assumptions = ["rustc type checking / HIR / MIR", "oracles/constants.json transcribes the RFC constants",
                       "no integer overflow in the date / padding arithmetic for |timestamp| < 2^62 and lengths < 2^56"]
    sha1(chk, prog, orc)
    sha1_padding(chk, prog)
    sha1_structure(chk, prog, orc)
    base64(chk, prog, orc)
    base64_encoder_bits(chk, prog)
    base64_decoder_structure(chk, prog)
    percent(chk, prog, orc)
    dates(chk, prog, orc)
    no_panic(chk, prog)
    encoders_accept_empty(chk, prog)
